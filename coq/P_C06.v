(* Property C06: a kill at any instant leaves an atomic, loadable checkpoint.
   A crash is ANY prefix of the system-call trace.  For every trace accepted by the recogniser `atomic_trace`
   (the checkpoint path is never unlinked, created, opened for writing or written; it only ever changes by
   rename(T, P) with T closed; T is never opened exclusively) and every crash point, the checkpoint holds its
   initial content or the content of one of the completed renames -- whatever the number and size of the writes,
   and whatever garbage a previous crash left in T. *)
From Coq Require Import List Arith.
Import ListNotations.
Require Import NV.Crash NV.CrashProofs.

Theorem C06_atomic : forall tr, atomic_trace tr = true -> forall f k f',
  run f (firstn k tr) = Some f' -> fP f' = fP f \/ exists c, fP f' = Some c /\ In c (completed f tr).
Proof. exact restart_any_state. Qed.
Print Assumptions C06_atomic.

(* regression witnesses: the two protocols of the code before the repair are not atomic *)
Theorem C06_inplace_refuted : exists tr k f',
  run (mkFs (Some [1]) None false false) (firstn k tr) = Some f' /\ fP f' = None /\ tr = [Unlink P; CreatExcl P; Write P 2; Close P].
Proof. exact CrashProofs.C06_inplace_refuted. Qed.
Print Assumptions C06_inplace_refuted.
Theorem C06_update_refuted : exists tr k f',
  run (mkFs (Some [1]) None false false) (firstn k tr) = Some f' /\ fP f' = Some [1; 2] /\ tr = [OpenRW P; Write P 2; Write P 3; Close P].
Proof. exact CrashProofs.C06_update_refuted. Qed.
Print Assumptions C06_update_refuted.

(* non-vacuity: the protocol of the repaired code (full write, then an incremental update through a copy) is accepted *)
Example C06_example : atomic_trace [Creat T; Write T 1; Write T 2; Close T; Rename T P;
                                    Creat T; CopyPT; Close T; OpenRW T; Write T 3; Close T; Rename T P] = true /\
  completed (mkFs None None false false) [Creat T; Write T 1; Write T 2; Close T; Rename T P;
                                          Creat T; CopyPT; Close T; OpenRW T; Write T 3; Close T; Rename T P] = [[1; 2]; [1; 2; 3]].
Proof. split; vm_compute; reflexivity. Qed.
