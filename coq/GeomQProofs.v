From Coq Require Import List Arith QArith Bool Lia Permutation.
Import ListNotations.
Require Import NV.Base NV.GeomQ NV.Union2 NV.UnionProofs.

Section Compose.
Variable pt : Type.

(* every point a union batch returns lies in the member it was drawn from and in the cube: contains() holds *)
Theorem union_batch_sound (members : list (pt -> bool)) cube (props : list (list pt)) :
  Forall2 (fun m ps => Forall (fun p => m p = true) ps) members props ->
  forall p, In p (union_batch pt props cube) -> union_contains pt members cube p = true.
Proof.
  intros HF p Hin. unfold union_batch in Hin. apply filter_In in Hin. destruct Hin as [Hc Hcube].
  unfold union_contains. rewrite Hcube, andb_true_r. apply existsb_exists.
  clear Hcube. induction HF as [|m ps ms pss Hm _ IH]; simpl in Hc; [contradiction|].
  apply in_app_or in Hc. destruct Hc as [Hc|Hc].
  - exists m. split; [now left|]. rewrite Forall_forall in Hm. now apply Hm.
  - destruct (IH Hc) as (m' & Hin' & Hp). exists m'. split; [now right|exact Hp].
Qed.

Theorem mixture_sound cube_part ell_part (p : pt) :
  (forall f, cube_part = Some f -> f p = true) -> (forall f, ell_part = Some f -> f p = true) -> mixture_contains pt cube_part ell_part p = true.
Proof.
  intros H1 H2. unfold mixture_contains. destruct cube_part as [f|], ell_part as [g|]; simpl;
    rewrite ?(H1 f eq_refl), ?(H2 g eq_refl); auto.
Qed.

(* a neural or nautilus bound never contains a point outside its outer bound *)
Theorem neural_sub outer score (p : pt) : neural_contains pt outer score p = true -> outer p = true.
Proof. unfold neural_contains. intros H. apply andb_true_iff in H. tauto. Qed.
Theorem nautilus_sub shift outer neurals (p : pt) : nautilus_contains pt shift outer neurals p = true -> outer (shift p) = true.
Proof. unfold nautilus_contains. intros H. apply andb_true_iff in H. tauto. Qed.

(* NautilusBound.sample: outer-bound samples that pass a neural bound, shifted back; contains() accepts them whenever the
   shift undoes its inverse (exactly so on the grid, C16_grid_inverse) *)
Theorem nautilus_batch_sound shift unshift outer neurals outer_samples :
  (forall q, In q outer_samples -> outer q = true) -> (forall q, In q outer_samples -> shift (unshift q) = q) ->
  forall p, In p (nautilus_batch pt unshift outer_samples neurals) -> nautilus_contains pt shift outer neurals p = true.
Proof.
  intros Ho Hs p Hin. unfold nautilus_batch in Hin. apply in_map_iff in Hin. destruct Hin as (q & <- & Hq).
  apply filter_In in Hq. destruct Hq as [Hq Hn]. unfold nautilus_contains. rewrite (Hs q Hq), (Ho q Hq). simpl.
  destruct neurals; [simpl in Hn; discriminate|exact Hn].
Qed.
End Compose.

(* ---- construction points stay enclosed under any sequence of splits and trims ---- *)
Section Split.
Variable n_min : nat.
Variable covers : ubid -> upid -> bool.        (* ellipsoid b contains point p (an oracle: C07_mvee_enclose for freshly built ones) *)

Definition Covered (u : ust) : Prop := Forall2 (fun b pts => Forall (fun p => covers b p = true) pts) (bs u) (pbs u).
(* the obligation on the geometry oracle: each half of a successful split is covered by the ellipsoid built from it *)
Definition halves_covered (u : ust) (ats : list attempt) : Prop :=
  forall i labels b0 b1 v0 v1 pts, In (ASuccess i labels b0 b1 v0 v1) ats -> nth_error (pbs u) i = Some pts ->
    Forall (fun p => covers b0 p = true) (fmask (map negb labels) pts) /\ Forall (fun p => covers b1 p = true) (fmask labels pts).

Lemma Forall2_remove_nth {A B} (P : A -> B -> Prop) l1 l2 i : Forall2 P l1 l2 -> Forall2 P (remove_nth i l1) (remove_nth i l2).
Proof. intros H. revert i; induction H; intros [|i]; simpl; auto. Qed.

Lemma split_go_covered allow : forall ats u u' r, halves_covered u ats -> Covered u -> split_go n_min allow ats u = Some (u', r) -> Covered u'.
Proof.
  induction ats as [|a rest IH]; intros u u' r HH HC E; simpl in E.
  - destruct (argmax u); inversion E; subst; auto.
  - destruct (argmax u) as [idx|]; [|discriminate].
    destruct a as [i|i|i labels b0 b1 v0 v1].
    + destruct (Nat.eqb i idx); [|discriminate]. eapply IH; [| |exact E].
      * intros i' l' c0 c1 w0 w1 pts Hin Hn. simpl in Hn. apply (HH i' l' c0 c1 w0 w1 pts); [now right|exact Hn].
      * exact HC.
    + destruct (Nat.eqb i idx && negb allow); [|discriminate]. destruct rest; inversion E; subst; auto.
    + destruct (nth_error (pbs u) idx) as [pts|] eqn:En; [|discriminate].
      destruct (nth_error (vols u) idx); [|discriminate]. destruct rest; [|discriminate].
      destruct (negb (Nat.eqb i idx)) eqn:Ei; [discriminate|]. apply negb_false_iff, Nat.eqb_eq in Ei. subst i.
      destruct (negb (Nat.eqb (length labels) (length pts))); [discriminate|].
      destruct (negb (_ && _)); [discriminate|]. destruct (negb (Qle_bool _ _)); [discriminate|].
      inversion E; subst; clear E. unfold Covered; simpl.
      destruct (HH idx labels b0 b1 v0 v1 pts (or_introl eq_refl) En) as [H0 H1].
      apply Forall2_app; [now apply Forall2_remove_nth|]. repeat constructor; auto.
Qed.
Lemma trim_covered d u u' r : Covered u -> trim d u = Some (u', r) -> Covered u'.
Proof.
  intros HC. unfold trim. destruct d as [i|]; [|intros E; inversion E; subst; auto].
  destruct (Nat.leb _ 1); [discriminate|]. destruct (negb _); [discriminate|]. intros E; inversion E; subst.
  unfold Covered; simpl. now apply Forall2_remove_nth.
Qed.

(* consequence: every point still held by the union lies in one of its ellipsoids *)
Theorem covered_in_union u : Covered u -> forall p, In p (concat (pbs u)) -> exists b, In b (bs u) /\ covers b p = true.
Proof.
  unfold Covered. intros H. induction H as [|b pts bl pl Hb _ IH]; simpl; intros p Hin; [contradiction|].
  apply in_app_or in Hin. destruct Hin as [Hin|Hin].
  - exists b. split; [now left|]. rewrite Forall_forall in Hb. now apply Hb.
  - destruct (IH p Hin) as (b' & Hb' & Hc). exists b'. split; [now right|exact Hc].
Qed.
End Split.
