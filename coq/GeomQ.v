(* Executable exact-arithmetic model of the geometric predicates of the bounds (definitions only):
   Ellipsoid.contains (basic.py 344-360) as a quadratic form over Q, UnitCube.contains (51-67), and the boolean
   composition used by UnitCubeEllipsoidMixture.contains (594-617), Union.contains (269-289), NeuralBound.contains
   (neural.py 96-126) and NautilusBound.contains (nautilus.py 146-169). *)
From Coq Require Import List Arith QArith Bool.
Import ListNotations.
Open Scope Q_scope.

Definition vec := list Q.
Definition mat := list vec.                       (* rows *)
Definition dot (a b : vec) : Q := fold_right Qplus 0 (map (fun p => fst p * snd p) (combine a b)).
Definition vsub (a b : vec) : vec := map (fun p => fst p - snd p) (combine a b).
Definition mvec (m : mat) (v : vec) : vec := map (fun r => dot r v) m.
Definition nrm2 (v : vec) : Q := dot v v.

(* np.sum(np.einsum('ij,...j', B_inv, x - c)**2) < 1 *)
Definition quad (binv : mat) (c x : vec) : Q := nrm2 (mvec binv (vsub x c)).
Definition ell_contains (binv : mat) (c x : vec) : bool := if Qlt_le_dec (quad binv c x) 1 then true else false.
(* np.all((x >= 0) & (x < 1)) *)
Definition cube_contains (x : vec) : bool := forallb (fun v => (if Qlt_le_dec v 0 then false else true) && (if Qlt_le_dec v 1 then true else false)) x.

(* boolean composition; member predicates are arbitrary *)
Section Compose.
Variable pt : Type.
Definition mixture_contains (cube_part ell_part : option (pt -> bool)) (p : pt) : bool :=
  (match cube_part with Some f => f p | None => true end) && (match ell_part with Some f => f p | None => true end).
Definition union_contains (members : list (pt -> bool)) (cube : option (pt -> bool)) (p : pt) : bool :=
  existsb (fun m => m p) members && (match cube with Some f => f p | None => true end).
(* `in_bound[in_bound] = emulator.predict(...) > threshold`: the score is only consulted inside the outer ellipsoid *)
Definition neural_contains (outer : pt -> bool) (score : option (pt -> bool)) (p : pt) : bool :=
  outer p && (match score with Some f => f p | None => true end).
Definition nautilus_contains (shift : pt -> pt) (outer : pt -> bool) (neurals : list (pt -> bool)) (p : pt) : bool :=
  let q := shift p in outer q && (match neurals with [] => true | _ => existsb (fun n => n q) neurals end).

(* one internal batch of Union.sample / NautilusBound.sample at the level the property needs:
   proposals come from the members, are filtered by the cube (union) or by the neural bounds (nautilus), and a subset is returned *)
Definition union_batch (props : list (list pt)) (cube : option (pt -> bool)) : list pt :=
  filter (fun p => match cube with Some f => f p | None => true end) (concat props).
Definition nautilus_batch (unshift : pt -> pt) (outer_samples : list pt) (neurals : list (pt -> bool)) : list pt :=
  map unshift (filter (fun q => existsb (fun n => n q) neurals) outer_samples).
End Compose.
