(* Checkpoint codec of the sampler itself: Sampler.write (sampler.py 1245-1326), Sampler.write_shell_update (1328-1377)
   and the resume branch of Sampler.__init__ (330-371), over the abstract HDF5 tree of Codec.v.
   Values are opaque tokens; the groups written by the bounds are opaque subtrees (their codec is C09). *)
From Coq Require Import List Arith PArith Bool Lia.
Import ListNotations.
Require Import NV.Codec NV.Codec2.

Definition T_sampler := 40%positive. Definition T_nlike := 41%positive. Definition T_explored := 42%positive. Definition T_discard := 43%positive.
Definition T_shn := 44%positive. Definition T_shns := 45%positive. Definition T_shneff := 46%positive. Definition T_shlmin := 47%positive.
Definition T_shll := 48%positive. Definition T_shlv := 49%positive. Definition T_nse := 50%positive. Definition T_ee := 51%positive.
Definition T_nui := 52%positive. Definition T_nli := 53%positive. Definition T_pts := 54%positive. Definition T_logl := 55%positive.
Definition T_blobs := 56%positive. Definition T_ptst := 57%positive. Definition T_sht := 58%positive. Definition T_loglt := 59%positive.
Definition T_blobst := 60%positive. Definition T_rng1 := 61%positive. Definition T_rng2 := 62%positive. Definition T_rng3 := 63%positive.
Definition T_rng4 := 64%positive. Definition T_static := 65%positive. Definition T_bnd := 66%positive.

Record sfile := mkSF {
  sf_static : list tok;                 (* n_dim n_live n_update n_like_new_bound enlarge_per_dim n_points_min split_threshold n_networks n_batch vectorized pass_dict *)
  sf_nlike : tok; sf_explored : tok; sf_discard : tok;
  sf_shn : tok; sf_shns : tok; sf_shneff : tok; sf_shlmin : tok; sf_shll : tok; sf_shlv : tok;
  sf_nse : tok; sf_ee : tok; sf_nui : tok; sf_nli : tok;
  sf_points : list tok; sf_logl : list tok; sf_blobs : option (list tok);
  sf_ptst : tok; sf_sht : tok; sf_loglt : tok; sf_blobst : option tok;
  sf_bounds : list h5;
  sf_rng : tok * tok * tok * tok }.

Definition rng_attrs (r : tok * tok * tok * tok) : list (name * tok) :=
  let '(a, b, c, d) := r in [(Nm T_rng1, a); (Nm T_rng2, b); (Nm T_rng3, c); (Nm T_rng4, d)].
(* attributes in the order of the key list of write(); the eleven static ones first *)
Definition sampler_attrs (s : sfile) : list (name * tok) :=
  indexed (fun i v => (NmI T_static i, v)) 0 (sf_static s) ++
  [(Nm T_nlike, sf_nlike s); (Nm T_explored, sf_explored s); (Nm T_discard, sf_discard s); (Nm T_shn, sf_shn s); (Nm T_shns, sf_shns s);
   (Nm T_shneff, sf_shneff s); (Nm T_shlmin, sf_shlmin s); (Nm T_shll, sf_shll s); (Nm T_shlv, sf_shlv s); (Nm T_nse, sf_nse s);
   (Nm T_ee, sf_ee s); (Nm T_nui, sf_nui s); (Nm T_nli, sf_nli s)] ++ rng_attrs (sf_rng s).
Definition sampler_dsets (s : sfile) : list (name * tok) :=
  indexed (fun i v => (NmI T_pts i, v)) 0 (sf_points s) ++ indexed (fun i v => (NmI T_logl i, v)) 0 (sf_logl s) ++
  (match sf_blobs s with Some bl => indexed (fun i v => (NmI T_blobs i, v)) 0 bl | None => [] end) ++
  [(Nm T_ptst, sf_ptst s); (Nm T_sht, sf_sht s); (Nm T_loglt, sf_loglt s)] ++
  (match sf_blobst s with Some b => [(Nm T_blobst, b)] | None => [] end).
Definition write_file (s : sfile) : h5 :=
  Grp [] [] ((Nm T_sampler, Grp (sampler_attrs s) (sampler_dsets s) []) :: indexed (fun i g => (NmI T_bnd i, g)) 0 (sf_bounds s)).

(* write_shell_update(shell): the ten attributes of its key list and the generator state, the three per-shell datasets of
   `shell`, the transfer arrays, and the group of bound `shell` (which the bound updates itself, C09_update_nautilus) *)
Definition upd_attrs (s : sfile) (a : list (name * tok)) : list (name * tok) :=
  let '(r1, r2, r3, r4) := sf_rng s in
  fold_left (fun acc kv => set_assoc (fst kv) (snd kv) acc)
    [(Nm T_nlike, sf_nlike s); (Nm T_discard, sf_discard s); (Nm T_shn, sf_shn s); (Nm T_shns, sf_shns s); (Nm T_shneff, sf_shneff s);
     (Nm T_shlmin, sf_shlmin s); (Nm T_shll, sf_shll s); (Nm T_shlv, sf_shlv s); (Nm T_nui, sf_nui s); (Nm T_nli, sf_nli s);
     (Nm T_rng1, r1); (Nm T_rng2, r2); (Nm T_rng3, r3); (Nm T_rng4, r4)] a.
Definition opt_set (k : name) (o : option tok) (d : list (name * tok)) : list (name * tok) :=
  match o with Some v => set_assoc k v d | None => d end.
Definition upd_dsets (s : sfile) (shell : nat) (d : list (name * tok)) : list (name * tok) :=
  let d1 := opt_set (NmI T_pts shell) (nth_error (sf_points s) shell) d in
  let d2 := opt_set (NmI T_logl shell) (nth_error (sf_logl s) shell) d1 in
  let d3 := match sf_blobs s with Some bl => opt_set (NmI T_blobs shell) (nth_error bl shell) d2 | None => d2 end in
  let d4 := set_assoc (Nm T_loglt) (sf_loglt s) (set_assoc (Nm T_sht) (sf_sht s) (set_assoc (Nm T_ptst) (sf_ptst s) d3)) in
  opt_set (Nm T_blobst) (sf_blobst s) d4.
Definition upd_file (g : h5) (s : sfile) (shell : nat) : h5 :=
  match g with
  | Grp a d k =>
    Grp a d (upd_kid (NmI T_bnd shell) (fun old => match nth_error (sf_bounds s) shell with Some gnew => gnew | None => old end)
              (upd_kid (Nm T_sampler) (fun sg => match sg with Grp sa sd sk => Grp (upd_attrs s sa) (upd_dsets s shell sd) sk end) k))
  end.

(* what may differ between the state at the last write and the state after more batches on `shell` and discard toggles *)
Fixpoint same_except {A} (i : nat) (a b : list A) {struct a} : Prop :=
  match a, b with
  | [], [] => True
  | x :: a', y :: b' => match i with O => a' = b' | S j => x = y /\ same_except j a' b' end
  | _, _ => False
  end.
Definition batch_frame (shell : nat) (s0 s1 : sfile) : Prop :=
  sf_static s0 = sf_static s1 /\ sf_explored s0 = sf_explored s1 /\ sf_nse s0 = sf_nse s1 /\ sf_ee s0 = sf_ee s1 /\
  same_except shell (sf_points s0) (sf_points s1) /\ same_except shell (sf_logl s0) (sf_logl s1) /\
  (match sf_blobs s0, sf_blobs s1 with Some a, Some b => same_except shell a b | None, None => True | _, _ => False end) /\
  (match sf_blobst s0, sf_blobst s1 with Some _, Some _ | None, None => True | _, _ => False end) /\
  same_except shell (sf_bounds s0) (sf_bounds s1).

(* resume: read everything back (by name) *)
Fixpoint r_indexed {V} (T : positive) (l : list (name * V)) (i n : nat) : option (list V) :=
  match n with O => Some [] | S n' => match assoc (NmI T i) l, r_indexed T l (S i) n' with Some v, Some r => Some (v :: r) | _, _ => None end end.
(* blobs: `if 'blobs_i' in group: if i == 0: self.blobs = []; self.blobs.append(...)`.  A blobs_i without a blobs_0 is an
   AttributeError (None has no append): the read fails; a gap after blobs_0 silently gives a shorter list. *)
Fixpoint r_blobs (d : list (name * tok)) (i n : nat) (acc : option (list tok)) : option (option (list tok)) :=
  match n with
  | O => Some acc
  | S n' =>
    match assoc (NmI T_blobs i) d with
    | None => r_blobs d (S i) n' acc
    | Some v =>
      match i, acc with
      | O, _ => r_blobs d (S i) n' (Some [v])
      | S _, Some l => r_blobs d (S i) n' (Some (l ++ [v]))
      | S _, None => None
      end
    end
  end.
Definition opt_or {A} (o : option A) (d : A) : A := match o with Some v => v | None => d end.

(* Sampler.__init__(resume=True): `static` are the constructor arguments (they are not read back), `n` is
   len(shell_n) as read from the file, `dflt` the values the transfer arrays keep when their datasets are absent *)
Definition read_file (static : list tok) (n : nat) (dflt : tok * tok * tok) (g : h5) : option sfile :=
  match kid (Nm T_sampler) g with
  | None => None
  | Some sg =>
    let a := attrs_of sg in let d := dsets_of sg in
    match assoc (Nm T_rng1) a, assoc (Nm T_rng2) a, assoc (Nm T_rng3) a, assoc (Nm T_rng4) a with
    | Some r1, Some r2, Some r3, Some r4 =>
      match assoc (Nm T_nlike) a, assoc (Nm T_explored) a, assoc (Nm T_discard) a, assoc (Nm T_shn) a, assoc (Nm T_shns) a, assoc (Nm T_shneff) a,
            assoc (Nm T_shlmin) a with
      | Some v1, Some v2, Some v3, Some v4, Some v5, Some v6, Some v7 =>
        match assoc (Nm T_shll) a, assoc (Nm T_shlv) a, assoc (Nm T_nse) a, assoc (Nm T_ee) a, assoc (Nm T_nui) a, assoc (Nm T_nli) a with
        | Some v8, Some v9, Some v10, Some v11, Some v12, Some v13 =>
          match r_indexed T_pts d 0 n, r_indexed T_logl d 0 n, r_blobs d 0 n None, r_indexed T_bnd (kids_of g) 0 n with
          | Some ps, Some ls, Some bl, Some bs =>
            let '(d1, d2, d3) := dflt in
            Some (mkSF static v1 v2 v3 v4 v5 v6 v7 v8 v9 v10 v11 v12 v13 ps ls bl
                       (opt_or (assoc (Nm T_ptst) d) d1) (opt_or (assoc (Nm T_sht) d) d2) (opt_or (assoc (Nm T_loglt) d) d3) (assoc (Nm T_blobst) d)
                       bs (r1, r2, r3, r4))
          | _, _, _, _ => None
          end
        | _, _, _, _, _, _ => None
        end
      | _, _, _, _, _, _, _ => None
      end
    | _, _, _, _ => None
    end
  end.
