From Coq Require Import Reals Lra.
From Coquelicot Require Import Coquelicot.
Open Scope R_scope.
(* extra copy indicator: u < t *)
Definition extra (t u : R) : R := if Rlt_dec u t then 1 else 0.
Lemma extra_int t : 0 <= t <= 1 -> is_RInt (extra t) 0 1 t.
Proof.
intros [H0 H1].
assert (A : is_RInt (extra t) 0 t (scal (t - 0) 1)).
{ apply (is_RInt_ext (fun _ => 1)).
  - intros x [Hx1 Hx2]. unfold extra. rewrite Rmin_left in Hx1 by lra. rewrite Rmax_right in Hx2 by lra.
    destruct (Rlt_dec x t); [reflexivity|lra].
  - apply @is_RInt_const. }
assert (B : is_RInt (extra t) t 1 (scal (1 - t) 0)).
{ apply (is_RInt_ext (fun _ => 0)).
  - intros x [Hx1 Hx2]. unfold extra. rewrite Rmin_left in Hx1 by lra. rewrite Rmax_right in Hx2 by lra.
    destruct (Rlt_dec x t); [lra|reflexivity].
  - apply @is_RInt_const. }
pose proof (is_RInt_Chasles _ _ _ _ _ _ A B) as C.
replace t with (plus (scal (t - 0) 1) (scal (1 - t) 0)) at 2; [exact C|].
unfold plus, scal; simpl; unfold mult; simpl; lra.
Qed.

(* the number of copies as a function of the uniform draw u: floor r, plus one when u < frac r *)
Definition repeatsR (r u : R) : R := IZR (Int_part r) + extra (frac_part r) u.

(* expectation over u ~ U[0,1) is exactly r *)
Theorem expectation_repeats r : is_RInt (repeatsR r) 0 1 r.
Proof.
  destruct (base_fp r) as [F0 F1].
  assert (A : is_RInt (fun _ : R => IZR (Int_part r)) 0 1 (scal (1 - 0) (IZR (Int_part r)))) by apply @is_RInt_const.
  assert (B : is_RInt (extra (frac_part r)) 0 1 (frac_part r)) by (apply extra_int; lra).
  pose proof (is_RInt_plus _ _ _ _ _ _ A B) as C.
  replace r with (plus (scal (1 - 0) (IZR (Int_part r))) (frac_part r)) at 2; [exact C|].
  unfold plus, scal; simpl; unfold mult; simpl. unfold frac_part. lra.
Qed.
(* and the value is always floor r or floor r + 1 *)
Theorem repeatsR_values r u : repeatsR r u = IZR (Int_part r) \/ repeatsR r u = IZR (Int_part r) + 1.
Proof. unfold repeatsR, extra. destruct (Rlt_dec u (frac_part r)); [right|left]; lra. Qed.
