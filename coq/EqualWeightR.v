From Coq Require Import Reals Lra.
From Coquelicot Require Import Coquelicot.
Open Scope R_scope.
(* extra copy indicator: u < t *)
Definition extra (t u : R) : R := if Rlt_dec u t then 1 else 0.
Lemma extra_int t : 0 <= t <= 1 -> is_RInt (extra t) 0 1 t.
Proof.
intros [H0 H1].
assert (A : is_RInt (extra t) 0 t (scal (t - 0) 1)).
{ apply (is_RInt_ext (fun _ => 1)).
  - intros x [Hx1 Hx2]. unfold extra. rewrite Rmin_left in Hx1 by lra. rewrite Rmax_right in Hx2 by lra.
    destruct (Rlt_dec x t); [reflexivity|lra].
  - apply @is_RInt_const. }
assert (B : is_RInt (extra t) t 1 (scal (1 - t) 0)).
{ apply (is_RInt_ext (fun _ => 0)).
  - intros x [Hx1 Hx2]. unfold extra. rewrite Rmin_left in Hx1 by lra. rewrite Rmax_right in Hx2 by lra.
    destruct (Rlt_dec x t); [lra|reflexivity].
  - apply @is_RInt_const. }
pose proof (is_RInt_Chasles _ _ _ _ _ _ A B) as C.
replace t with (plus (scal (t - 0) 1) (scal (1 - t) 0)) at 2; [exact C|].
unfold plus, scal; simpl; unfold mult; simpl; lra.
Qed.
