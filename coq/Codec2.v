(* Checkpoint codec, second part: PhaseShift (periodic.py 74-109), NeuralNetworkEmulator (neural.py 118-187),
   NeuralBound (bounds/neural.py 128-173), NautilusBound (bounds/nautilus.py 292-380) and the incremental update
   (union.py 372-384, nautilus.py 319-332).  Array / scalar values are opaque tokens. *)
From Coq Require Import List Arith PArith Bool Lia.
Import ListNotations.
Require Import NV.Codec.

Definition T_periodic := 20%positive. Definition T_centers := 21%positive. Definition T_spm := 22%positive.
Definition T_outer := 23%positive. Definition T_emu := 24%positive. Definition T_nnet := 25%positive.
Definition T_coefs := 26%positive. Definition T_icpts := 27%positive. Definition T_mean := 28%positive. Definition T_scale := 29%positive.
Definition T_shift := 30%positive. Definition T_nneural := 31%positive. Definition T_neural := 32%positive.
Definition V_Shift := 107%positive. Definition V_Naut := 108%positive.

Record shiftb := mkShift { s_periodic : tok; s_centers : tok }.
(* one MLPRegressor: the attributes of its __dict__ that h5py can store (key tag, value), and the weight arrays *)
Record network := mkNet { nw_attrs : list (positive * tok); nw_coefs : list tok; nw_icpts : list tok }.
Record emulator := mkEmu { em_nnet : tok; em_nets : list network; em_mean : tok; em_scale : tok }.
Record neural := mkNeural { nb_ndim : tok; nb_spm : tok; nb_outer : ell; nb_emu : option emulator }.
Record nautilus := mkNaut { na_ndim : tok; na_shift : option shiftb; na_nneural : tok; na_neurals : list neural;
                            na_outer : union; na_points : tok; na_nsample : tok; na_nreject : tok }.

Definition w_shift (s : shiftb) : h5 := Grp [(Nm T_type, V_Shift); (Nm T_periodic, s_periodic s); (Nm T_centers, s_centers s)] [] [].
Definition r_shift (g : h5) : option shiftb :=
  match attr (Nm T_periodic) g, attr (Nm T_centers) g with Some p, Some c => Some (mkShift p c) | _, _ => None end.

(* emulator *)
Definition w_net_attrs (i : nat) (n : network) : list (name * tok) := map (fun kv => (NmK (fst kv) i, snd kv)) (nw_attrs n).
Definition w_net_dsets (i : nat) (n : network) : list (name * tok) :=
  indexed (fun k c => (NmKI T_coefs k i, c)) 0 (nw_coefs n) ++ indexed (fun k c => (NmKI T_icpts k i, c)) 0 (nw_icpts n).
Definition w_emu (e : emulator) : h5 :=
  Grp ((Nm T_nnet, em_nnet e) :: concat (indexed w_net_attrs 0 (em_nets e)))
      (concat (indexed w_net_dsets 0 (em_nets e)) ++ [(Nm T_mean, em_mean e); (Nm T_scale, em_scale e)]) [].

Section Read.
Variable any_cube all_cube : tok -> bool.
Variable alen : tok -> nat.
Variable tnat : tok -> nat.                       (* value of an integer attribute *)
Variable nlayers : list (positive * tok) -> nat.   (* network.n_layers_ - 1, read from the restored attributes *)

(* `for key in group.attrs: if key.rsplit('_', 1)[1] == str(i): setattr(network, key.rsplit('_', 1)[0], ...)` *)
Fixpoint net_attrs_of (i : nat) (l : list (name * tok)) : list (positive * tok) :=
  match l with
  | [] => []
  | (NmK k j, v) :: r => if Nat.eqb j i then (k, v) :: net_attrs_of i r else net_attrs_of i r
  | _ :: r => net_attrs_of i r
  end.
Fixpoint r_arrays (T : positive) (g : h5) (i k n : nat) : option (list tok) :=
  match n with
  | O => Some []
  | S n' => match dset (NmKI T k i) g, r_arrays T g i (S k) n' with Some c, Some r => Some (c :: r) | _, _ => None end
  end.
Definition r_net (g : h5) (i : nat) : option network :=
  let at_ := net_attrs_of i (attrs_of g) in
  match r_arrays T_coefs g i 0 (nlayers at_), r_arrays T_icpts g i 0 (nlayers at_) with
  | Some c, Some b => Some (mkNet at_ c b) | _, _ => None end.
Fixpoint r_nets (g : h5) (i n : nat) : option (list network) :=
  match n with
  | O => Some []
  | S n' => match r_net g i, r_nets g (S i) n' with Some x, Some r => Some (x :: r) | _, _ => None end
  end.
Definition r_emu (g : h5) : option emulator :=
  match attr (Nm T_nnet) g, dset (Nm T_mean) g, dset (Nm T_scale) g with
  | Some nn, Some m, Some s => match r_nets g 0 (tnat nn) with Some ns => Some (mkEmu nn ns m s) | None => None end
  | _, _, _ => None
  end.

(* neural bound *)
Definition w_neural (n : neural) : h5 :=
  Grp [(Nm T_ndim, nb_ndim n); (Nm T_spm, nb_spm n)] []
      ((Nm T_outer, w_ell (nb_outer n)) :: optkid (Nm T_emu) w_emu (nb_emu n)).
Definition r_neural (g : h5) : option neural :=
  match attr (Nm T_ndim) g, attr (Nm T_spm) g, kid (Nm T_outer) g with
  | Some n, Some s, Some ko =>
    match r_ell ko, (match kid (Nm T_emu) g with Some ke => option_map Some (r_emu ke) | None => Some None end) with
    | Some e, Some oe => Some (mkNeural n s e oe) | _, _ => None end
  | _, _, _ => None
  end.

(* nautilus bound *)
Definition w_naut (b : nautilus) : h5 :=
  Grp [(Nm T_type, V_Naut); (Nm T_ndim, na_ndim b); (Nm T_nneural, na_nneural b); (Nm T_nsample, na_nsample b); (Nm T_nreject, na_nreject b)]
      [(Nm T_points, na_points b)]
      (optkid (Nm T_shift) w_shift (na_shift b) ++ indexed (fun i n => (NmI T_neural i, w_neural n)) 0 (na_neurals b) ++ [(Nm T_outer, w_union (na_outer b))]).
(* `while 'neural_bound_{}'.format(i) in group`: reads as many as exist *)
Fixpoint r_neurals (g : h5) (i fuel : nat) : option (list neural) :=
  match fuel with
  | O => Some []
  | S f => match kid (NmI T_neural i) g with
           | None => Some []
           | Some k => match r_neural k, r_neurals g (S i) f with Some x, Some r => Some (x :: r) | _, _ => None end
           end
  end.
Definition r_naut (g : h5) : option nautilus :=
  match attr (Nm T_ndim) g, attr (Nm T_nneural) g, attr (Nm T_nsample) g, attr (Nm T_nreject) g, dset (Nm T_points) g, kid (Nm T_outer) g with
  | Some n, Some nn, Some ns, Some nr, Some pts, Some ko =>
    let osh := match kid (Nm T_shift) g with Some ks => option_map Some (r_shift ks) | None => Some None end in
    match osh, r_neurals g 0 (length (kids_of g)), r_union any_cube all_cube alen ko with
    | Some sh, Some nbs, Some u => Some (mkNaut n sh nn nbs u pts ns nr)
    | _, _, _ => None
    end
  | _, _, _, _, _, _ => None
  end.
End Read.

(* ---- incremental update: overwrite n_sample, n_reject and the points cache, here and in the outer union ---- *)
Fixpoint set_assoc {V} (k : name) (v : V) (l : list (name * V)) : list (name * V) :=
  match l with [] => [] | (k', v') :: r => if name_eqb k k' then (k', v) :: r else (k', v') :: set_assoc k v r end.
Definition upd_union_grp (g : h5) (u : union) : h5 :=
  match g with Grp a d k =>
    Grp (set_assoc (Nm T_nreject) (u_nreject u) (set_assoc (Nm T_nsample) (u_nsample u) a)) (set_assoc (Nm T_points) (u_points u) d) k end.
Fixpoint upd_kid (k : name) (f : h5 -> h5) (l : list (name * h5)) : list (name * h5) :=
  match l with [] => [] | (k', g) :: r => if name_eqb k k' then (k', f g) :: r else (k', g) :: upd_kid k f r end.
Definition upd_naut_grp (g : h5) (b : nautilus) : h5 :=
  match g with Grp a d k =>
    Grp (set_assoc (Nm T_nreject) (na_nreject b) (set_assoc (Nm T_nsample) (na_nsample b) a)) (set_assoc (Nm T_points) (na_points b) d)
        (upd_kid (Nm T_outer) (fun ku => upd_union_grp ku (na_outer b)) k) end.

(* what sample() may change in a union / nautilus bound (everything else is static after construction) *)
Definition same_static_union (u0 u1 : union) : Prop :=
  u_ndim u0 = u_ndim u1 /\ u_logvall u0 = u_logvall u1 /\ u_enl u0 = u_enl u1 /\ u_nmin u0 = u_nmin u1 /\ u_cube u0 = u_cube u1 /\
  u_members u0 = u_members u1 /\ u_pbs u0 = u_pbs u1.
Definition same_static_naut (b0 b1 : nautilus) : Prop :=
  na_ndim b0 = na_ndim b1 /\ na_shift b0 = na_shift b1 /\ na_nneural b0 = na_nneural b1 /\ na_neurals b0 = na_neurals b1 /\
  same_static_union (na_outer b0) (na_outer b1).
