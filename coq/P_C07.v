(* Property C07: bounds are sound -- samples lie inside, construction points are enclosed.
   Exact arithmetic (any real field, any dimension) for the ellipsoid; arbitrary member predicates for the composites.
   Floating-point rounding inside numpy/LAPACK is NOT covered by these theorems (see DESIGN.md); the tie evaluates the
   exact quadratic form on the very matrices the implementation built. *)
From mathcomp Require Import all_ssreflect all_algebra.
Require Import NV.Geom NV.Geom2 NV.GeomQ NV.GeomQProofs NV.Union2 NV.UnionProofs.
Import GRing.Theory Num.Theory.
Local Open Scope ring_scope.

(* Ellipsoid.sample: x = B (r u) + c with |u| = 1, 0 <= r < 1 satisfies contains(): |B^-1 (x - c)|^2 < 1 *)
Theorem C07_ell_sample : forall (F : realFieldType) (d : nat) (B : 'M[F]_d) (c u : 'cV[F]_d) (r : F),
  B \in unitmx -> Geom.nrm2 u = 1 -> 0 <= r < 1 -> Geom.ell_contains B c (Geom.ell_point B c r u).
Proof. move=> F d B c u r; exact: Geom.C07_ell_sample. Qed.
Print Assumptions C07_ell_sample.

(* contains() computes in the Cholesky frame; that is the quadratic form of the matrix A defining the ellipsoid *)
Theorem C07_chol_frame : forall (F : realFieldType) (d : nat) (B Ainv : 'M[F]_d) (y : 'cV[F]_d),
  B \in unitmx -> Ainv = B *m B^T -> Geom2.nrm2 (invmx B *m y) = (y^T *m invmx Ainv *m y) 0 0.
Proof. move=> F d B Ainv y; exact: Geom2.C07_chol_frame. Qed.
Print Assumptions C07_chol_frame.

(* any MVEE iterate, rescaled by the largest quadratic form of its points and enlarged by e > 1, strictly encloses them *)
Theorem C07_mvee_enclose : forall (F : realFieldType) (qs : seq F) (scale e q : F),
  0 < scale -> (forall x, x \in qs -> x <= scale) -> 1 < e -> q \in qs -> 0 <= q -> q / (scale * e ^+ 2) < 1.
Proof. move=> F qs scale e q; exact: Geom2.C07_mvee_enclose. Qed.
Print Assumptions C07_mvee_enclose.

(* composites, for arbitrary member predicates and any point type *)
Theorem C07_union_sample : forall (pt : Type) (members : list (pt -> bool)) cube (props : list (list pt)),
  List.Forall2 (fun m ps => List.Forall (fun p => m p = true) ps) members props ->
  forall p, List.In p (union_batch pt props cube) -> union_contains pt members cube p = true.
Proof. exact: union_batch_sound. Qed.
Print Assumptions C07_union_sample.

Theorem C07_mixture : forall (pt : Type) cube_part ell_part (p : pt),
  (forall f, cube_part = Some f -> f p = true) -> (forall f, ell_part = Some f -> f p = true) -> mixture_contains pt cube_part ell_part p = true.
Proof. exact: mixture_sound. Qed.
Print Assumptions C07_mixture.

Theorem C07_neural_sub : forall (pt : Type) outer score (p : pt), neural_contains pt outer score p = true -> outer p = true.
Proof. exact: neural_sub. Qed.
Print Assumptions C07_neural_sub.
Theorem C07_nautilus_sub : forall (pt : Type) shift outer neurals (p : pt), nautilus_contains pt shift outer neurals p = true -> outer (shift p) = true.
Proof. exact: nautilus_sub. Qed.
Print Assumptions C07_nautilus_sub.
Theorem C07_nautilus_sample : forall (pt : Type) shift unshift outer neurals outer_samples,
  (forall q : pt, List.In q outer_samples -> outer q = true) -> (forall q, List.In q outer_samples -> shift (unshift q) = q) ->
  forall p, List.In p (nautilus_batch pt unshift outer_samples neurals) -> nautilus_contains pt shift outer neurals p = true.
Proof. exact: nautilus_batch_sound. Qed.
Print Assumptions C07_nautilus_sample.

(* any sequence of splits and trims keeps every remaining construction point inside one of the ellipsoids, provided each
   half of a successful split is enclosed by the ellipsoid built from it (which C07_mvee_enclose provides) *)
Theorem C07_split_keeps : forall n_min covers allow ats u u' r,
  halves_covered covers u ats -> Covered covers u -> split_go n_min allow ats u = Some (u', r) -> Covered covers u'.
Proof. exact: split_go_covered. Qed.
Print Assumptions C07_split_keeps.
Theorem C07_trim_keeps : forall covers d u u' r, Covered covers u -> trim d u = Some (u', r) -> Covered covers u'.
Proof. exact: trim_covered. Qed.
Print Assumptions C07_trim_keeps.
Theorem C07_covered_contained : forall covers u, Covered covers u -> forall p, List.In p (List.concat (pbs u)) -> exists b, List.In b (bs u) /\ covers b p = true.
Proof. exact: covered_in_union. Qed.
Print Assumptions C07_covered_contained.
