(* The sampler-file reader composed with the reader of the bound groups. *)
From Coq Require Import List Arith.
Import ListNotations.
Require Import NV.Codec NV.Codec2 NV.Codec2Proofs NV.SamplerCodec NV.SamplerCodecProofs NV.BoundList.

Lemma resume_chain any_cube all_cube alen tnat nlayers s dflt l :
  wf_file s -> 0 < length (sf_points s) -> sf_bounds s = map w_sbound l -> Forall (wf_sbound any_cube all_cube alen tnat nlayers) l ->
  exists s', read_file (sf_static s) (length (sf_points s)) dflt (write_file s) = Some s' /\ s' = s /\
             r_bounds any_cube all_cube alen tnat nlayers (sf_bounds s') = Some (map persisted_sbound l).
Proof.
  intros W Hp Hb Hl. exists s. split; [exact (read_write s dflt W Hp)|]. split; [reflexivity|].
  rewrite Hb. exact (r_w_bounds any_cube all_cube alen tnat nlayers l Hl).
Qed.
