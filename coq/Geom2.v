From mathcomp Require Import all_ssreflect all_algebra.
Set Implicit Arguments. Unset Strict Implicit. Unset Printing Implicit Defensive.
Import Order.TTheory GRing.Theory Num.Theory.
Local Open Scope ring_scope.
Section Ell.
Variable (F : realFieldType) (d : nat).
Implicit Types (x c y u : 'cV[F]_d) (B A : 'M[F]_d).
Definition nrm2 y : F := (y^T *m y) 0 0.

(* contains() evaluates |B^-1 (x-c)|^2 with B the Cholesky factor of A^-1 (A_inv = B B^T).
   This is the quadratic form of A: the matrix that defines the ellipsoid. *)
Theorem C07_chol_frame B Ainv y :
  B \in unitmx -> Ainv = B *m B^T -> nrm2 (invmx B *m y) = (y^T *m invmx Ainv *m y) 0 0.
Proof.
move=> Bu ->; rewrite /nrm2 trmx_mul.
have BBu : B *m B^T \in unitmx by rewrite unitmx_mul unitmx_tr Bu.
have E : (invmx B)^T *m invmx B = invmx (B *m B^T).
  rewrite -[LHS](mulKmx BBu) -!mulmxA (mulmxA B^T) -trmx_mul (mulVmx Bu) trmx1 mul1mx.
  by rewrite (mulmxV Bu) mulmx1.
by rewrite -E !mulmxA.
Qed.

(* volume side: det(A_inv) = det(B)^2 *)
Theorem C08_det B Ainv : Ainv = B *m B^T -> \det Ainv = (\det B) ^+ 2.
Proof. by move=> ->; rewrite det_mulmx det_tr expr2. Qed.
End Ell.

Section Mvee.
Variable F : realFieldType.
(* MVEE post-processing: q_i = (p_i-c)^T A (p_i-c) for the construction points, scale = max q_i,
   A := A / scale / e^2.  Every construction point then has quadratic form q_i/(scale e^2) <= 1/e^2 < 1. *)
Theorem C07_mvee_enclose (qs : seq F) (scale e q : F) :
  0 < scale -> (forall x, x \in qs -> x <= scale) -> 1 < e -> q \in qs -> 0 <= q -> q / (scale * e ^+ 2) < 1.
Proof.
move=> s0 Hmax e1 qin q0.
have e2 : 1 < e ^+ 2 by rewrite expr_gt1 // ltW // (lt_trans ltr01).
have se0 : 0 < scale * e ^+ 2 by rewrite mulr_gt0 // (lt_trans ltr01).
rewrite ltr_pdivr_mulr // mul1r.
apply: (le_lt_trans (Hmax _ qin)).
by rewrite ltr_pmulr.
Qed.
End Mvee.
