(* C10: a run() call made after exploration stores exactly one sample per likelihood call. *)
From Coq Require Import List Arith Bool Lia PeanoNat.
Import ListNotations.
Require Import NV.Base NV.Shell2 NV.Shell2Inv NV.Shell2Support NV.Shell2Run NV.Shell2Loop NV.Shell2LoopProofs.

Section SL.
Variable contains : bid -> pid -> bool.
Variable in_cube : pid -> bool.
Variable lik blob : pid -> vid.
Variable n_batch : nat.
Notation run := (Shell2.run contains in_cube lik blob n_batch).
Notation run_loop := (Shell2Loop.run_loop contains in_cube lik blob n_batch).

Theorem loop_stored c : forall its ft fn s s' ret, explored s = true -> run_loop c its ft fn s = Some (s', ret) ->
  explored s' = true /\ length (all_pts s') = length (all_pts s) + n_batch * length its /\ t_pts s' = t_pts s.
Proof.
  induction its as [|it r IH]; simpl; intros ft fn s s' ret Hx E.
  - destruct (guard c s ft fn); inversion E; subst; repeat split; auto; lia.
  - destruct (negb (guard c s (i_timeout it) (i_neff it))); [discriminate|].
    destruct (negb (iter_shape c s (i_events it))) eqn:Hs; [discriminate|]. apply negb_false_iff in Hs.
    destruct (run s (i_events it)) as [m|] eqn:Er; [|discriminate].
    destruct (run_lockstep contains in_cube lik blob n_batch _ _ _ Hx Er) as (Hxm & L & T).
    pose proof (shape_one_batch contains in_cube lik blob n_batch _ _ _ _ Hs Er) as B.
    destruct (IH _ _ _ _ _ Hxm E) as (Hx' & A & T'). repeat split; auto; [lia|congruence].
Qed.
End SL.
