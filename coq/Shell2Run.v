From Coq Require Import List Arith Bool Lia PeanoNat.
Import ListNotations.
Require Import NV.Base NV.Shell2 NV.Shell2Inv.

Section Run.
Variable contains : bid -> pid -> bool.
Variable in_cube : pid -> bool.
Variable lik blob : pid -> vid.
Variable n_batch : nat.
Notation step := (step contains in_cube lik blob n_batch).
Notation run := (run contains in_cube lik blob n_batch).

Definition is_batch (e : event) : bool := match e with EvAddSamples _ _ _ => true | _ => false end.

Lemma step_nlike s e s' : step s e = Some s' ->
  n_like s' = n_like s + (if is_batch e then n_batch else 0).
Proof.
  destruct e as [b| |idx rounds vals|d|d]; intros E.
  - simpl in *. unfold add_bound in E. destruct (explored s); [discriminate|]. destruct (existsb _ _); [discriminate|].
    destruct (shells s); [inversion E; subst; simpl; lia|].
    destruct (ab_go _ _ _ _) as [shs' [[[ps ls] bs] fs]]. inversion E; subst; simpl; lia.
  - simpl in *. destruct (explored s); inversion E; subst; simpl; lia.
  - destruct (C10_batch _ _ _ _ _ _ _ _ _ _ E) as [H _]. simpl. exact H.
  - simpl in *. unfold end_exploration in E. destruct (explored s); inversion E; subst; simpl; lia.
  - simpl in *. inversion E; subst; simpl; lia.
Qed.

(* one iteration of the while loop of run(): optional bound insertion, exactly one batch, optional end of exploration *)
Record iteration := mkIt { it_pre : list event; it_batch : event; it_post : list event }.
Definition it_wf (it : iteration) : bool :=
  forallb (fun e => negb (is_batch e)) (it_pre it) && is_batch (it_batch it) && forallb (fun e => negb (is_batch e)) (it_post it).
Definition it_events (it : iteration) : list event := it_pre it ++ [it_batch it] ++ it_post it.

(* the loop: the guard is evaluated before every iteration; `stop` is the oracle for (timeout or success) *)
Fixpoint run_call (lim : nat) (its : list (iteration * bool)) (s : st) : option st :=
  match its with
  | [] => Some s
  | (it, stop_before) :: r =>
    if stop_before then None else                      (* an iteration ran although the loop should have stopped *)
    if negb (Nat.ltb (n_like s) lim) then None else     (* budget guard *)
    if negb (it_wf it) then None else
    match run s (it_events it) with Some s' => run_call lim r s' | None => None end
  end.

Lemma run_nlike : forall evs s s', run s evs = Some s' -> Forall (fun e => is_batch e = false) evs -> n_like s' = n_like s.
Proof.
  induction evs as [|e evs IH]; simpl; intros s s' E HF; [inversion E; auto|].
  destruct (step s e) eqn:Es; [|discriminate]. inversion HF; subst. rewrite (IH _ _ E H2), (step_nlike _ _ _ Es), H1. lia.
Qed.
Lemma run_app : forall a b s s', run s (a ++ b) = Some s' -> exists m, run s a = Some m /\ run m b = Some s'.
Proof.
  induction a as [|e a IH]; simpl; intros b s s' E; [eauto|]. destruct (step s e); [|discriminate]. eauto.
Qed.

Lemma iteration_nlike it s s' : it_wf it = true -> run s (it_events it) = Some s' -> n_like s' = n_like s + n_batch.
Proof.
  unfold it_wf, it_events. intros W E. apply andb_true_iff in W. destruct W as [W W3]. apply andb_true_iff in W. destruct W as [W1 W2].
  apply run_app in E. destruct E as (m1 & E1 & E2). apply run_app in E2. destruct E2 as (m2 & E2 & E3).
  assert (F : forall l, forallb (fun e => negb (is_batch e)) l = true -> Forall (fun e => is_batch e = false) l).
  { intros l H. apply Forall_forall. intros e He. rewrite forallb_forall in H. specialize (H e He). now apply negb_true_iff in H. }
  rewrite (run_nlike _ _ _ E3 (F _ W3)). simpl in E2. destruct (step m1 (it_batch it)) eqn:Es; [|discriminate]. inversion E2; subst.
  rewrite (step_nlike _ _ _ Es), W2, (run_nlike _ _ _ E1 (F _ W1)). reflexivity.
Qed.

(* C10: run() never starts a batch at or above the limit, so it overshoots by less than one batch;
   with the limit already reached it does nothing *)
Theorem C10_budget lim : forall its s s', run_call lim its s = Some s' ->
  (n_like s < lim -> n_like s' < lim + n_batch) /\ (lim <= n_like s -> its = [] /\ s' = s).
Proof.
  induction its as [|[it stop] r IH]; simpl; intros s s' E.
  - inversion E; subst. split; [lia|auto].
  - destruct stop; [discriminate|]. destruct (negb (Nat.ltb (n_like s) lim)) eqn:G; [discriminate|].
    apply negb_false_iff, Nat.ltb_lt in G. destruct (negb (it_wf it)) eqn:W; [discriminate|]. apply negb_false_iff in W.
    destruct (run s (it_events it)) as [m|] eqn:Er; [|discriminate].
    pose proof (iteration_nlike _ _ _ W Er) as Hn. destruct (IH _ _ E) as [I1 I2]. split; [|lia].
    intros _. destruct (Nat.lt_ge_cases (n_like m) lim) as [Hlt|Hge]; [auto|]. destruct (I2 Hge) as [_ ->]. lia.
Qed.
Theorem C10_count lim : forall its s s', run_call lim its s = Some s' -> n_like s' = n_like s + n_batch * length its.
Proof.
  induction its as [|[it stop] r IH]; simpl; intros s s' E; [inversion E; lia|].
  destruct stop; [discriminate|]. destruct (negb (Nat.ltb (n_like s) lim)); [discriminate|].
  destruct (negb (it_wf it)) eqn:W; [discriminate|]. apply negb_false_iff in W.
  destruct (run s (it_events it)) as [m|] eqn:Er; [|discriminate].
  rewrite (IH _ _ E), (iteration_nlike _ _ _ W Er). lia.
Qed.
End Run.
