From Coq Require Import List Arith Bool Lia.
Import ListNotations.

(* Model of the file-system protocol of Sampler.write / write_shell_update (sampler.py 1245-1377) as seen through
   system calls; definitions only, proofs in CrashProofs.v.
   Two paths matter: the checkpoint P and its temporary T.  Content is an abstract token list:
   what has been written since creation / truncation / copy. *)
Inductive path := P | T.
Definition path_eqb a b := match a, b with P, P | T, T => true | _, _ => false end.
Definition tok := nat.
Definition content := list tok.

Inductive op :=
| Creat (p : path)            (* open O_CREAT|O_TRUNC *)
| CreatExcl (p : path)        (* open O_CREAT|O_EXCL: fails if present *)
| OpenRW (p : path)           (* open existing for update *)
| Write (p : path) (t : tok)  (* pwrite on an open file *)
| Close (p : path)
| Unlink (p : path)
| Rename (a b : path)
| CopyPT.                      (* copy P's bytes into T (T open/closed by the copy itself) *)

Record fs := mkFs { fP : option content; fT : option content; openP : bool; openT : bool }.
Definition get (f : fs) (p : path) := match p with P => fP f | T => fT f end.
Definition set (f : fs) (p : path) (c : option content) := match p with P => mkFs c (fT f) (openP f) (openT f) | T => mkFs (fP f) c (openP f) (openT f) end.
Definition isopen (f : fs) (p : path) := match p with P => openP f | T => openT f end.
Definition setopen (f : fs) (p : path) (b : bool) := match p with P => mkFs (fP f) (fT f) b (openT f) | T => mkFs (fP f) (fT f) (openP f) b end.

(* semantic step; None = the system call fails (the process would raise) *)
Definition exec (f : fs) (o : op) : option fs :=
  match o with
  | Creat p => Some (setopen (set f p (Some [])) p true)
  | CreatExcl p => match get f p with Some _ => None | None => Some (setopen (set f p (Some [])) p true) end
  | OpenRW p => match get f p with Some _ => Some (setopen f p true) | None => None end
  | Write p t => if isopen f p then match get f p with Some c => Some (set f p (Some (c ++ [t]))) | None => None end else None
  | Close p => Some (setopen f p false)
  | Unlink p => match get f p with Some _ => Some (set f p None) | None => None end
  | Rename a b => match get f a with Some c => Some (set (set f b (Some c)) a None) | None => None end
  | CopyPT => match fP f with Some c => Some (set f T (Some c)) | None => None end
  end.

Fixpoint run (f : fs) (tr : list op) : option fs :=
  match tr with [] => Some f | o :: r => match exec f o with Some f' => run f' r | None => None end end.

(* ---- the recogniser: P is only ever touched by Rename T P (and read by CopyPT), with T closed ---- *)
Definition touches_P_badly (o : op) : bool :=
  match o with
  | Creat P | CreatExcl P | OpenRW P | Write P _ | Unlink P | Rename P _ | Close P => true
  | _ => false
  end.
Fixpoint atomic_go (topen : bool) (tr : list op) : bool :=
  match tr with
  | [] => true
  | o :: r =>
    if touches_P_badly o then false else
    match o with
    | Creat T | OpenRW T => atomic_go true r
    | CreatExcl T => false                        (* a leftover T after a crash would make the next run fail *)
    | Close T => atomic_go false r
    | Rename T P => if topen then false else atomic_go false r
    | Rename T T => false
    | _ => atomic_go topen r
    end
  end.
Definition atomic_trace (tr : list op) : bool := atomic_go false tr.

(* values P takes right after each Rename T P along a run *)
Fixpoint completed (f : fs) (tr : list op) : list content :=
  match tr with
  | [] => []
  | o :: r => match exec f o with
              | None => []
              | Some f' => match o, fP f' with Rename T P, Some c => c :: completed f' r | _, _ => completed f' r end
              end
  end.

