From Coq Require Import List Arith Bool Lia.
Import ListNotations.

(* Two paths matter: the checkpoint P and its temporary T.  Content is an abstract token list:
   what has been written since creation / truncation / copy. *)
Inductive path := P | T.
Definition path_eqb a b := match a, b with P, P | T, T => true | _, _ => false end.
Definition tok := nat.
Definition content := list tok.

Inductive op :=
| Creat (p : path)            (* open O_CREAT|O_TRUNC *)
| CreatExcl (p : path)        (* open O_CREAT|O_EXCL: fails if present *)
| OpenRW (p : path)           (* open existing for update *)
| Write (p : path) (t : tok)  (* pwrite on an open file *)
| Close (p : path)
| Unlink (p : path)
| Rename (a b : path)
| CopyPT.                      (* copy P's bytes into T (T open/closed by the copy itself) *)

Record fs := mkFs { fP : option content; fT : option content; openP : bool; openT : bool }.
Definition get (f : fs) (p : path) := match p with P => fP f | T => fT f end.
Definition set (f : fs) (p : path) (c : option content) := match p with P => mkFs c (fT f) (openP f) (openT f) | T => mkFs (fP f) c (openP f) (openT f) end.
Definition isopen (f : fs) (p : path) := match p with P => openP f | T => openT f end.
Definition setopen (f : fs) (p : path) (b : bool) := match p with P => mkFs (fP f) (fT f) b (openT f) | T => mkFs (fP f) (fT f) (openP f) b end.

(* semantic step; None = the system call fails (the process would raise) *)
Definition exec (f : fs) (o : op) : option fs :=
  match o with
  | Creat p => Some (setopen (set f p (Some [])) p true)
  | CreatExcl p => match get f p with Some _ => None | None => Some (setopen (set f p (Some [])) p true) end
  | OpenRW p => match get f p with Some _ => Some (setopen f p true) | None => None end
  | Write p t => if isopen f p then match get f p with Some c => Some (set f p (Some (c ++ [t]))) | None => None end else None
  | Close p => Some (setopen f p false)
  | Unlink p => match get f p with Some _ => Some (set f p None) | None => None end
  | Rename a b => match get f a with Some c => Some (set (set f b (Some c)) a None) | None => None end
  | CopyPT => match fP f with Some c => Some (set f T (Some c)) | None => None end
  end.

Fixpoint run (f : fs) (tr : list op) : option fs :=
  match tr with [] => Some f | o :: r => match exec f o with Some f' => run f' r | None => None end end.

(* ---- the recogniser: P is only ever touched by Rename T P (and read by CopyPT), with T closed ---- *)
Definition touches_P_badly (o : op) : bool :=
  match o with
  | Creat P | CreatExcl P | OpenRW P | Write P _ | Unlink P | Rename P _ | Close P => true
  | _ => false
  end.
Fixpoint atomic_go (topen : bool) (tr : list op) : bool :=
  match tr with
  | [] => true
  | o :: r =>
    if touches_P_badly o then false else
    match o with
    | Creat T | OpenRW T => atomic_go true r
    | CreatExcl T => false                        (* a leftover T after a crash would make the next run fail *)
    | Close T => atomic_go false r
    | Rename T P => if topen then false else atomic_go false r
    | Rename T T => false
    | _ => atomic_go topen r
    end
  end.
Definition atomic_trace (tr : list op) : bool := atomic_go false tr.

(* values P takes right after each Rename T P along a run *)
Fixpoint completed (f : fs) (tr : list op) : list content :=
  match tr with
  | [] => []
  | o :: r => match exec f o with
              | None => []
              | Some f' => match o, fP f' with Rename T P, Some c => c :: completed f' r | _, _ => completed f' r end
              end
  end.

Lemma exec_P_unchanged f o f' : touches_P_badly o = false -> (forall x, o <> Rename T x \/ x <> P) ->
  exec f o = Some f' -> fP f' = fP f.
Proof.
  intros Hb Hr E. destruct o as [p|p|p|p t|p|p|a b|]; try destruct p; try destruct a; try destruct b; simpl in *; try discriminate;
    repeat match type of E with
    | (match ?x with _ => _ end) = _ => destruct x eqn:?; try discriminate
    | (if ?x then _ else _) = _ => destruct x eqn:?; try discriminate
    end; inversion E; subst; simpl; auto.
  destruct (Hr P) as [H|H]; congruence.
Qed.

Lemma completed_cons f o r f1 : exec f o = Some f1 ->
  completed f (o :: r) = match o, fP f1 with Rename T P, Some c => c :: completed f1 r | _, _ => completed f1 r end.
Proof. intros E. cbn [completed]. rewrite E. reflexivity. Qed.

(* crash = any prefix.  Under an atomic trace, whatever prefix survives, P holds its initial content or one of the completed ones *)
Theorem C06_atomic : forall tr topen f k f',
  atomic_go topen tr = true -> run f (firstn k tr) = Some f' ->
  fP f' = fP f \/ exists c, fP f' = Some c /\ In c (completed f tr).
Proof.
  induction tr as [|o r IH]; intros topen f k f' Ha Hr.
  - rewrite firstn_nil in Hr. inversion Hr; subst. now left.
  - destruct k as [|k]; [inversion Hr; subst; now left|].
    simpl in Hr. destruct (exec f o) as [f1|] eqn:E; [|discriminate].
    simpl in Ha. destruct (touches_P_badly o) eqn:Hb; [discriminate|].
    assert (Hcase : (exists b, o = Rename T P /\ atomic_go b r = true) \/
                    ((forall x, o <> Rename T x \/ x <> P) /\ exists b, atomic_go b r = true)).
    { destruct o as [p|p|p|p t|p|p|a b|]; try destruct p; try destruct a; try destruct b; simpl in *; try discriminate;
        try (right; split; [intros x; left; discriminate|eexists; eassumption]).
      left. destruct topen; [discriminate|]. eexists; split; eauto. }
    rewrite (completed_cons _ _ r _ E).
    destruct Hcase as [(b & -> & Hb')|(Hn & b & Hb')].
    + destruct (fP f1) as [c1|] eqn:E1.
      * destruct (IH _ _ _ _ Hb' Hr) as [H|(c & H1 & H2)].
        -- right. exists c1. split; [congruence|now left].
        -- right. exists c. split; auto. now right.
      * exfalso. cbn in E. destruct (fT f); [inversion E; subst; discriminate|discriminate].
    + pose proof (exec_P_unchanged _ _ _ Hb Hn E) as HP.
      assert (Hsame : match o, fP f1 with Rename T P, Some c => c :: completed f1 r | _, _ => completed f1 r end = completed f1 r).
      { destruct o as [p|p|p|p t|p|p|a b0|]; auto. destruct a, b0; auto. destruct (Hn P) as [H|H]; congruence. }
      rewrite Hsame.
      destruct (IH _ _ _ _ Hb' Hr) as [H|(c & H1 & H2)].
      * left. congruence.
      * right. exists c. split; auto.
Qed.

(* the protocol of the unchanged code is not atomic: after unlink the checkpoint is gone *)
Example C06_inplace_refuted : exists tr k f', 
  run (mkFs (Some [1]) None false false) (firstn k tr) = Some f' /\ fP f' = None /\
  tr = [Unlink P; CreatExcl P; Write P 2; Close P].
Proof. exists [Unlink P; CreatExcl P; Write P 2; Close P], 1, (mkFs None None false false). repeat split. Qed.
Example C06_update_refuted : exists tr k f',
  run (mkFs (Some [1]) None false false) (firstn k tr) = Some f' /\ fP f' = Some [1; 2] /\
  tr = [OpenRW P; Write P 2; Write P 3; Close P].      (* neither the old [1] nor the new [1;2;3] *)
Proof. exists [OpenRW P; Write P 2; Write P 3; Close P], 2, (mkFs (Some [1; 2]) None true false). repeat split. Qed.
