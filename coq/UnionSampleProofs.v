From Coq Require Import List Arith QArith Bool Lia.
Import ListNotations.
Require Import NV.UnionSample.
Local Open Scope nat_scope.

Definition counters_ok (s : sstate) : Prop := s_nreject s <= s_nsample s.

Lemma filter_length_le {A} (f : A -> bool) l : length (filter f l) <= length l.
Proof. induction l; simpl; [lia|]. destruct (f a); simpl; lia. Qed.

Lemma batch_spec n props s : counters_ok s ->
  counters_ok (batch n props s) /\
  s_nsample (batch n props s) = s_nsample s + n /\
  (length props <= n -> s_nsample (batch n props s) - s_nreject (batch n props s) = (s_nsample s - s_nreject s) + length (filter accepted props)) /\
  exists acc, s_cache (batch n props s) = s_cache s ++ acc /\ (forall x, In x acc -> exists p, In p props /\ pr_id p = x /\ accepted p = true).
Proof.
  unfold counters_ok, batch; simpl. intros H. rewrite map_length.
  pose proof (filter_length_le accepted props) as Hl. repeat split; try lia.
  exists (map pr_id (filter accepted props)). split; auto. intros x Hx. apply in_map_iff in Hx. destruct Hx as (p & <- & Hp).
  apply filter_In in Hp. destruct Hp. eauto.
Qed.

(* an accepted proposal lies in at least one member; a proposal in exactly one member is accepted whenever u > 0 *)
Lemma accepted_mult p : accepted p = true -> 1 <= pr_mult p.
Proof. unfold accepted. destruct (pr_mult p); [discriminate|lia]. Qed.
Lemma accepted_single p : pr_mult p = 1 -> (0 < pr_u p)%Q -> accepted p = true.
Proof.
  intros Hm Hu. unfold accepted. rewrite Hm. simpl. destruct (Qlt_le_dec (1 - 1 / inject_Z 1) (pr_u p)) as [H|H]; auto.
  exfalso. change (inject_Z 1) with 1%Q in H. assert (E : (1 - 1 / 1 == 0)%Q) by field. rewrite E in H.
  apply (Qlt_irrefl (pr_u p)). apply Qle_lt_trans with 0%Q; auto.
Qed.

Lemma sample_go_spec n_points : forall batches s s', counters_ok s -> sample_go n_points batches s = Some s' ->
  counters_ok s' /\ n_points <= length (s_cache s') /\ s_nsample s' = s_nsample s + fold_right (fun b a => fst b + a) 0 batches /\
  exists acc, s_cache s' = s_cache s ++ acc.
Proof.
  induction batches as [|[n props] r IH]; simpl; intros s s' Hc E.
  - destruct (Nat.ltb_spec (length (s_cache s)) n_points); [discriminate|]. inversion E; subst.
    repeat split; auto; try lia. exists []. now rewrite app_nil_r.
  - destruct (Nat.ltb (length (s_cache s)) n_points); [|discriminate].
    destruct (batch_spec n props s Hc) as (C1 & C2 & _ & acc1 & C4 & _).
    destruct (IH _ _ C1 E) as (I1 & I2 & I3 & acc2 & I4). repeat split; auto.
    + rewrite I3, C2. lia.
    + exists (acc1 ++ acc2). rewrite I4, C4, app_assoc. reflexivity.
Qed.

(* sample(n) hands out exactly n points, the oldest first, and keeps the rest; counters only grow *)
Theorem sample_spec n_points batches s out s' : counters_ok s -> sample n_points batches s = Some (out, s') ->
  length out = n_points /\ counters_ok s' /\ s_nsample s <= s_nsample s' /\
  exists acc, out ++ s_cache s' = s_cache s ++ acc.
Proof.
  unfold sample. intros Hc. destruct (sample_go n_points batches s) as [s1|] eqn:E; [|discriminate].
  intros H; inversion H; subst; clear H. destruct (sample_go_spec _ _ _ _ Hc E) as (I1 & I2 & I3 & acc & I4).
  repeat split; simpl; auto.
  - rewrite firstn_length. lia.
  - lia.
  - exists acc. rewrite firstn_skipn. exact I4.
Qed.

(* pooled sampling: counters of the workers add up *)
Theorem merge_spec workers : forall s, counters_ok s -> Forall counters_ok workers ->
  counters_ok (merge s workers) /\
  s_nsample (merge s workers) = s_nsample s + fold_right (fun w a => s_nsample w + a) 0 workers /\
  s_nreject (merge s workers) = s_nreject s + fold_right (fun w a => s_nreject w + a) 0 workers.
Proof.
  induction workers as [|w ws IH]; simpl; intros s Hs HF; [repeat split; auto; lia|].
  inversion HF; subst. unfold merge in *. simpl.
  destruct (IH (mkSS (s_cache s ++ s_cache w) (s_nsample s + s_nsample w) (s_nreject s + s_nreject w))) as (A & B & C); auto.
  - unfold counters_ok in *; simpl; lia.
  - repeat split; auto; simpl in *; lia.
Qed.
