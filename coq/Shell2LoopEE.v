(* run() loop, refinement with the stopping rule of the exploration phase: after every exploration batch the loop evaluates
   `self.f_live <= f_live` (sampler.py 452); the verdict is an oracle bit of the iteration (floating point), and the
   model CHECKS that exploration ends in exactly the iterations whose bit is set.  Everything proved about run_loop
   carries over because a history accepted here is accepted by run_loop. *)
From Coq Require Import List Arith Bool Lia.
Import ListNotations.
Require Import NV.Base NV.Shell2 NV.Shell2Inv NV.Shell2Thm NV.Shell2Loop.

Section LoopEE.
Variable contains : bid -> pid -> bool.
Variable in_cube : pid -> bool.
Variable lik blob : pid -> vid.
Variable n_batch : nat.
Notation step := (step contains in_cube lik blob n_batch).
Notation run := (run contains in_cube lik blob n_batch).
Notation run_loop := (run_loop contains in_cube lik blob n_batch).

Definition is_ee (e : event) : bool := match e with EvEndExploration _ => true | _ => false end.
Definition ee_ok (fl : bool) (s : st) (evs : list event) : bool :=
  if explored s then true else Bool.eqb (existsb is_ee evs) fl.

Fixpoint run_loop_fl (c : runcfg) (its : list (iter * bool)) (ft fn : bool) (s : st) : option (st * bool) :=
  match its with
  | [] => if guard c s ft fn then None else Some (s, success c s fn)
  | (it, fl) :: r =>
    if negb (guard c s (i_timeout it) (i_neff it)) then None
    else if negb (iter_shape c s (i_events it)) then None
    else if negb (ee_ok fl s (i_events it)) then None
    else match run s (i_events it) with Some s' => run_loop_fl c r ft fn s' | None => None end
  end.
Definition run_call_fl (c : runcfg) (first : list event) (its : list (iter * bool)) (ft fn : bool) (s : st) : option (st * bool) :=
  match shells s, first with
  | [], [EvAddBoundOk b] => match step s (EvAddBoundOk b) with Some s1 => run_loop_fl c its ft fn s1 | None => None end
  | _ :: _, [] => run_loop_fl c its ft fn s
  | _, _ => None
  end.

Theorem loop_fl_refines c : forall its ft fn s r, run_loop_fl c its ft fn s = Some r -> run_loop c (map fst its) ft fn s = Some r.
Proof.
  induction its as [|[it fl] rest IH]; cbn [run_loop_fl map fst Shell2Loop.run_loop]; intros ft fn s r E; [exact E|].
  destruct (negb (guard c s (i_timeout it) (i_neff it))); [discriminate|].
  destruct (negb (iter_shape c s (i_events it))); [discriminate|].
  destruct (negb (ee_ok fl s (i_events it))); [discriminate|].
  destruct (run s (i_events it)) as [m|]; [|discriminate]. now apply IH.
Qed.
Theorem call_fl_refines c first its ft fn s r : run_call_fl c first its ft fn s = Some r ->
  Shell2Loop.run_call contains in_cube lik blob n_batch c first (map fst its) ft fn s = Some r.
Proof.
  unfold run_call_fl, Shell2Loop.run_call. destruct (shells s), first as [|[b| | | |] [|e2 t]]; try discriminate.
  - destruct (step s (EvAddBoundOk b)); [apply loop_fl_refines|discriminate].
  - apply loop_fl_refines.
Qed.

(* only the end-of-exploration event changes the phase flag *)
Lemma step_explored_same s e s' : step s e = Some s' -> is_ee e = false -> explored s' = explored s.
Proof.
  destruct e as [b| |idx rounds vals|d|d]; cbn [Shell2.step is_ee]; intros E H; try discriminate.
  - unfold add_bound in E. destruct (explored s) eqn:Hx; [discriminate|].
    destruct (existsb _ _); [discriminate|]. destruct (shells s); [inversion E; reflexivity|].
    destruct (ab_go contains b 0 (s0 :: l)) as [shs' [[[ps ls] bs] fs]]. inversion E; reflexivity.
  - destruct (explored s) eqn:Hx; [discriminate|]. inversion E; subst. exact Hx.
  - destruct (batch_frame_abs contains in_cube lik blob n_batch s idx rounds vals s' E) as (i & _ & _ & _ & _ & Hx & _). exact Hx.
  - unfold set_discard in E. now inversion E.
Qed.
Lemma step_ee_sets s d s' : step s (EvEndExploration d) = Some s' -> explored s' = true.
Proof. cbn [Shell2.step]. unfold end_exploration. destruct (explored s); [discriminate|]. intros E; now inversion E. Qed.

(* the phase flag after an iteration that started in exploration: set iff the iteration contains the event *)
Lemma run_explored_ee : forall evs s s', run s evs = Some s' -> explored s = false -> explored s' = existsb is_ee evs.
Proof.
  induction evs as [|e evs IH]; cbn [Shell2.run existsb]; intros s s' E Hx; [inversion E; subst; exact Hx|].
  destruct (step s e) as [m|] eqn:Es; [|discriminate].
  destruct (is_ee e) eqn:Ee; cbn [orb].
  - destruct e; try discriminate. pose proof (step_ee_sets _ _ _ Es) as Hm.
    destruct (explored_forever contains in_cube lik blob n_batch evs m s' Hm E) as (H & _). exact H.
  - apply (IH m); [exact E|]. rewrite (step_explored_same _ _ _ Es Ee). exact Hx.
Qed.

(* in an accepted history, an iteration that starts in the exploration phase ends it exactly when its bit is set *)
Theorem loop_fl_ee c it fl rest ft fn s r : run_loop_fl c ((it, fl) :: rest) ft fn s = Some r -> explored s = false ->
  exists s1, run s (i_events it) = Some s1 /\ explored s1 = fl /\ run_loop_fl c rest ft fn s1 = Some r.
Proof.
  cbn [run_loop_fl]. intros E Hx.
  destruct (negb (guard c s (i_timeout it) (i_neff it))); [discriminate|].
  destruct (negb (iter_shape c s (i_events it))); [discriminate|].
  destruct (negb (ee_ok fl s (i_events it))) eqn:Ek; [discriminate|]. apply negb_false_iff in Ek.
  destruct (run s (i_events it)) as [s1|] eqn:Er; [|discriminate]. exists s1. split; [reflexivity|]. split; [|exact E].
  unfold ee_ok in Ek. rewrite Hx in Ek. apply eqb_prop in Ek. rewrite (run_explored_ee _ _ _ Er Hx). exact Ek.
Qed.
End LoopEE.
