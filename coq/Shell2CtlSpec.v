(* The threshold functions of the control layer meet their order-statistic specifications:
   kth_largest k l is an element with at least k values at or above it and fewer than k strictly above (= sorted(l)[-k]);
   min_above r l is the smallest value strictly above rank r. *)
From Coq Require Import List Arith ZArith Bool Lia Permutation Sorted.
Import ListNotations.
Require Import NV.Base NV.Shell2 NV.Shell2Ctl.

Section Spec.
Variable vrank : vid -> Z.
Notation count_ge := (count_ge vrank).
Notation count_gt := (count_gt vrank).
Notation kth_largest := (kth_largest vrank).
Notation min_above := (min_above vrank).

Lemma count_ge_le_length r l : count_ge r l <= length l.
Proof. unfold Shell2Ctl.count_ge. induction l as [|x l IH]; simpl; [lia|]. destruct (Z.leb r (vrank x)); simpl; lia. Qed.
Lemma count_ge_mono r r' l : (r <= r')%Z -> count_ge r' l <= count_ge r l.
Proof.
  intros H. unfold Shell2Ctl.count_ge. induction l as [|x l IH]; simpl; [lia|].
  destruct (Z.leb_spec r' (vrank x)), (Z.leb_spec r (vrank x)); simpl; lia.
Qed.

(* ---- min_above ---- *)
Definition MinAbove (r : Z) (l : list vid) (o : option vid) : Prop :=
  match o with
  | Some w => In w l /\ (r < vrank w)%Z /\ forall x, In x l -> (r < vrank x)%Z -> (vrank w <= vrank x)%Z
  | None => forall x, In x l -> (vrank x <= r)%Z
  end.
Lemma min_above_gen r : forall l pre best, MinAbove r pre best -> MinAbove r (pre ++ l) (fold_left (fun best v => if Z.ltb r (vrank v)
     then match best with Some b => if Z.ltb (vrank v) (vrank b) then Some v else best | None => Some v end else best) l best).
Proof.
  induction l as [|x l IH]; intros pre best H; cbn [fold_left]; [now rewrite app_nil_r|].
  replace (pre ++ x :: l) with ((pre ++ [x]) ++ l) by (now rewrite <- app_assoc). apply IH.
  destruct (Z.ltb_spec r (vrank x)) as [Hx|Hx].
  - destruct best as [b|]; cbn [MinAbove] in *.
    + destruct H as (Hin & Hr & Hmin). destruct (Z.ltb_spec (vrank x) (vrank b)) as [Hlt|Hge].
      * split; [apply in_or_app; right; now left|]. split; [exact Hx|]. intros y Hy Hry. apply in_app_or in Hy. destruct Hy as [Hy|[->|[]]]; [|lia].
        specialize (Hmin y Hy Hry). lia.
      * split; [apply in_or_app; now left|]. split; [exact Hr|]. intros y Hy Hry. apply in_app_or in Hy. destruct Hy as [Hy|[->|[]]]; [auto|lia].
    + split; [apply in_or_app; right; now left|]. split; [exact Hx|]. intros y Hy Hry. apply in_app_or in Hy. destruct Hy as [Hy|[->|[]]]; [|lia].
      specialize (H y Hy). lia.
  - destruct best as [b|]; cbn [MinAbove] in *.
    + destruct H as (Hin & Hr & Hmin). split; [apply in_or_app; now left|]. split; [exact Hr|].
      intros y Hy Hry. apply in_app_or in Hy. destruct Hy as [Hy|[->|[]]]; [auto|lia].
    + intros y Hy. apply in_app_or in Hy. destruct Hy as [Hy|[->|[]]]; [auto|lia].
Qed.
Theorem min_above_spec r l : MinAbove r l (min_above r l).
Proof. unfold Shell2Ctl.min_above. apply (min_above_gen r l [] None). intros x []. Qed.

(* ---- kth_largest ---- *)
Definition Kth (k : nat) (l : list vid) (v : vid) : Prop :=
  In v l /\ k <= count_ge (vrank v) l /\ count_gt (vrank v) l < k.

(* counts over (rank, id) pairs, invariant under permutation *)
Definition pge (r : Z) (S : list (Z * vid)) : nat := length (filter (fun q => Z.leb r (fst q)) S).
Definition pgt (r : Z) (S : list (Z * vid)) : nat := length (filter (fun q => Z.ltb r (fst q)) S).
Lemma filter_length_perm {A} (f : A -> bool) (a b : list A) : Permutation a b -> length (filter f a) = length (filter f b).
Proof. induction 1; simpl; auto; try (destruct (f x); simpl; congruence); [destruct (f x), (f y); reflexivity|congruence]. Qed.
Lemma count_ge_pairs r l : count_ge r l = pge r (map (fun v => (vrank v, v)) l).
Proof. unfold Shell2Ctl.count_ge, pge. induction l as [|x l IH]; simpl; auto. destruct (Z.leb r (vrank x)); simpl; congruence. Qed.
Lemma count_gt_pairs r l : count_gt r l = pgt r (map (fun v => (vrank v, v)) l).
Proof. unfold Shell2Ctl.count_gt, pgt. induction l as [|x l IH]; simpl; auto. destruct (Z.ltb r (vrank x)); simpl; congruence. Qed.
Lemma filter_app_length {A} (f : A -> bool) a b : length (filter f (a ++ b)) = length (filter f a) + length (filter f b).
Proof. induction a as [|x a IH]; simpl; auto. destruct (f x); simpl; lia. Qed.
Lemma filter_all {A} (f : A -> bool) a : (forall x, In x a -> f x = true) -> length (filter f a) = length a.
Proof. induction a as [|x a IH]; intros H; simpl; auto. rewrite (H x (or_introl eq_refl)). simpl. rewrite IH; auto. intros; apply H; now right. Qed.
Lemma filter_none {A} (f : A -> bool) a : (forall x, In x a -> f x = false) -> length (filter f a) = 0.
Proof. induction a as [|x a IH]; intros H; simpl; auto. rewrite (H x (or_introl eq_refl)). apply IH. intros; apply H; now right. Qed.
Lemma filter_le_length {A} (f : A -> bool) a : length (filter f a) <= length a.
Proof. induction a as [|x a IH]; simpl; [lia|]. destruct (f x); simpl; lia. Qed.
(* in a list sorted for a transitive relation every element of a prefix is related to every element after it *)
Lemma sorted_app {A} (R : A -> A -> Prop) : forall a b, StronglySorted R (a ++ b) -> forall x y, In x a -> In y b -> R x y.
Proof.
  induction a as [|z a IH]; intros b H x y Hx Hy; [contradiction|]. simpl in H. inversion H as [|? ? Hs Hf]; subst.
  destruct Hx as [->|Hx]; [|eapply IH; eauto]. rewrite Forall_forall in Hf. apply Hf. apply in_or_app. now right.
Qed.
Lemma count_gt_as_ge r l w : MinAbove r l (Some w) -> count_gt r l = count_ge (vrank w) l.
Proof.
  intros (Hin & Hr & Hmin). unfold Shell2Ctl.count_gt, Shell2Ctl.count_ge. clear Hin.
  induction l as [|a l IH]; simpl; auto.
  assert (Hm' : forall x, In x l -> (r < vrank x)%Z -> (vrank w <= vrank x)%Z) by (intros; apply Hmin; [now right|assumption]).
  destruct (Z.ltb_spec r (vrank a)) as [Ha|Ha], (Z.leb_spec (vrank w) (vrank a)) as [Hb|Hb]; simpl; try (rewrite IH; auto; fail).
  - specialize (Hmin a (or_introl eq_refl) Ha). lia.
  - lia.
Qed.
Lemma count_gt_none r l : MinAbove r l None -> count_gt r l = 0.
Proof.
  cbn [MinAbove]. unfold Shell2Ctl.count_gt. induction l as [|a l IH]; intros H; simpl; auto.
  destruct (Z.ltb_spec r (vrank a)) as [Ha|Ha]; [specialize (H a (or_introl eq_refl)); lia|]. apply IH. intros; apply H; now right.
Qed.
Lemma count_ge_le_gt a b l : (a < b)%Z -> count_ge b l <= count_gt a l.
Proof.
  intros Hab. unfold Shell2Ctl.count_ge, Shell2Ctl.count_gt. induction l as [|x l' IH]; simpl; [lia|].
  destruct (Z.leb_spec b (vrank x)), (Z.ltb_spec a (vrank x)); simpl; lia.
Qed.

Theorem kth_largest_spec k l : 1 <= k <= length l -> exists v, kth_largest k l = Some v /\ Kth k l v.
Proof.
  intros Hk. destruct k as [|k']; [lia|]. unfold Shell2Ctl.kth_largest.
  set (L := map (fun v => (vrank v, v)) l). set (Srt := RankSort.sort L).
  assert (PS : Permutation L Srt) by apply RankSort.Permuted_sort.
  assert (LS : length Srt = length l) by (rewrite <- (Permutation_length PS); unfold L; apply map_length).
  assert (SS : StronglySorted (fun a b => is_true (RankDesc.leb a b)) Srt).
  { apply RankSort.StronglySorted_sort. intros a b c Hab Hbc. unfold is_true, RankDesc.leb in *. apply Z.leb_le in Hab, Hbc. apply Z.leb_le. lia. }
  destruct (nth_error Srt k') as [p|] eqn:Ep; [|apply nth_error_None in Ep; lia].
  destruct (nth_error_split Srt k' Ep) as (S1 & S2 & ES & L1).
  assert (Hp : In p L) by (apply (Permutation_in _ (Permutation_sym PS)); rewrite ES; apply in_or_app; right; now left).
  unfold L in Hp. apply in_map_iff in Hp. destruct Hp as (v & Hv & Hin). subst p. cbn [option_map snd].
  exists v. split; [reflexivity|]. split; [exact Hin|].
  rewrite count_ge_pairs, count_gt_pairs. fold L. unfold pge, pgt.
  rewrite (filter_length_perm _ _ _ PS), (filter_length_perm (fun q => Z.ltb (vrank v) (fst q)) _ _ PS). rewrite ES in *.
  assert (B1 : forall x, In x S1 -> (vrank v <= fst x)%Z).
  { intros x Hx. pose proof (sorted_app _ S1 ((vrank v, v) :: S2) SS x (vrank v, v) Hx (or_introl eq_refl)) as H. unfold is_true, RankDesc.leb in H. now apply Z.leb_le in H. }
  assert (B2 : forall y, In y S2 -> (fst y <= vrank v)%Z).
  { intros y Hy. replace (S1 ++ (vrank v, v) :: S2) with ((S1 ++ [(vrank v, v)]) ++ S2) in SS by (rewrite <- app_assoc; reflexivity).
    pose proof (sorted_app _ (S1 ++ [(vrank v, v)]) S2 SS (vrank v, v) y ltac:(apply in_or_app; right; now left) Hy) as H.
    unfold is_true, RankDesc.leb in H. now apply Z.leb_le in H. }
  rewrite !filter_app_length. cbn [filter fst length]. rewrite Z.leb_refl, Z.ltb_irrefl. cbn [length].
  split.
  - rewrite (filter_all _ S1) by (intros x Hx; apply Z.leb_le; auto). lia.
  - rewrite (filter_none _ S2) by (intros y Hy; apply Z.ltb_ge; auto).
    pose proof (filter_le_length (fun q => Z.ltb (vrank v) (fst q)) S1). lia.
Qed.

(* the specification determines the rank: any two elements meeting it have the same rank *)
Theorem kth_unique k l v w : Kth k l v -> Kth k l w -> vrank v = vrank w.
Proof.
  intros (_ & Hv1 & Hv2) (_ & Hw1 & Hw2).
  destruct (Z.lt_trichotomy (vrank v) (vrank w)) as [H|[H|H]]; [|exact H|].
  - pose proof (count_ge_le_gt _ _ l H). lia.
  - pose proof (count_ge_le_gt _ _ l H). lia.
Qed.

(* add_bound's threshold: the n_live-th largest stored value, or -- when that value is repeated and at least n_points_min
   values lie strictly above it -- the smallest value above the plateau *)
Theorem threshold_spec cc s : 1 <= cc_nlive cc <= length (all_lls s) -> 1 <= cc_npmin cc ->
  exists v, Kth (cc_nlive cc) (all_lls s) v /\ ((1 < count_eq vrank (vrank v) (all_lls s) /\ cc_npmin cc <= count_gt (vrank v) (all_lls s) /\ exists t, threshold vrank cc s = Some t /\ MinAbove (vrank v) (all_lls s) (Some t)) \/
     (~ (1 < count_eq vrank (vrank v) (all_lls s) /\ cc_npmin cc <= count_gt (vrank v) (all_lls s)) /\ threshold vrank cc s = Some v)).
Proof.
  intros Hk Hp. destruct (kth_largest_spec _ _ Hk) as (v & Ev & Kv). exists v. split; [exact Kv|].
  unfold threshold. rewrite Ev.
  destruct (Nat.ltb_spec 1 (Shell2Ctl.count_eq vrank (vrank v) (all_lls s))) as [H1|H1];
  destruct (Nat.leb_spec (cc_npmin cc) (count_gt (vrank v) (all_lls s))) as [H2|H2]; cbn [andb].
  - left. split; [exact H1|]. split; [exact H2|].
    pose proof (min_above_spec (vrank v) (all_lls s)) as M. destruct (min_above (vrank v) (all_lls s)) as [t|] eqn:Et.
    + exists t. split; [reflexivity|exact M].
    + rewrite (count_gt_none _ _ M) in H2. lia.
  - right. split; [lia|reflexivity].
  - right. split; [lia|reflexivity].
  - right. split; [lia|reflexivity].
Qed.
End Spec.
