(* The threshold functions of the control layer meet their order-statistic specifications:
   kth_largest k l is an element with at least k values at or above it and fewer than k strictly above (= sorted(l)[-k]);
   min_above r l is the smallest value strictly above rank r. *)
From Coq Require Import List Arith ZArith Bool Lia.
Import ListNotations.
Require Import NV.Base NV.Shell2 NV.Shell2Ctl.

Section Spec.
Variable vrank : vid -> Z.
Notation count_ge := (count_ge vrank).
Notation count_gt := (count_gt vrank).
Notation kth_largest := (kth_largest vrank).
Notation min_above := (min_above vrank).

Lemma count_ge_le_length r l : count_ge r l <= length l.
Proof. unfold Shell2Ctl.count_ge. induction l as [|x l IH]; simpl; [lia|]. destruct (Z.leb r (vrank x)); simpl; lia. Qed.
Lemma count_ge_mono r r' l : (r <= r')%Z -> count_ge r' l <= count_ge r l.
Proof.
  intros H. unfold Shell2Ctl.count_ge. induction l as [|x l IH]; simpl; [lia|].
  destruct (Z.leb_spec r' (vrank x)), (Z.leb_spec r (vrank x)); simpl; lia.
Qed.

(* ---- min_above ---- *)
Definition MinAbove (r : Z) (l : list vid) (o : option vid) : Prop :=
  match o with
  | Some w => In w l /\ (r < vrank w)%Z /\ forall x, In x l -> (r < vrank x)%Z -> (vrank w <= vrank x)%Z
  | None => forall x, In x l -> (vrank x <= r)%Z
  end.
Lemma min_above_gen r : forall l pre best, MinAbove r pre best -> MinAbove r (pre ++ l) (fold_left (fun best v => if Z.ltb r (vrank v)
     then match best with Some b => if Z.ltb (vrank v) (vrank b) then Some v else best | None => Some v end else best) l best).
Proof.
  induction l as [|x l IH]; intros pre best H; cbn [fold_left]; [now rewrite app_nil_r|].
  replace (pre ++ x :: l) with ((pre ++ [x]) ++ l) by (now rewrite <- app_assoc). apply IH.
  destruct (Z.ltb_spec r (vrank x)) as [Hx|Hx].
  - destruct best as [b|]; cbn [MinAbove] in *.
    + destruct H as (Hin & Hr & Hmin). destruct (Z.ltb_spec (vrank x) (vrank b)) as [Hlt|Hge].
      * split; [apply in_or_app; right; now left|]. split; [exact Hx|]. intros y Hy Hry. apply in_app_or in Hy. destruct Hy as [Hy|[->|[]]]; [|lia].
        specialize (Hmin y Hy Hry). lia.
      * split; [apply in_or_app; now left|]. split; [exact Hr|]. intros y Hy Hry. apply in_app_or in Hy. destruct Hy as [Hy|[->|[]]]; [auto|lia].
    + split; [apply in_or_app; right; now left|]. split; [exact Hx|]. intros y Hy Hry. apply in_app_or in Hy. destruct Hy as [Hy|[->|[]]]; [|lia].
      specialize (H y Hy). lia.
  - destruct best as [b|]; cbn [MinAbove] in *.
    + destruct H as (Hin & Hr & Hmin). split; [apply in_or_app; now left|]. split; [exact Hr|].
      intros y Hy Hry. apply in_app_or in Hy. destruct Hy as [Hy|[->|[]]]; [auto|lia].
    + intros y Hy. apply in_app_or in Hy. destruct Hy as [Hy|[->|[]]]; [auto|lia].
Qed.
Theorem min_above_spec r l : MinAbove r l (min_above r l).
Proof. unfold Shell2Ctl.min_above. apply (min_above_gen r l [] None). intros x []. Qed.

(* ---- kth_largest ---- *)
Definition Kth (k : nat) (l : list vid) (v : vid) : Prop :=
  In v l /\ k <= count_ge (vrank v) l /\ count_gt (vrank v) l < k.
(* best so far = the maximal-rank element of the prefix with at least k values (of the whole list) at or above it *)
Definition MaxOk (k : nat) (l pre : list vid) (o : option vid) : Prop :=
  match o with
  | Some b => In b pre /\ k <= count_ge (vrank b) l /\ forall x, In x pre -> k <= count_ge (vrank x) l -> (vrank x <= vrank b)%Z
  | None => forall x, In x pre -> count_ge (vrank x) l < k
  end.
Lemma kth_gen k l : forall rest pre best, MaxOk k l pre best ->
  MaxOk k l (pre ++ rest) (fold_left (fun best v => if Nat.leb k (count_ge (vrank v) l)
     then match best with Some b => if Z.ltb (vrank b) (vrank v) then Some v else best | None => Some v end else best) rest best).
Proof.
  induction rest as [|x rest IH]; intros pre best H; cbn [fold_left]; [now rewrite app_nil_r|].
  replace (pre ++ x :: rest) with ((pre ++ [x]) ++ rest) by (now rewrite <- app_assoc). apply IH.
  destruct (Nat.leb_spec k (count_ge (vrank x) l)) as [Hx|Hx].
  - destruct best as [b|]; cbn [MaxOk] in *.
    + destruct H as (Hin & Hk & Hmax). destruct (Z.ltb_spec (vrank b) (vrank x)) as [Hlt|Hge].
      * split; [apply in_or_app; right; now left|]. split; [exact Hx|]. intros y Hy Hky. apply in_app_or in Hy. destruct Hy as [Hy|[->|[]]]; [|lia].
        specialize (Hmax y Hy Hky). lia.
      * split; [apply in_or_app; now left|]. split; [exact Hk|]. intros y Hy Hky. apply in_app_or in Hy. destruct Hy as [Hy|[->|[]]]; [auto|lia].
    + split; [apply in_or_app; right; now left|]. split; [exact Hx|]. intros y Hy Hky. apply in_app_or in Hy. destruct Hy as [Hy|[->|[]]]; [|lia].
      specialize (H y Hy). lia.
  - destruct best as [b|]; cbn [MaxOk] in *.
    + destruct H as (Hin & Hk & Hmax). split; [apply in_or_app; now left|]. split; [exact Hk|].
      intros y Hy Hky. apply in_app_or in Hy. destruct Hy as [Hy|[->|[]]]; [auto|lia].
    + intros y Hy. apply in_app_or in Hy. destruct Hy as [Hy|[->|[]]]; [auto|lia].
Qed.

(* the element of minimal rank has the whole list at or above it *)
Lemma min_elem (l : list vid) : l <> [] -> exists m, In m l /\ forall x, In x l -> (vrank m <= vrank x)%Z.
Proof.
  induction l as [|a l IH]; [congruence|]. intros _. destruct l as [|b l'].
  - exists a. split; [now left|]. intros x [->|[]]. lia.
  - destruct IH as (m & Hm & Hmin); [congruence|]. destruct (Z.leb_spec (vrank a) (vrank m)).
    + exists a. split; [now left|]. intros x [->|Hx]; [lia|]. specialize (Hmin x Hx). lia.
    + exists m. split; [now right|]. intros x [->|Hx]; [lia|auto].
Qed.
Lemma count_ge_all r l : (forall x, In x l -> (r <= vrank x)%Z) -> count_ge r l = length l.
Proof.
  unfold Shell2Ctl.count_ge. induction l as [|a l IH]; intros H; simpl; auto.
  destruct (Z.leb_spec r (vrank a)) as [_|Hlt]; [simpl; rewrite IH; auto; intros; apply H; now right|].
  specialize (H a (or_introl eq_refl)). lia.
Qed.
(* values strictly above r are exactly the values at or above the smallest value above r *)
Lemma count_gt_as_ge r l w : MinAbove r l (Some w) -> count_gt r l = count_ge (vrank w) l.
Proof.
  intros (Hin & Hr & Hmin). unfold Shell2Ctl.count_gt, Shell2Ctl.count_ge. clear Hin.
  induction l as [|a l IH]; simpl; auto.
  assert (Hm' : forall x, In x l -> (r < vrank x)%Z -> (vrank w <= vrank x)%Z) by (intros; apply Hmin; [now right|assumption]).
  destruct (Z.ltb_spec r (vrank a)) as [Ha|Ha], (Z.leb_spec (vrank w) (vrank a)) as [Hb|Hb]; simpl; try (rewrite IH; auto; fail).
  - specialize (Hmin a (or_introl eq_refl) Ha). lia.
  - lia.
Qed.
Lemma count_gt_none r l : MinAbove r l None -> count_gt r l = 0.
Proof.
  cbn [MinAbove]. unfold Shell2Ctl.count_gt. induction l as [|a l IH]; intros H; simpl; auto.
  destruct (Z.ltb_spec r (vrank a)) as [Ha|Ha]; [specialize (H a (or_introl eq_refl)); lia|]. apply IH. intros; apply H; now right.
Qed.

Theorem kth_largest_spec k l : 1 <= k <= length l -> exists v, kth_largest k l = Some v /\ Kth k l v.
Proof.
  intros Hk. pose proof (kth_gen k l l [] None) as G. cbn [app] in G. specialize (G (fun x (H : In x []) => match H with end)).
  fold (kth_largest k l) in G.
  destruct (kth_largest k l) as [v|] eqn:E.
  - exists v. split; [reflexivity|]. destruct G as (Hin & Hge & Hmax). split; [exact Hin|]. split; [exact Hge|].
    pose proof (min_above_spec (vrank v) l) as M. destruct (min_above (vrank v) l) as [w|] eqn:Ew.
    + rewrite (count_gt_as_ge _ _ _ M). destruct M as (Hw & Hr & _).
      destruct (Nat.leb_spec k (count_ge (vrank w) l)) as [Hc|Hc]; [|exact Hc]. specialize (Hmax w Hw Hc). lia.
    + rewrite (count_gt_none _ _ M). lia.
  - exfalso. cbn [MaxOk] in G. destruct (min_elem l) as (m & Hm & Hmin); [destruct l; [simpl in Hk; lia|congruence]|].
    specialize (G m Hm). rewrite count_ge_all in G by auto. lia.
Qed.
Lemma count_ge_le_gt a b l : (a < b)%Z -> count_ge b l <= count_gt a l.
Proof.
  intros Hab. unfold Shell2Ctl.count_ge, Shell2Ctl.count_gt. induction l as [|x l' IH]; simpl; [lia|].
  destruct (Z.leb_spec b (vrank x)), (Z.ltb_spec a (vrank x)); simpl; lia.
Qed.
(* the specification determines the rank: any two elements meeting it have the same rank *)
Theorem kth_unique k l v w : Kth k l v -> Kth k l w -> vrank v = vrank w.
Proof.
  intros (_ & Hv1 & Hv2) (_ & Hw1 & Hw2).
  destruct (Z.lt_trichotomy (vrank v) (vrank w)) as [H|[H|H]]; [|exact H|].
  - pose proof (count_ge_le_gt _ _ l H). lia.
  - pose proof (count_ge_le_gt _ _ l H). lia.
Qed.

(* add_bound's threshold: the n_live-th largest stored value, or -- when that value is repeated and at least n_points_min
   values lie strictly above it -- the smallest value above the plateau *)
Theorem threshold_spec cc s : 1 <= cc_nlive cc <= length (all_lls s) -> 1 <= cc_npmin cc ->
  exists v, Kth (cc_nlive cc) (all_lls s) v /\ ((1 < count_eq vrank (vrank v) (all_lls s) /\ cc_npmin cc <= count_gt (vrank v) (all_lls s) /\ exists t, threshold vrank cc s = Some t /\ MinAbove (vrank v) (all_lls s) (Some t)) \/
     (~ (1 < count_eq vrank (vrank v) (all_lls s) /\ cc_npmin cc <= count_gt (vrank v) (all_lls s)) /\ threshold vrank cc s = Some v)).
Proof.
  intros Hk Hp. destruct (kth_largest_spec _ _ Hk) as (v & Ev & Kv). exists v. split; [exact Kv|].
  unfold threshold. rewrite Ev.
  destruct (Nat.ltb_spec 1 (Shell2Ctl.count_eq vrank (vrank v) (all_lls s))) as [H1|H1];
  destruct (Nat.leb_spec (cc_npmin cc) (count_gt (vrank v) (all_lls s))) as [H2|H2]; cbn [andb].
  - left. split; [exact H1|]. split; [exact H2|].
    pose proof (min_above_spec (vrank v) (all_lls s)) as M. destruct (min_above (vrank v) (all_lls s)) as [t|] eqn:Et.
    + exists t. split; [reflexivity|exact M].
    + rewrite (count_gt_none _ _ M) in H2. lia.
  - right. split; [lia|reflexivity].
  - right. split; [lia|reflexivity].
  - right. split; [lia|reflexivity].
Qed.
End Spec.
