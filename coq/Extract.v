(* The only file of the development that extracts.  ExtrOcamlBasic only: its directives are
     Extract Inductive bool => bool [ true false ].      Extract Inductive option => option [ Some None ].
     Extract Inductive unit => unit [ "()" ].            Extract Inductive list => list [ "[]" "( :: )" ].
     Extract Inductive prod => "( * )" [ "" ].           Extract Inductive sumbool => bool [ true false ].
     Extract Inductive sumor => option [ Some None ].    Extract Inlined Constant andb/orb/negb/fst/snd.
   nat, positive, N, Z, Q stay extracted inductive types.  No Extract Constant of our own. *)
From Coq Require Import List PArith FMapPositive Bool QArith Qreduction.
Require Import NV.Base NV.Shell2 NV.Shell2Loop NV.Shell2LoopEE NV.Shell2Ctl NV.EstimExec NV.Union2 NV.PriorModel NV.PriorAsIs NV.Crash.
From Coq Require Extraction ExtrOcamlBasic.

(* table-backed oracles for replays of the shell machine *)
Definition tbl := PositiveMap.t (list bool * bool * vid * vid).    (* per point: contains-row (by bound index), in_cube, lik, blob *)
Definition t_contains (t : tbl) (b : bid) (p : pid) : bool :=
  match PositiveMap.find p t with Some (row, _, _, _) => nth (Pos.to_nat b - 1) row false | None => false end.
Definition t_cube (t : tbl) (p : pid) : bool := match PositiveMap.find p t with Some (_, c, _, _) => c | None => false end.
Definition t_lik (t : tbl) (p : pid) : vid := match PositiveMap.find p t with Some (_, _, l, _) => l | None => xH end.
Definition t_blob (t : tbl) (p : pid) : vid := match PositiveMap.find p t with Some (_, _, _, b) => b | None => xH end.
Definition t_add (p : pid) (v : list bool * bool * vid * vid) (t : tbl) : tbl := PositiveMap.add p v t.
Definition t_empty : tbl := PositiveMap.empty _.
Definition step_t (t : tbl) (nb : nat) := Shell2.step (t_contains t) (t_cube t) (t_lik t) (t_blob t) nb.

(* control layer with table-backed rank oracle *)
Definition vtbl := PositiveMap.t Z.
Definition v_rank (t : vtbl) (v : vid) : Z := match PositiveMap.find v t with Some r => r | None => 0%Z end.
Definition v_add (v : vid) (r : Z) (t : vtbl) : vtbl := PositiveMap.add v r t.
Definition v_empty : vtbl := PositiveMap.empty _.
Definition cstep_t (t : tbl) (vt : vtbl) (ni : vid) (cc : ctlcfg) (nb : nat) :=
  Shell2Ctl.cstep (t_contains t) (t_cube t) (t_lik t) (t_blob t) nb (v_rank vt) ni cc.
Definition trig_ok_t (cc : ctlcfg) := Shell2Ctl.iter_trigger_ok cc.
Definition run_call_t (t : tbl) (nb : nat) := Shell2Loop.run_call (t_contains t) (t_cube t) (t_lik t) (t_blob t) nb.
Definition run_call_fl_t (t : tbl) (nb : nat) := Shell2LoopEE.run_call_fl (t_contains t) (t_cube t) (t_lik t) (t_blob t) nb.
Extraction "shell.ml" step_t run_call_t run_call_fl_t cstep_t trig_ok_t v_rank v_add v_empty Shell2Ctl.cinit Shell2Ctl.mkCC t_add t_empty Shell2.init Shell2Loop.mkRC Shell2Loop.mkIter.
Extraction "estim.ml" EstimExec.Ztot EstimExec.neffQ EstimExec.volQ EstimExec.zQ EstimExec.neffShQ EstimExec.mkSh EstimExec.mkDy.
Extraction "union.ml" Union2.ustep Union2.uinit.
Extraction "prior.ml" PriorModel.add_parameter PriorAsIs.add_asis PriorModel.dimensionality PriorModel.empty
  PriorModel.unit_to_physical PriorModel.unit_to_dictionary QArith_base.Qplus QArith_base.Qmult QArith_base.Qminus Qreduction.Qred.
Extraction "crash.ml" Crash.atomic_trace.
