(* Property C14: the equal-weight posterior is an unbiased, order-preserving resampling. *)
From Coq Require Import List Arith ZArith QArith Qround Reals Sorted.
From Coquelicot Require Import Coquelicot.
Import ListNotations.
Require Import NV.EqualWeight NV.EqualWeightR.
Local Open Scope nat_scope.

(* each sample is repeated floor(r) or floor(r)+1 times (exact rationals: r and the uniform draw u are arbitrary) *)
Theorem C14_floor_or_next : forall r u : Q, repeats r u = Qfloor r \/ repeats r u = (Qfloor r + 1)%Z.
Proof. exact EqualWeight.C14_floor_or_next. Qed.
Print Assumptions C14_floor_or_next.

(* the expectation over the uniform draw is exactly r (real analysis: the Riemann integral over [0,1]) *)
Theorem C14_expectation : forall r : R, is_RInt (repeatsR r) 0%R 1%R r.
Proof. exact expectation_repeats. Qed.
Print Assumptions C14_expectation.

(* with boost at most one no sample is repeated, for every weight vector (zero weights included) and all draws *)
Theorem C14_boost_le_1 : forall ws boost us, List.Forall (fun w => 0 <= w)%Q ws -> (0 < qmax ws)%Q -> (0 < boost)%Q -> (boost <= 1)%Q -> List.Forall (fun u => 0 <= u)%Q us ->
  List.Forall (fun m => m <= 1) (multiplicities ws boost us).
Proof. exact boost_le_1_no_repeat. Qed.
Print Assumptions C14_boost_le_1.
Theorem C14_no_duplicates : forall (A : Type) ws boost us (rows : list A), List.Forall (fun w => 0 <= w)%Q ws -> (0 < qmax ws)%Q -> (0 < boost)%Q -> (boost <= 1)%Q ->
  List.Forall (fun u => 0 <= u)%Q us -> NoDup rows -> NoDup (expand (multiplicities ws boost us) rows).
Proof. exact @no_repeat_rows. Qed.
Print Assumptions C14_no_duplicates.

(* np.repeat with one multiplicity vector applied to points, log-likelihoods and blobs keeps the rows aligned, and the
   output is ordered by source index *)
Theorem C14_aligned : forall (A B : Type) reps (a : list A) (b : list B), expand reps (combine a b) = combine (expand reps a) (expand reps b).
Proof. exact @EqualWeight.C14_aligned. Qed.
Print Assumptions C14_aligned.
Theorem C14_order : forall reps k, Sorted le (expand reps (seq k (length reps))).
Proof. exact EqualWeight.C14_order. Qed.
Print Assumptions C14_order.

(* all returned weights are equal and sum to one *)
Theorem C14_weights : forall n : nat, 0 < n -> (qsumq (repeat (1 / inject_Z (Z.of_nat n)) n) == 1)%Q.
Proof. exact equal_weights_normalised. Qed.
Print Assumptions C14_weights.

Example C14_example : multiplicities [1#2; 0; 2; 1]%Q (3#1)%Q [1#4; 1#2; 9#10; 1#2]%Q = [1; 0; 3; 1] /\
  expand [1; 0; 3; 1] [10; 20; 30; 40] = [10; 30; 30; 30; 40].
Proof. split; vm_compute; reflexivity. Qed.
