(* Property C15: the prior maps the unit cube to parameters as declared.
   This file holds only the property theorems, each closed by `exact` of a lemma proved elsewhere. *)
From Coq Require Import List QArith Permutation.
Import ListNotations.
Require Import NV.PriorModel NV.PriorProofs NV.PriorAsIs.
Local Open Scope nat_scope.

(* every declaration sequence, of any length, leaves a well-formed prior:
   one distribution per key, no key twice, every link resolved to a declared non-link target *)
Theorem C15_inv : forall ds : list decl, WF (run_decls ds).
Proof. exact run_decls_WF. Qed.
Print Assumptions C15_inv.

(* the number of dimensions is the number of accepted free declarations *)
Theorem C15_dim : forall ds : list decl, dimensionality (run_decls ds) = count_accepted_free empty ds.
Proof. exact dim_run. Qed.
Print Assumptions C15_dim.

(* coordinate i of unit_to_physical is isf_i (1 - u_i), declaration order, shape preserved, wrong shape rejected *)
Theorem C15_physical : forall (isf : free -> Q -> Q) p u ph, unit_to_physical isf p u = Some ph ->
  length ph = length u /\ length u = dimensionality p /\
  forall i f x, nth_error (frees (dists p)) i = Some f -> nth_error u i = Some x -> nth_error ph i = Some (isf f (1 - x)%Q).
Proof. exact physical_spec. Qed.
Print Assumptions C15_physical.
Theorem C15_physical_total : forall isf p u, length u = dimensionality p -> exists ph, unit_to_physical isf p u = Some ph.
Proof. exact physical_total. Qed.
Print Assumptions C15_physical_total.
Theorem C15_physical_rows : forall isf p us phs, unit_to_physical_rows isf p us = Some phs ->
  length phs = length us /\ forall i u ph, nth_error us i = Some u -> nth_error phs i = Some ph -> unit_to_physical isf p u = Some ph.
Proof. exact physical_rows. Qed.
Print Assumptions C15_physical_rows.
Theorem C15_monotone : forall (isf : free -> Q -> Q) f x y,
  (forall a b, a <= b -> isf f b <= isf f a)%Q -> (x <= y)%Q -> (isf f (1 - x) <= isf f (1 - y))%Q.
Proof. exact physical_monotone. Qed.
Print Assumptions C15_monotone.

(* the dictionary of a well-formed prior: exists (no KeyError), has every declared key exactly once,
   free keys carry their coordinate, fixed keys their constant, link keys the value of their non-link target *)
Theorem C15_dict : forall p ph, WF p -> length ph = dimensionality p -> 0 < dimensionality p ->
  exists d, physical_to_dictionary p ph = Some d /\
    Permutation (map fst d) (keys p) /\
    forall j k dj, nth_error (keys p) j = Some k -> nth_error (dists p) j = Some dj ->
      match dj with
      | DFree _ => exists x, nth_error ph (count_free (firstn j (dists p))) = Some x /\ dget k d = Some x
      | DFixed v => dget k d = Some v
      | DLink t => exists jt dt v, nth_error (keys p) jt = Some t /\ nth_error (dists p) jt = Some dt /\
                   (forall t', dt <> DLink t') /\ value1 p ph jt = Some v /\ dget t d = Some v /\ dget k d = Some v
      end.
Proof. exact (dictionary_spec (fun _ q => q)). Qed.
Print Assumptions C15_dict.

(* a rejected declaration leaves the prior unchanged and raises TypeError or ValueError *)
Theorem C15_reject : forall p rk rd p' e, add_parameter p rk rd = Err p' e -> p' = p /\ (e = TypeErr \/ e = ValueErr).
Proof. exact reject_unchanged. Qed.
Print Assumptions C15_reject.
(* malformed declarations are rejected *)
Theorem C15_reject_duplicate : forall p k rd, In k (keys p) -> add_parameter p (KStr k) rd = Err p ValueErr.
Proof. exact reject_duplicate. Qed.
Print Assumptions C15_reject_duplicate.
Theorem C15_reject_auto_collision : forall p rd, In (Auto (length (keys p))) (keys p) -> add_parameter p KNone rd = Err p ValueErr.
Proof. exact reject_auto_collision. Qed.
Print Assumptions C15_reject_auto_collision.
Theorem C15_reject_self_link : forall p rk k, WF p -> the_key p rk = Some k -> add_parameter p rk (RLink k) = Err p ValueErr.
Proof. exact reject_self_link. Qed.
Print Assumptions C15_reject_self_link.
Theorem C15_reject_undeclared_link : forall p rk k t, WF p -> the_key p rk = Some k -> ~ In k (keys p) -> ~ In t (keys p) ->
  add_parameter p rk (RLink t) = Err p ValueErr.
Proof. exact reject_undeclared_link. Qed.
Print Assumptions C15_reject_undeclared_link.
Theorem C15_reject_bad_type : forall p rd, add_parameter p KBad rd = Err p TypeErr.
Proof. exact reject_bad_key. Qed.
Print Assumptions C15_reject_bad_type.

(* regression witnesses: the model of the code before the repair violates the property *)
Theorem C15_asis_reject_refuted : exists p rk rd p' e, add_asis p rk rd = Err p' e /\ p' <> p.
Proof. exact PriorAsIs.C15_asis_reject_refuted. Qed.
Print Assumptions C15_asis_reject_refuted.
Theorem C15_asis_dup_refuted : exists p rk rd p', add_asis p rk rd = Ok p' /\ ~ NoDup (keys p').
Proof. exact PriorAsIs.C15_asis_dup_refuted. Qed.
Print Assumptions C15_asis_dup_refuted.

(* non-vacuity: a concrete mixed declaration list is accepted and produces the expected prior *)
Example C15_example :
  let ds := [(KStr (Named 1), RFree (FUniform 0 1)); (KNone, RFixed 3); (KStr (Named 2), RLink (Named 1));
             (KStr (Named 3), RLink (Named 2)); (KStr (Named 1), RFixed 1); (KNone, RLink (Named 9)); (KNone, RFree (FDist 1))] in
  keys (run_decls ds) = [Named 1; Auto 1; Named 2; Named 3; Auto 4] /\
  dists (run_decls ds) = [DFree (FUniform 0 1); DFixed 3; DLink (Named 1); DLink (Named 1); DFree (FDist 1)] /\
  dimensionality (run_decls ds) = 2.
Proof. vm_compute. repeat split. Qed.
