From Coq Require Import QArith List Lia Field Bool Arith.
Import ListNotations.
Open Scope Q_scope.

Definition qsum (l : list Q) : Q := fold_right Qplus 0 l.
Definition qn (k : nat) : Q := inject_Z (Z.of_nat k).
Definition b2q (b : bool) : Q := if b then 1 else 0.

Section Union.
Variable A : Type.
Variable X : list A.                       (* the finite cell space *)
Variable members : list (A -> bool).        (* ellipsoids, possibly overlapping *)
Variable cube : A -> bool.

Definition size (E : A -> bool) : nat := length (filter E X).
Definition mult (x : A) : nat := length (filter (fun E => E x) members).
Definition Stot : Q := qsum (map (fun E => qn (size E)) members).

(* one proposal round of Union.sample: pick member k with probability |E_k|/S, a uniform cell of E_k,
   keep it if in the cube, accept with probability 1/mult.  Probability that the round outputs cell x: *)
Definition p_out (x : A) : Q :=
  qsum (map (fun E => (qn (size E) / Stot) * (b2q (E x) / qn (size E)) * b2q (cube x) * (1 / qn (mult x))) members).

Lemma qsum_ext {B} (f g : B -> Q) l : (forall x, In x l -> f x == g x) -> qsum (map f l) == qsum (map g l).
Proof. induction l; simpl; intros H; [reflexivity|]. rewrite H, IHl; [reflexivity| |]; auto. Qed.
Lemma qsum_scale {B} (f : B -> Q) c l : qsum (map (fun x => f x * c) l) == qsum (map f l) * c.
Proof. induction l; simpl; [ring|rewrite IHl; ring]. Qed.
Lemma qsum_ind_count {B} (P : B -> bool) l : qsum (map (fun x => b2q (P x)) l) == qn (length (filter P l)).
Proof.
  induction l as [|a l IH]; simpl; [reflexivity|]. rewrite IH. destruct (P a); simpl; unfold qn.
  - rewrite Nat2Z.inj_succ, <- Z.add_1_l, inject_Z_plus. reflexivity.
  - ring.
Qed.

Lemma size_pos E x : In x X -> E x = true -> ~ qn (size E) == 0.
Proof.
  intros Hx He. unfold qn, size. assert (0 < length (filter E X))%nat.
  { assert (In x (filter E X)) by (apply filter_In; auto). destruct (filter E X); [contradiction|simpl; lia]. }
  intros H0. apply (f_equal Qnum) in H0 || idtac. unfold Qeq in H0. simpl in H0. lia.
Qed.

Theorem C08_uniform x : In x X -> cube x = true -> (0 < mult x)%nat -> ~ Stot == 0 -> p_out x == 1 / Stot.
Proof.
  intros Hx Hc Hm HS. unfold p_out.
  rewrite (qsum_ext _ (fun E => b2q (E x) * (1 / Stot * (1 / qn (mult x))))).
  - rewrite qsum_scale, qsum_ind_count. fold (mult x). field. split; auto.
    unfold qn. intros H0. unfold Qeq in H0. simpl in H0. lia.
  - intros E HE. rewrite Hc. destruct (E x) eqn:Ex; simpl.
    + field. repeat split; auto.
      * unfold qn. intros H0. unfold Qeq in H0. simpl in H0. lia.
      * eapply size_pos; eauto.
    + unfold b2q. 
      (* E does not contain x: the term is 0 whatever |E| is, but division by |E| = 0 is totalised; handle both cases *)
      destruct (Qeq_dec (qn (size E)) 0) as [Z0|NZ].
      * rewrite Z0. unfold Qdiv. ring.
      * field. repeat split; auto. unfold qn. intros H0. unfold Qeq in H0. simpl in H0. lia.
Qed.
End Union.

(* ---- acceptance fraction and filtering ---- *)
Section Accept.
Variable A : Type.
Variable X : list A.
Variable members : list (A -> bool).
Variable cube : A -> bool.
Hypothesis Xnodup : NoDup X.

Definition region (x : A) : bool := cube x && negb (Nat.eqb (mult A members x) 0).
(* probability that one proposal round of Union.sample outputs anything at all *)
Definition p_accept : Q := qsum (map (p_out A X members cube) (filter region X)).

(* ... is |region| / sum_k |E_k|: so  sum_k vol(E_k) * (1 - n_reject / n_sample)  estimates the measure of the region *)
Theorem C08_accept : ~ Stot A X members == 0 -> p_accept == qn (length (filter region X)) / Stot A X members.
Proof.
  intros HS. unfold p_accept.
  rewrite (qsum_ext _ (fun _ => 1 / Stot A X members)).
  - assert (G : forall (l : list A) c, qsum (map (fun _ => c) l) == qn (length l) * c).
    { induction l as [|a l IH]; intros c; simpl; [unfold qn; simpl; ring|]. rewrite IH. unfold qn. rewrite Nat2Z.inj_succ, <- Z.add_1_l, inject_Z_plus. ring. }
    rewrite G. field. exact HS.
  - intros x Hx. apply filter_In in Hx. destruct Hx as [Hx Hr]. unfold region in Hr. apply andb_true_iff in Hr. destruct Hr as [Hc Hm].
    apply negb_true_iff, Nat.eqb_neq in Hm. apply C08_uniform; auto. lia.
Qed.

(* NautilusBound.sample keeps an outer-bound sample when a neural bound accepts it: a uniform law filtered by a predicate
   is uniform on the intersection; every kept cell has the same probability as before *)
Variable keep : A -> bool.
Definition p_kept (x : A) : Q := p_out A X members cube x * b2q (keep x).
Theorem C08_filter x : In x X -> cube x = true -> (0 < mult A members x)%nat -> ~ Stot A X members == 0 -> keep x = true ->
  p_kept x == 1 / Stot A X members.
Proof. intros Hx Hc Hm HS Hk. unfold p_kept. rewrite Hk. simpl. rewrite C08_uniform by auto. ring. Qed.
End Accept.
