(* Property C04: evidence and posterior are statistically correct (PARTIAL).
   What is proved: on any finite cell space, for every likelihood and every family of bounds whose first member is the
   whole cube, (1) the per-shell estimator the code computes, (vol B / ns) * sum over the ns proposals of 1[x in shell] L(x),
   has -- averaged over ALL ns-tuples of independent uniform proposals in the bound -- expectation vol B x mean_B(1_shell L);
   (2) these limits add up over the shells to the evidence, because the shells partition the cube; (3) with L = 1 the shell
   volumes add up to one.  The hypotheses are exactly what C01 (shells partition), C08 (proposals uniform in the bound,
   volume calibrated) and C02 (the reported number is this estimator) establish.
   What is NOT proved: the continuum limit, the adaptive allocation of batches (optional stopping), the pseudo-importance
   bias when exploration is kept, "within the reported error".  Those are supported by seed ensembles (harness/c04.py). *)
From Coq Require Import List Arith QArith.
Import ListNotations.
Require Import NV.Finite NV.FiniteE.

Theorem C04_shell_unbiased : forall (A : Type) (B : list A), B <> [] -> forall (inS : A -> bool) (L : A -> Q) (volB : Q) (ns : nat), (0 < ns)%nat ->
  E A B ns (fun xs => volB / qn ns * qsum (map (fun x => b2q (inS x) * L x) xs)) == volB * avg A B (fun x => b2q (inS x) * L x).
Proof. exact FiniteE.C04_shell_unbiased. Qed.
Print Assumptions C04_shell_unbiased.

Theorem C04_shell_limit : forall (A : Type) (X : list A) (L : A -> Q) b later, filter b X <> [] ->
  zshell A X L b later == (qn (length (filter b X)) / qn (length X)) * avg A (filter b X) (fun x => b2q (in_shell A b later x) * L x).
Proof. exact zshell_bound_average. Qed.
Print Assumptions C04_shell_limit.

Theorem C04_unbiased : forall (A : Type) (X : list A) (L : A -> Q) b0 r, X <> [] -> (forall x, In x X -> b0 x = true) ->
  zsum A X L (b0 :: r) == qsum (map L X) / qn (length X).
Proof. exact FiniteE.C04_unbiased. Qed.
Print Assumptions C04_unbiased.

Theorem C04_volumes_sum : forall (A : Type) (X : list A) b0 r, X <> [] -> (forall x, In x X -> b0 x = true) -> zsum A X (fun _ => 1) (b0 :: r) == 1.
Proof. exact FiniteE.C04_volumes_sum. Qed.
Print Assumptions C04_volumes_sum.

(* non-vacuity: four cells, two nested-but-not-quite bounds *)
Example C04_example :
  let X := [1; 2; 3; 4]%nat in let L := fun x : nat => inject_Z (Z.of_nat x) in
  zsum nat X L [fun _ => true; fun x => Nat.leb 2 x; fun x => Nat.leb x 3 && Nat.leb 3 x] == 10 # 4.
Proof. vm_compute. reflexivity. Qed.
