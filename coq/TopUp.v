(* Union.split, repair of the cluster labels (union.py 192-203): if one of the two mixture components has fewer than
   n_points_min hard members, the most likely members of the other cluster (by density under the small component) are
   re-assigned to it.  `rank_other` is that ranking (an oracle: floating-point order), a permutation of the indices of the
   other cluster.  The repaired code moves exactly the missing number of points; the code as found re-labelled the
   first n_points_min entries of the ranking of ALL points, own members included, which can strip the larger cluster. *)
From Coq Require Import List Arith Bool Lia Permutation.
Import ListNotations.

Definition count (b : bool) (l : list bool) : nat := length (filter (Bool.eqb b) l).
(* np.argmin(np.bincount(labels, minlength=2)): label 1 iff it is strictly rarer *)
Definition small_label (l : list bool) : bool := Nat.ltb (count true l) (count false l).
Fixpoint set_at (i : nat) (v : bool) (l : list bool) : list bool :=
  match l, i with [], _ => [] | _ :: r, O => v :: r | x :: r, S k => x :: set_at k v r end.
Definition relabel (idxs : list nat) (v : bool) (l : list bool) : list bool := fold_left (fun acc i => set_at i v acc) idxs l.
Fixpoint others_from (k : nat) (v : bool) (l : list bool) : list nat :=
  match l with [] => [] | x :: r => if Bool.eqb v x then others_from (S k) v r else k :: others_from (S k) v r end.
Definition others (v : bool) (l : list bool) : list nat := others_from 0 v l.
Definition enough (n_min : nat) (l : list bool) : bool := Nat.leb n_min (count false l) && Nat.leb n_min (count true l).

Definition topup (n_min : nat) (rank_other : list nat) (l : list bool) : list bool :=
  if enough n_min l then l else
  let s := small_label l in relabel (firstn (n_min - count s l) rank_other) s l.
Definition topup_asis (n_min : nat) (rank_all : list nat) (l : list bool) : list bool :=
  if enough n_min l then l else relabel (firstn n_min rank_all) (small_label l) l.
