(* Property C03: posterior rows are faithful (point, log-likelihood, blob) triples, once each.
   The three parallel arrays are separate lists in the model and every operation applies its mask/index to each of them
   separately, as the code does: alignment is a theorem, not a definition.  lik and blob are arbitrary functions. *)
From Coq Require Import List Arith.
Import ListNotations.
Require Import NV.Base NV.Shell2 NV.Shell2Inv NV.Shell2Uniq NV.Shell2Thm NV.BlobShape.

Section P.
Variable contains : bid -> pid -> bool.
Variable in_cube : pid -> bool.
Variable lik blob : pid -> vid.
Variable n_batch : nat.
Notation run := (run contains in_cube lik blob n_batch).

(* every stored row, in every shell and among the transfer candidates, is (p, lik p, blob p) *)
Theorem C03_rows : forall evs s, run init evs = Some s ->
  Forall (fun sh => lls sh = map lik (pts sh) /\ bls sh = map blob (pts sh)) (shells s) /\
  t_lls s = map lik (t_pts s) /\ t_bls s = map blob (t_pts s).
Proof. exact (Shell2Inv.C03_rows contains in_cube lik blob n_batch). Qed.

(* every evaluated point is stored at most once *)
Theorem C03_once : forall evs s, run init evs = Some s -> NoDup (concat (map pts (shells s))).
Proof. exact (Shell2Uniq.C03_once contains in_cube lik blob n_batch). Qed.

(* what posterior() returns (both views): faithful triples, no point twice *)
Theorem C03_posterior : forall evs s, run init evs = Some s ->
  (forall p l b, In (p, (l, b)) (posterior_rows s) -> l = lik p /\ b = blob p) /\ NoDup (map fst (posterior_rows s)).
Proof. intros evs s E. split; [exact (posterior_faithful contains in_cube lik blob n_batch evs s E)|exact (posterior_once contains in_cube lik blob n_batch evs s E)]. Qed.
End P.
Print Assumptions C03_rows.
Print Assumptions C03_once.
Print Assumptions C03_posterior.

(* evaluation glue: the blob array keeps its batch axis for any batch size >= 1 and any blob shape (BlobShape.v) *)
Theorem C03_blob_shape : forall n rest, squeeze_keep_batch (n :: rest) = n :: filter not_one rest /\
  hd 0 (squeeze_keep_batch (n :: rest)) = n /\ size (squeeze_keep_batch (n :: rest)) = size (n :: rest) /\
  Forall (fun k => k <> 1) (tl (squeeze_keep_batch (n :: rest))).
Proof. exact keep_batch_spec. Qed.
Print Assumptions C03_blob_shape.
Theorem C03_squeeze_asis_refuted : exists s, hd 0 s = 1 /\ hd 0 (squeeze_all s) <> 1 /\ length (squeeze_all s) < length (squeeze_keep_batch s).
Proof. exact squeeze_all_refuted. Qed.
Print Assumptions C03_squeeze_asis_refuted.
