(* Property C11: same seed, same result, however the likelihood is evaluated or observed (light theorems; the weight is
   on paired bit-identical runs, harness/c11.py).  The model of the sampler is a function of its state, so determinism
   of the model is free; what is proved is insensitivity to what should be invisible. *)
From Coq Require Import List Arith Permutation.
Import ListNotations.
Require Import NV.Invisible.

(* any interleaving of pure accessor calls with the events of a run leaves the run unchanged *)
Theorem C11_accessors : forall (state event value : Type) (step : state -> event -> option state) (accessor : Type) (read : accessor -> state -> value)
  (h : list (event + accessor)) (s : state),
  option_map fst (run_obs state event value step accessor read s h) = run state event step s (events_of event accessor h).
Proof. exact accessors_invisible. Qed.
Print Assumptions C11_accessors.

(* worker scheduling order is invisible: results gathered by index are the ordered map, for every permutation schedule *)
Theorem C11_pool : forall (A B : Type) (f : A -> B) xs sched, Permutation sched (seq 0 (length xs)) ->
  gather B (length xs) (exec A B f xs sched) = map (fun x => Some (f x)) xs.
Proof. exact pool_order_invisible. Qed.
Print Assumptions C11_pool.

Example C11_example : gather nat 4 (exec nat nat (fun x => x * x) [1; 2; 3; 4] [2; 0; 3; 1]) = [Some 1; Some 4; Some 9; Some 16].
Proof. vm_compute. reflexivity. Qed.
