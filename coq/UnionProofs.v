From Coq Require Import List Arith NArith ZArith QArith Bool Lia Permutation.
Import ListNotations.
Require Import NV.Base NV.Union2.
Local Open Scope nat_scope.

Definition qsum (l : list Q) : Q := fold_right Qplus 0%Q l.

Lemma remove_nth_length {A} i (l : list A) : i < length l -> length (remove_nth i l) = length l - 1.
Proof. revert i; induction l as [|x l IH]; intros [|i] H; simpl in *; try lia. rewrite IH by lia. lia. Qed.
Lemma uset_nth_length {A} i (v : A) l : length (uset_nth i v l) = length l.
Proof. revert i; induction l as [|x l IH]; intros [|i]; simpl; auto. Qed.
Lemma nth_error_lt {A} (l : list A) i x : nth_error l i = Some x -> i < length l.
Proof. intros H. apply nth_error_Some. congruence. Qed.
Lemma remove_nth_In {A} i (l : list A) x : In x (remove_nth i l) -> In x l.
Proof. revert i; induction l as [|y l IH]; intros [|i]; simpl; auto. intros [H|H]; eauto. Qed.
Lemma remove_nth_perm {A} i (l : list A) x : nth_error l i = Some x -> Permutation l (x :: remove_nth i l).
Proof.
  revert i; induction l as [|y l IH]; intros [|i] H; simpl in *; try discriminate.
  - inversion H; subst. reflexivity.
  - rewrite perm_swap. constructor. now apply IH.
Qed.
Lemma concat_perm {A} (l1 l2 : list (list A)) : Permutation l1 l2 -> Permutation (concat l1) (concat l2).
Proof.
  induction 1; simpl; auto.
  - now apply Permutation_app_head.
  - rewrite !app_assoc. apply Permutation_app_tail, Permutation_app_comm.
  - etransitivity; eauto.
Qed.
Lemma fmask_split_perm {A} (m : list bool) (l : list A) : length m = length l ->
  Permutation (fmask (map negb m) l ++ fmask m l) l.
Proof.
  revert l; induction m as [|b m IH]; intros [|x l] H; simpl in *; try discriminate; auto.
  destruct b; simpl.
  - apply Permutation_sym, Permutation_cons_app, Permutation_sym, IH. lia.
  - constructor. apply IH. lia.
Qed.
Lemma qsum_app a b : (qsum (a ++ b) == qsum a + qsum b)%Q.
Proof. induction a; simpl; [ring|rewrite IHa; ring]. Qed.
Lemma qsum_remove i l x : nth_error l i = Some x -> (qsum l == x + qsum (remove_nth i l))%Q.
Proof.
  revert i; induction l as [|y l IH]; intros [|i] H; simpl in *; try discriminate.
  - inversion H; subst. reflexivity.
  - rewrite (IH _ H). ring.
Qed.

Section M.
Variable n_min : nat.
Notation split_go := (split_go n_min). Notation ustep := (ustep n_min). Notation urun := (urun n_min).

Definition WF (u : ust) : Prop :=
  length (pbs u) = length (bs u) /\ length (vols u) = length (bs u) /\ length (blk u) = length (bs u).
Definition MinPts (u : ust) : Prop := Forall (fun p => n_min <= length p) (pbs u).
(* an ellipsoid whose may-split flag is clear has at least twice the minimum number of points *)
Definition Flags (u : ust) : Prop := Forall2 (fun p b => b = false -> 2 * n_min <= length p) (pbs u) (blk u).

Lemma argmax_go_lt vs : forall bl i best r, argmax_go i vs bl best = Some r ->
  (forall b, best = Some b -> fst b < i) -> fst r < i + length vs.
Proof.
  induction vs as [|v vs IH]; intros bl i best r H Hb; simpl in *.
  - specialize (Hb r H). lia.
  - destruct bl as [|b bl]; [specialize (Hb r H); lia|].
    apply IH in H; [lia|]. intros b0 Hb0. destruct b.
    + specialize (Hb _ Hb0). lia.
    + destruct best as [[bi bv]|]; [|inversion Hb0; simpl; lia].
      destruct (Qlt_le_dec bv v); inversion Hb0; subst; simpl; [lia|]. specialize (Hb _ eq_refl). simpl in Hb. lia.
Qed.
Lemma argmax_lt u idx : argmax u = Some idx -> idx < length (vols u).
Proof.
  unfold argmax. destruct (argmax_go 0 (vols u) (blk u) None) as [r|] eqn:E; [|discriminate].
  intros H; inversion H; subst. apply argmax_go_lt in E; [lia|]. intros b Hb; discriminate.
Qed.

Lemma Forall2_uset_true {A} (P : A -> bool -> Prop) l bl i : (forall a, P a true) -> Forall2 P l bl -> Forall2 P l (uset_nth i true bl).
Proof. intros HP H. revert i; induction H; intros [|i]; simpl; constructor; auto. Qed.
Lemma Forall2_remove {A B} (P : A -> B -> Prop) l1 l2 i : Forall2 P l1 l2 -> Forall2 P (remove_nth i l1) (remove_nth i l2).
Proof. intros H. revert i; induction H; intros [|i]; simpl; auto. Qed.
Lemma Forall_remove {A} (P : A -> Prop) l i : Forall P l -> Forall P (remove_nth i l).
Proof. intros H. rewrite Forall_forall in *. intros x Hx. apply H. eapply remove_nth_In; eauto. Qed.

(* everything one accepted split pass preserves or establishes *)
Lemma split_go_spec allow : forall ats u u' r, WF u -> split_go allow ats u = Some (u', r) ->
  WF u' /\ (MinPts u -> MinPts u') /\ (Flags u -> Flags u') /\
  Permutation (concat (pbs u')) (concat (pbs u)) /\
  (r = true -> (qsum (vols u') <= qsum (vols u))%Q /\ length (bs u') = S (length (bs u))) /\
  (r = false -> bs u' = bs u /\ pbs u' = pbs u /\ vols u' = vols u).
Proof.
  induction ats as [|a rest IH]; intros u u' r (H1 & H2 & H3) E; simpl in E.
  - destruct (argmax u); inversion E; subst. repeat split; auto; try discriminate.
  - destruct (argmax u) as [idx|] eqn:Ea; [|discriminate].
    destruct a as [i|i|i labels b0 b1 v0 v1].
    + destruct (Nat.eqb i idx); [|discriminate].
      apply IH in E; [|repeat split; simpl; auto; now rewrite uset_nth_length].
      destruct E as (W & M & F & P & T & R). simpl in *. repeat split; auto; try apply W; try (apply T; auto); try (apply R; auto).
      intros HF. apply F. unfold Flags in *. simpl. apply Forall2_uset_true; auto. intros a Ha; discriminate.
    + destruct (Nat.eqb i idx && negb allow); [|discriminate]. destruct rest; inversion E; subst.
      repeat split; auto; try discriminate.
    + destruct (nth_error (pbs u) idx) as [pts|] eqn:En; [|discriminate].
      destruct (nth_error (vols u) idx) as [vold|] eqn:Ev; [|discriminate].
      destruct rest; [|discriminate].
      destruct (negb (Nat.eqb i idx)); [discriminate|].
      destruct (negb (Nat.eqb (length labels) (length pts))) eqn:El; [discriminate|].
      apply negb_false_iff, Nat.eqb_eq in El.
      destruct (negb (_ && _)) eqn:Em; [discriminate|]. apply negb_false_iff, andb_true_iff in Em. destruct Em as [Em0 Em1].
      apply Nat.leb_le in Em0, Em1.
      destruct (negb (Qle_bool (v0 + v1) vold)) eqn:Eq; [discriminate|]. apply negb_false_iff, Qle_bool_iff in Eq.
      inversion E; subst; clear E. pose proof (nth_error_lt _ _ _ En) as Hlt.
      split; [|split; [|split; [|split; [|split]]]]; simpl.
      * unfold WF; simpl. rewrite !app_length, !remove_nth_length by lia. simpl. lia.
      * unfold MinPts; simpl. intros HM. apply Forall_app. split; [now apply Forall_remove|]. repeat constructor; auto.
      * unfold Flags; simpl. intros HF. apply Forall2_app; [now apply Forall2_remove|].
        repeat constructor; intros Hb; apply Nat.ltb_ge in Hb; exact Hb.
      * rewrite (concat_perm _ _ (remove_nth_perm idx (pbs u) pts En)). simpl.
        rewrite concat_app. simpl. rewrite app_nil_r.
        rewrite Permutation_app_comm. apply Permutation_app_tail. now apply fmask_split_perm.
      * intros _. split.
        -- rewrite qsum_app. rewrite (qsum_remove idx (vols u) vold Ev). simpl.
           setoid_replace (qsum (remove_nth idx (vols u)) + (v0 + (v1 + 0)))%Q with ((v0 + v1) + qsum (remove_nth idx (vols u)))%Q by ring.
           apply Qplus_le_l. exact Eq.
        -- rewrite app_length, remove_nth_length by lia. simpl. lia.
      * discriminate.
Qed.

Lemma trim_spec d u u' r : WF u -> trim d u = Some (u', r) ->
  WF u' /\ (MinPts u -> MinPts u') /\ (Flags u -> Flags u') /\
  (r = false -> u' = u) /\
  (r = true -> exists i p, d = Some i /\ nth_error (pbs u) i = Some p /\ Permutation (concat (pbs u)) (p ++ concat (pbs u')) /\
                 S (length (bs u')) = length (bs u)).
Proof.
  intros (H1 & H2 & H3). unfold trim. destruct d as [i|].
  - destruct (Nat.leb (length (bs u)) 1); [discriminate|].
    destruct (negb (Nat.ltb i (length (bs u)))) eqn:Ei; [discriminate|]. apply negb_false_iff, Nat.ltb_lt in Ei.
    intros E; inversion E; subst; clear E. split; [|split; [|split; [|split]]]; simpl.
    + unfold WF; simpl. rewrite !remove_nth_length by lia. lia.
    + unfold MinPts; simpl. now apply Forall_remove.
    + unfold Flags; simpl. now apply Forall2_remove.
    + discriminate.
    + intros _. destruct (nth_error (pbs u) i) as [p|] eqn:En; [|apply nth_error_None in En; lia].
      exists i, p. repeat split; auto.
      * apply (concat_perm _ _ (remove_nth_perm i (pbs u) p En)).
      * rewrite remove_nth_length by lia. lia.
  - intros E; inversion E; subst. repeat split; auto; discriminate.
Qed.

Lemma step_wf u o u' r : WF u -> ustep u o = Some (u', r) -> WF u' /\ (MinPts u -> MinPts u') /\ (Flags u -> Flags u').
Proof.
  intros HW E. destruct o as [allow ats|d|]; simpl in E.
  - destruct (split_go_spec allow ats u u' r HW E) as (A & B & C & _). auto.
  - destruct (trim_spec d u u' r HW E) as (A & B & C & _). auto.
  - inversion E; subst. auto.
Qed.

(* the whole history *)
Theorem run_spec : forall ops u tr u' tr', WF u -> urun u tr ops = Some (u', tr') ->
  WF u' /\ (MinPts u -> MinPts u') /\ (Flags u -> Flags u') /\
  Permutation (concat (pbs u') ++ tr') (concat (pbs u) ++ tr).
Proof.
  induction ops as [|o ops IH]; intros u tr u' tr' HW E; simpl in E.
  - inversion E; subst. auto.
  - destruct (ustep u o) as [[u1 r]|] eqn:Es; [|discriminate].
    destruct (step_wf u o u1 r HW Es) as (W1 & M1 & F1).
    destruct (IH _ _ _ _ W1 E) as (W & M & F & P).
    split; [exact W|]. split; [intros HM; apply M, M1, HM|]. split; [intros HF; apply F, F1, HF|].
    rewrite P. clear IH E P.
    destruct o as [allow ats|d|]; simpl in Es.
    + destruct (split_go_spec allow ats u u1 r HW Es) as (_ & _ & _ & P1 & _). now apply Permutation_app_tail.
    + destruct (trim_spec d u u1 r HW Es) as (_ & _ & _ & R0 & R1). destruct r.
      * destruct (R1 eq_refl) as (i & p & -> & En & P1 & _). rewrite (nth_error_nth _ _ _ En).
        rewrite P1. rewrite app_assoc. apply Permutation_app_tail. apply Permutation_app_comm.
      * rewrite (R0 eq_refl). destruct d as [i|]; auto.
        (* Trim (Some i) returning false is impossible *)
        unfold trim in Es. destruct (Nat.leb _ 1); [discriminate|]. destruct (negb _); [discriminate|]. inversion Es.
    + inversion Es; subst. reflexivity.
Qed.

Lemma uinit_wf b pts v : WF (uinit n_min b pts v) /\ Flags (uinit n_min b pts v).
Proof.
  split; [repeat split|]. unfold Flags, uinit; simpl. constructor; [|constructor].
  intros H. now apply Nat.ltb_ge in H.
Qed.
End M.

(* the unrepaired trim breaks well-formedness *)
Example trim_asis_refuted : exists (u u' : ust) i, WF u /\ trim_asis (Some i) u = Some (u', true) /\ ~ WF u'.
Proof.
  exists (mkU [1%positive; 2%positive] [[1%positive]; [2%positive]] [1%Q; 1%Q] [false; false]). eexists. exists 0.
  split; [repeat split|]. split; [vm_compute; reflexivity|]. intros (_ & _ & H). simpl in H. discriminate.
Qed.
