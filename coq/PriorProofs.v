From Coq Require Import List Arith NArith ZArith QArith Bool Lia Permutation.
Import ListNotations.
Require Import NV.PriorModel.
Local Open Scope nat_scope.

Lemma kid_eqb_eq a b : kid_eqb a b = true <-> a = b.
Proof.
  destruct a, b; simpl; split; intros H; try discriminate; try (inversion H; subst).
  - apply Nat.eqb_eq in H. now subst.
  - apply Nat.eqb_refl.
  - apply Pos.eqb_eq in H. now subst.
  - apply Pos.eqb_refl.
Qed.
Lemma kid_eqb_refl a : kid_eqb a a = true. Proof. now apply kid_eqb_eq. Qed.
Lemma kid_eqb_neq a b : a <> b -> kid_eqb a b = false.
Proof. intros H. destruct (kid_eqb a b) eqn:E; auto. apply kid_eqb_eq in E. contradiction. Qed.

(* ---- invariants ---- *)
Definition nonlink (d : dist) : Prop := forall t, d <> DLink t.
Definition nonlink_target (p : prior) (d : dist) : Prop :=
  match d with DLink t => exists d', lookup t (keys p) (dists p) = Some d' /\ nonlink d' | _ => True end.
Definition WF (p : prior) : Prop :=
  length (keys p) = length (dists p) /\ NoDup (keys p) /\ Forall (nonlink_target p) (dists p).

Lemma WF_empty : WF empty.
Proof. repeat split; simpl; constructor. Qed.

Lemma memk_In k l : memk k l = true <-> In k l.
Proof.
  unfold memk. rewrite existsb_exists. split.
  - intros (x & Hx & He). apply kid_eqb_eq in He. now subst.
  - intros H. exists k. split; auto. now apply kid_eqb_eq.
Qed.

Lemma lookup_app_old t ks ds k d dd : length ks = length ds ->
  lookup t ks ds = Some dd -> lookup t (ks ++ [k]) (ds ++ [d]) = Some dd.
Proof.
  revert ds. induction ks as [|k0 ks IH]; intros [|d0 ds] HL H; simpl in *; try discriminate.
  destruct (kid_eqb t k0); auto.
Qed.
Lemma lookup_In t ks ds dd : lookup t ks ds = Some dd -> In dd ds /\ In t ks.
Proof.
  revert ds; induction ks as [|k0 ks IH]; intros [|d0 ds] H; simpl in *; try discriminate.
  destruct (kid_eqb t k0) eqn:E.
  - inversion H; subst. apply kid_eqb_eq in E. subst. auto.
  - destruct (IH _ H). auto.
Qed.
Lemma NoDup_snoc {A} (l : list A) x : NoDup l -> ~ In x l -> NoDup (l ++ [x]).
Proof.
  intros H Hn. rewrite <- (rev_involutive (l ++ [x])). apply NoDup_rev. rewrite rev_app_distr. simpl.
  constructor; [rewrite <- in_rev; auto|apply NoDup_rev; auto].
Qed.

(* a rejected declaration leaves the prior unchanged and raises TypeError or ValueError *)
Lemma reject_unchanged p rk rd p' e : add_parameter p rk rd = Err p' e -> p' = p /\ (e = TypeErr \/ e = ValueErr).
Proof.
  unfold add_parameter.
  destruct rk as [|k|]; simpl; try (intros H; inversion H; subst; auto; fail).
  - destruct (memk _ _); [intros H; inversion H; auto|].
    destruct rd as [f|v|t|]; try (intros H; inversion H; subst; auto; fail).
    destruct (lookup t (keys p) (dists p)) as [[f|v|t']|]; intros H; inversion H; subst; auto.
  - destruct (memk _ _); [intros H; inversion H; auto|].
    destruct rd as [f|v|t|]; try (intros H; inversion H; subst; auto; fail).
    destruct (lookup t (keys p) (dists p)) as [[f|v|t']|]; intros H; inversion H; subst; auto.
Qed.

(* an accepted declaration appends exactly one key and one distribution *)
Definition the_key (p : prior) (rk : rawkey) : option kid :=
  match rk with KNone => Some (Auto (length (keys p))) | KStr k => Some k | KBad => None end.
Lemma accept_shape p rk rd p' : add_parameter p rk rd = Ok p' ->
  exists k d, the_key p rk = Some k /\ memk k (keys p) = false /\ keys p' = keys p ++ [k] /\ dists p' = dists p ++ [d] /\
    match rd with
    | RFree f => d = DFree f
    | RFixed v => d = DFixed v
    | RLink t => exists dt, lookup t (keys p) (dists p) = Some dt /\
                 match dt with DLink t' => d = DLink t' | _ => d = DLink t end
    | RBad => False
    end.
Proof.
  unfold add_parameter, the_key.
  assert (G : forall k, (if memk k (keys p) then Err p ValueErr else
      match rd with
      | RBad => Err p TypeErr
      | RFree f => Ok (mkP (keys p ++ [k]) (dists p ++ [DFree f]))
      | RFixed v => Ok (mkP (keys p ++ [k]) (dists p ++ [DFixed v]))
      | RLink t => match lookup t (keys p) (dists p) with
                   | None => Err p ValueErr
                   | Some (DLink t') => Ok (mkP (keys p ++ [k]) (dists p ++ [DLink t']))
                   | Some _ => Ok (mkP (keys p ++ [k]) (dists p ++ [DLink t])) end
      end) = Ok p' ->
    exists d, memk k (keys p) = false /\ keys p' = keys p ++ [k] /\ dists p' = dists p ++ [d] /\
    match rd with
    | RFree f => d = DFree f
    | RFixed v => d = DFixed v
    | RLink t => exists dt, lookup t (keys p) (dists p) = Some dt /\
                 match dt with DLink t' => d = DLink t' | _ => d = DLink t end
    | RBad => False
    end).
  { intros k. destruct (memk k (keys p)) eqn:Hm; [discriminate|].
    destruct rd as [f|v|t|]; try discriminate.
    - intros H; inversion H; subst; simpl. exists (DFree f). auto.
    - intros H; inversion H; subst; simpl. exists (DFixed v). auto.
    - destruct (lookup t (keys p) (dists p)) as [[f|v|t']|] eqn:Hl; try discriminate;
        intros H; inversion H; subst; simpl.
      + exists (DLink t). repeat split; auto. exists (DFree f). auto.
      + exists (DLink t). repeat split; auto. exists (DFixed v). auto.
      + exists (DLink t'). repeat split; auto. exists (DLink t'). auto. }
  destruct rk as [|k|]; simpl; try discriminate; intros H; destruct (G _ H) as (d & H1 & H2 & H3 & H4); eauto 10.
Qed.

Lemma add_inv p rk rd p' : WF p -> add_parameter p rk rd = Ok p' -> WF p'.
Proof.
  intros (HL & HN & HT) H. destruct (accept_shape _ _ _ _ H) as (k & d & Hk & Hm & Ek & Ed & Hd).
  assert (Hnk : ~ In k (keys p)) by (intros Hin; apply memk_In in Hin; congruence).
  assert (Hold : forall d0, nonlink_target p d0 -> nonlink_target p' d0).
  { intros [f|v|t] H0; simpl in *; auto. destruct H0 as (d' & Hl & Hn). exists d'. split; auto.
    rewrite Ek, Ed. now apply lookup_app_old. }
  unfold WF. rewrite Ek, Ed. repeat split.
  - rewrite !app_length; simpl; lia.
  - now apply NoDup_snoc.
  - apply Forall_app; split.
    + eapply Forall_impl; [|exact HT]. intros a Ha. exact (Hold a Ha).
    + constructor; [|constructor].
      destruct rd as [f|v|t|]; try contradiction; subst; simpl; auto.
      destruct Hd as (dt & Hl & Hd).
      destruct dt as [f|v|t'].
      * subst. simpl. rewrite Ek, Ed. exists (DFree f). split; [now apply lookup_app_old|intros x; discriminate].
      * subst. simpl. rewrite Ek, Ed. exists (DFixed v). split; [now apply lookup_app_old|intros x; discriminate].
      * subst. simpl. rewrite Ek, Ed. destruct (lookup_In _ _ _ _ Hl) as (Hin & _).
        rewrite Forall_forall in HT. specialize (HT _ Hin). simpl in HT. destruct HT as (d' & Hl' & Hn').
        exists d'. split; [now apply lookup_app_old|auto].
Qed.

Lemma declare_inv p d : WF p -> WF (declare p d).
Proof.
  intros H. unfold declare. destruct (add_parameter p (fst d) (snd d)) eqn:E; simpl.
  - eapply add_inv; eauto.
  - apply reject_unchanged in E. destruct E as (-> & _). exact H.
Qed.
Lemma fold_declare_inv ds p : WF p -> WF (fold_left declare ds p).
Proof. revert p; induction ds as [|d ds IH]; simpl; intros p H; auto. apply IH. now apply declare_inv. Qed.
Theorem run_decls_WF ds : WF (run_decls ds).
Proof. apply fold_declare_inv, WF_empty. Qed.

(* ---- dimensionality = number of accepted free declarations ---- *)
Definition accepted_free (p : prior) (d : decl) : nat :=
  match add_parameter p (fst d) (snd d), snd d with Ok _, RFree _ => 1 | _, _ => 0 end.
Fixpoint count_accepted_free (p : prior) (ds : list decl) : nat :=
  match ds with [] => 0 | d :: r => accepted_free p d + count_accepted_free (declare p d) r end.
Lemma filter_snoc {A} (f : A -> bool) l x : filter f (l ++ [x]) = filter f l ++ (if f x then [x] else []).
Proof. induction l; simpl; [destruct (f x); auto|]. destruct (f a); simpl; now rewrite IHl. Qed.
Lemma dim_declare p d : dimensionality (declare p d) = dimensionality p + accepted_free p d.
Proof.
  unfold declare, accepted_free. destruct (add_parameter p (fst d) (snd d)) eqn:E; simpl.
  - destruct (accept_shape _ _ _ _ E) as (k & dd & _ & _ & _ & Ed & Hd).
    unfold dimensionality. rewrite Ed, filter_snoc, app_length.
    destruct (snd d) as [f|v|t|]; try contradiction; subst; simpl; try lia.
    destruct Hd as (dt & _ & Hd). destruct dt; subst; simpl; lia.
  - apply reject_unchanged in E. destruct E as (-> & _). lia.
Qed.
Lemma dim_fold ds p : dimensionality (fold_left declare ds p) = dimensionality p + count_accepted_free p ds.
Proof.
  revert p; induction ds as [|d ds IH]; simpl; intros p; [lia|]. rewrite IH, dim_declare. lia.
Qed.
Theorem dim_run ds : dimensionality (run_decls ds) = count_accepted_free empty ds.
Proof. unfold run_decls. rewrite dim_fold. reflexivity. Qed.

(* ---- unit_to_physical: coordinate i is isf_i (1 - u_i), in declaration order, shape preserved ---- *)
Section Sem.
Variable isf : free -> Q -> Q.
Fixpoint zipf (fs : list free) (u : list Q) : list Q :=
  match fs, u with f :: fs', x :: u' => isf f (1 - x) :: zipf fs' u' | _, _ => [] end.
Lemma u2p_zip ds u : u2p_go isf ds u = zipf (frees ds) u.
Proof.
  revert u; induction ds as [|[f|v|t] ds IH]; intros u; simpl; auto.
  destruct u; simpl; auto. now rewrite IH.
Qed.
Lemma frees_length ds : length (frees ds) = length (filter is_free ds).
Proof. induction ds as [|[f|v|t] ds IH]; simpl; auto. Qed.
Lemma zipf_length fs u : length fs = length u -> length (zipf fs u) = length u.
Proof. revert u; induction fs; intros [|x u]; simpl; intros H; try discriminate; auto. Qed.
Lemma zipf_nth fs u i f x : nth_error fs i = Some f -> nth_error u i = Some x -> nth_error (zipf fs u) i = Some (isf f (1 - x)).
Proof.
  revert u i; induction fs as [|f0 fs IH]; intros [|x0 u] [|i]; simpl; intros H1 H2; try discriminate.
  - inversion H1; inversion H2; subst; auto.
  - eauto.
Qed.
Theorem physical_spec p u ph : unit_to_physical isf p u = Some ph ->
  length ph = length u /\ length u = dimensionality p /\
  forall i f x, nth_error (frees (dists p)) i = Some f -> nth_error u i = Some x -> nth_error ph i = Some (isf f (1 - x)).
Proof.
  unfold unit_to_physical. destruct (Nat.eqb _ _) eqn:E; [|discriminate]. apply Nat.eqb_eq in E.
  intros H; inversion H; subst; clear H. rewrite u2p_zip. repeat split; auto.
  - apply zipf_length. rewrite frees_length. exact E.
  - intros. now apply zipf_nth.
Qed.
Theorem physical_total p u : length u = dimensionality p -> exists ph, unit_to_physical isf p u = Some ph.
Proof. intros H. unfold unit_to_physical. rewrite H, Nat.eqb_refl. eauto. Qed.
Theorem physical_mismatch p u : length u <> dimensionality p -> unit_to_physical isf p u = None.
Proof. intros H. unfold unit_to_physical. destruct (Nat.eqb _ _) eqn:E; auto. apply Nat.eqb_eq in E. congruence. Qed.
(* monotone when the oracle is antitone, as an inverse survival function is *)
Theorem physical_monotone f x y : (forall a b, a <= b -> isf f b <= isf f a)%Q -> (x <= y)%Q -> (isf f (1 - x) <= isf f (1 - y))%Q.
Proof. intros Hm Hxy. apply Hm. unfold Qminus. apply Qplus_le_r. now apply Qopp_le_compat. Qed.
(* (n,d) input: row by row *)
Theorem physical_rows p us phs : unit_to_physical_rows isf p us = Some phs ->
  length phs = length us /\ forall i u ph, nth_error us i = Some u -> nth_error phs i = Some ph -> unit_to_physical isf p u = Some ph.
Proof.
  unfold unit_to_physical_rows. revert phs; induction us as [|u us IH]; simpl; intros phs H.
  - inversion H; subst. split; auto. intros [|i]; discriminate.
  - destruct (unit_to_physical isf p u) eqn:E1; [|discriminate]. destruct (mapM _ us) eqn:E2; [|discriminate].
    inversion H; subst; clear H. destruct (IH _ eq_refl) as (HL & Hn). split; [simpl; lia|].
    intros [|i] u' ph'; simpl; intros H1 H2.
    + inversion H1; inversion H2; subst; auto.
    + eauto.
Qed.

(* ---- dictionary ---- *)
Fixpoint count_free (ds : list dist) : nat := match ds with [] => 0 | DFree _ :: r => S (count_free r) | _ :: r => count_free r end.
Lemma count_free_dim ds : count_free ds = length (filter is_free ds).
Proof. induction ds as [|[f|v|t] ds IH]; simpl; auto. Qed.

Lemma dget_app k a b : dget k (a ++ b) = match dget k a with Some v => Some v | None => dget k b end.
Proof. induction a as [|[k' v] a IH]; simpl; auto. destruct (kid_eqb k k'); auto. Qed.
Lemma dget_notin k d : ~ In k (map fst d) -> dget k d = None.
Proof.
  induction d as [|[k' v] d IH]; simpl; auto. intros H.
  rewrite kid_eqb_neq by (intros ->; apply H; auto). apply IH. tauto.
Qed.
Lemma pass1_keys ks ds ph k : In k (map fst (pass1 ks ds ph)) -> In k ks.
Proof.
  revert ds ph; induction ks as [|k0 ks IH]; intros [|[f|v|t] ds] ph; simpl; try tauto.
  - destruct ph; simpl; try tauto. intros [H|H]; eauto.
  - intros [H|H]; eauto.
  - eauto.
Qed.

(* value of the j-th declared key in pass 1 *)
Lemma pass1_spec ks ds ph : length ks = length ds -> count_free ds <= length ph -> NoDup ks ->
  forall j k d, nth_error ks j = Some k -> nth_error ds j = Some d ->
    dget k (pass1 ks ds ph) =
    match d with DFree _ => nth_error ph (count_free (firstn j ds)) | DFixed v => Some v | DLink _ => None end.
Proof.
  revert ds ph; induction ks as [|k0 ks IH]; intros [|d0 ds] ph HL Hc HN j k d Hk Hd; simpl in *; try discriminate.
  - destruct j; discriminate.
  - inversion HN as [|? ? Hnin HN']; subst.
    destruct j as [|j]; simpl in *.
    + inversion Hk; inversion Hd; subst. destruct d as [f|v|t]; simpl.
      * destruct ph; simpl in *; [lia|]. now rewrite kid_eqb_refl.
      * now rewrite kid_eqb_refl.
      * apply dget_notin. intros H. apply pass1_keys in H. contradiction.
    + assert (Hne : k <> k0) by (intros ->; apply Hnin; eapply nth_error_In; eauto).
      destruct d0 as [f0|v0|t0]; simpl in *.
      * destruct ph as [|x ph]; simpl in *; [lia|]. rewrite kid_eqb_neq by auto.
        rewrite (IH ds ph) with (j := j) (d := d); auto; try lia.
      * rewrite kid_eqb_neq by auto. rewrite (IH ds ph) with (j := j) (d := d); auto; try lia.
      * rewrite (IH ds ph) with (j := j) (d := d); auto; try lia.
Qed.

Lemma pass2_keys ks ds d1 d2 k : pass2 ks ds d1 = Some d2 -> In k (map fst d2) -> In k ks.
Proof.
  revert ds d2; induction ks as [|k0 ks IH]; intros [|d0 ds] d2; simpl; intros H; try (inversion H; subst; simpl; tauto).
  destruct d0 as [f|v|t]; try (intros Hin; right; eapply IH; eauto; fail).
  destruct (dget t d1); [|discriminate]. destruct (pass2 ks ds d1) eqn:E; [|discriminate].
  inversion H; subst; simpl. intros [Hin|Hin]; auto. right; eapply IH; eauto.
Qed.
Lemma pass2_spec ks ds d1 d2 : pass2 ks ds d1 = Some d2 -> NoDup ks ->
  forall j k d, nth_error ks j = Some k -> nth_error ds j = Some d ->
    dget k d2 = match d with DLink t => dget t d1 | _ => None end.
Proof.
  revert ds d2; induction ks as [|k0 ks IH]; intros [|d0 ds] d2 H HN j k d Hk Hd; simpl in *;
    try (destruct j; discriminate).
  inversion HN as [|? ? Hnin HN']; subst.
  destruct j as [|j]; simpl in *.
  - inversion Hk; inversion Hd; subst. destruct d as [f|v|t].
    + apply dget_notin. intros Hin. eapply pass2_keys in Hin; eauto.
    + apply dget_notin. intros Hin. eapply pass2_keys in Hin; eauto.
    + destruct (dget t d1) eqn:Eg; [|discriminate]. destruct (pass2 ks ds d1); [|discriminate].
      inversion H; subst; simpl. now rewrite kid_eqb_refl.
  - assert (Hne : k <> k0) by (intros ->; apply Hnin; eapply nth_error_In; eauto).
    destruct d0 as [f0|v0|t0]; try (eapply IH; eauto; fail).
    destruct (dget t0 d1); [|discriminate]. destruct (pass2 ks ds d1) eqn:E; [|discriminate].
    inversion H; subst; simpl. rewrite kid_eqb_neq by auto. eapply IH; eauto.
Qed.
Lemma pass2_total ks ds d1 : (forall j t, nth_error ds j = Some (DLink t) -> j < length ks -> exists v, dget t d1 = Some v) ->
  exists d2, pass2 ks ds d1 = Some d2.
Proof.
  revert ds; induction ks as [|k0 ks IH]; intros [|d0 ds] H; simpl; eauto.
  assert (H' : forall j t, nth_error ds j = Some (DLink t) -> j < length ks -> exists v, dget t d1 = Some v).
  { intros j t Hj Hlt. apply (H (S j) t); simpl; auto; lia. }
  destruct (IH ds H') as (d2 & E). rewrite E.
  destruct d0 as [f|v|t]; eauto.
  destruct (H 0 t eq_refl) as (v & Ev); [simpl; lia|]. rewrite Ev. eauto.
Qed.

Lemma lookup_nth t ks ds d : lookup t ks ds = Some d -> exists j, nth_error ks j = Some t /\ nth_error ds j = Some d.
Proof.
  revert ds; induction ks as [|k0 ks IH]; intros [|d0 ds] H; simpl in *; try discriminate.
  destruct (kid_eqb t k0) eqn:E.
  - apply kid_eqb_eq in E. inversion H; subst. exists 0; auto.
  - destruct (IH _ H) as (j & H1 & H2). exists (S j); auto.
Qed.
Lemma nth_lookup ks ds j k d : NoDup ks -> nth_error ks j = Some k -> nth_error ds j = Some d -> lookup k ks ds = Some d.
Proof.
  revert ds j; induction ks as [|k0 ks IH]; intros [|d0 ds] [|j] HN Hk Hd; simpl in *; try discriminate.
  - inversion Hk; inversion Hd; subst. now rewrite kid_eqb_refl.
  - inversion HN; subst. rewrite kid_eqb_neq; [eauto|]. intros ->. eapply nth_error_In in Hk. contradiction.
Qed.
Lemma count_free_firstn_lt ds j f : nth_error ds j = Some (DFree f) -> count_free (firstn j ds) < count_free ds.
Proof.
  revert j; induction ds as [|d0 ds IH]; intros [|j] H; simpl in *; try discriminate.
  - inversion H; subst. lia.
  - specialize (IH _ H). destruct d0; simpl; lia.
Qed.

(* the reference value of the j-th declared key *)
Definition value1 (p : prior) (ph : list Q) (j : nat) : option Q :=
  match nth_error (dists p) j with
  | Some (DFree _) => nth_error ph (count_free (firstn j (dists p)))
  | Some (DFixed v) => Some v
  | _ => None
  end.

Theorem dictionary_spec p ph : WF p -> length ph = dimensionality p -> 0 < dimensionality p ->
  exists d, physical_to_dictionary p ph = Some d /\
    Permutation (map fst d) (keys p) /\
    forall j k dj, nth_error (keys p) j = Some k -> nth_error (dists p) j = Some dj ->
      match dj with
      | DFree _ => exists x, nth_error ph (count_free (firstn j (dists p))) = Some x /\ dget k d = Some x
      | DFixed v => dget k d = Some v
      | DLink t => exists jt dt v, nth_error (keys p) jt = Some t /\ nth_error (dists p) jt = Some dt /\
                   (forall t', dt <> DLink t') /\ value1 p ph jt = Some v /\ dget t d = Some v /\ dget k d = Some v
      end.
Proof.
  intros (HL & HN & HT) Hph Hpos. unfold physical_to_dictionary. rewrite Hph, Nat.eqb_refl.
  replace (Nat.eqb (dimensionality p) 0) with false by (symmetry; apply Nat.eqb_neq; lia). cbn [andb].
  set (d1 := pass1 (keys p) (dists p) ph).
  assert (Hc : count_free (dists p) <= length ph) by (rewrite count_free_dim, Hph; unfold dimensionality; lia).
  pose proof (pass1_spec (keys p) (dists p) ph HL Hc HN) as S1. fold d1 in S1.
  (* every non-link key has a value in pass 1 *)
  assert (V1 : forall j k dj, nth_error (keys p) j = Some k -> nth_error (dists p) j = Some dj -> (forall t', dj <> DLink t') ->
               exists v, dget k d1 = Some v /\ value1 p ph j = Some v).
  { intros j k dj Hk Hd Hn. rewrite (S1 j k dj Hk Hd). unfold value1. rewrite Hd. destruct dj as [f|v|t].
    - pose proof (count_free_firstn_lt _ _ _ Hd) as Hlt.
      destruct (nth_error ph (count_free (firstn j (dists p)))) eqn:E; eauto.
      apply nth_error_None in E. lia.
    - eauto.
    - exfalso. eapply Hn; eauto. }
  assert (T2 : exists d2, pass2 (keys p) (dists p) d1 = Some d2).
  { apply pass2_total. intros j t Hj _. rewrite Forall_forall in HT. specialize (HT _ (nth_error_In _ _ Hj)). simpl in HT.
    destruct HT as (d' & Hl & Hn). destruct (lookup_nth _ _ _ _ Hl) as (jt & Hk & Hd).
    destruct (V1 jt t d' Hk Hd Hn) as (v & Hv & _). eauto. }
  destruct T2 as (d2 & E2). rewrite E2. exists (d1 ++ d2). split; [reflexivity|].
  pose proof (pass2_spec _ _ _ _ E2 HN) as S2.
  split.
  - (* key set *)
    rewrite map_app. clear S1 S2 V1 HT.
    assert (G : forall ks ds ph0 d2', length ks = length ds -> count_free ds <= length ph0 ->
                pass2 ks ds d1 = Some d2' -> Permutation (map fst (pass1 ks ds ph0) ++ map fst d2') ks).
    { induction ks as [|k0 ks IH]; intros [|d0 ds] ph0 d2' HL' Hc' E; simpl in *; try discriminate.
      - inversion E; subst. constructor.
      - destruct d0 as [f|v|t]; simpl in *.
        + destruct ph0 as [|x ph0]; simpl in *; [lia|]. constructor. apply IH; auto; lia.
        + constructor. apply IH; auto; lia.
        + destruct (dget t d1); [|discriminate]. destruct (pass2 ks ds d1) eqn:E'; [|discriminate].
          inversion E; subst; simpl. apply Permutation_sym, Permutation_cons_app, Permutation_sym. apply IH; auto; lia. }
    apply G; auto.
  - intros j k dj Hk Hd. rewrite dget_app. destruct dj as [f|v|t].
    + destruct (V1 j k _ Hk Hd) as (x & Hx & Hv); [intros t'; discriminate|].
      unfold value1 in Hv. rewrite Hd in Hv. exists x. rewrite Hx. auto.
    + rewrite (S1 j k _ Hk Hd). reflexivity.
    + rewrite (S1 j k _ Hk Hd). rewrite (S2 j k _ Hk Hd).
      rewrite Forall_forall in HT. specialize (HT _ (nth_error_In _ _ Hd)). simpl in HT.
      destruct HT as (d' & Hl & Hn). destruct (lookup_nth _ _ _ _ Hl) as (jt & Hkt & Hdt).
      destruct (V1 jt t d' Hkt Hdt Hn) as (v & Hv & Hval).
      exists jt, d', v. rewrite dget_app, Hv. repeat split; auto.
Qed.
Theorem dictionary_mismatch p ph : length ph <> dimensionality p -> physical_to_dictionary p ph = None.
Proof. intros H. unfold physical_to_dictionary. destruct (Nat.eqb _ _) eqn:E; auto. apply Nat.eqb_eq in E. congruence. Qed.
End Sem.

(* ---- malformed declarations are rejected with the documented exception ---- *)
Theorem reject_bad_key p rd : add_parameter p KBad rd = Err p TypeErr.
Proof. reflexivity. Qed.
Theorem reject_duplicate p k rd : In k (keys p) -> add_parameter p (KStr k) rd = Err p ValueErr.
Proof. intros H. unfold add_parameter. apply memk_In in H. now rewrite H. Qed.
Theorem reject_auto_collision p rd : In (Auto (length (keys p))) (keys p) -> add_parameter p KNone rd = Err p ValueErr.
Proof. intros H. unfold add_parameter. apply memk_In in H. now rewrite H. Qed.
Theorem reject_bad_dist p rk k : the_key p rk = Some k -> ~ In k (keys p) -> add_parameter p rk RBad = Err p TypeErr.
Proof.
  intros Hk Hn. unfold add_parameter, the_key in *. destruct rk; inversion Hk; subst;
  (destruct (memk _ _) eqn:E; [apply memk_In in E; contradiction|reflexivity]).
Qed.
Theorem reject_undeclared_link p rk k t : WF p -> the_key p rk = Some k -> ~ In k (keys p) -> ~ In t (keys p) ->
  add_parameter p rk (RLink t) = Err p ValueErr.
Proof.
  intros (HL & _) Hk Hn Ht. unfold add_parameter, the_key in *.
  assert (E : lookup t (keys p) (dists p) = None).
  { destruct (lookup t (keys p) (dists p)) eqn:E; auto. apply lookup_In in E. tauto. }
  destruct rk; inversion Hk; subst; (destruct (memk _ _) eqn:Em; [apply memk_In in Em; contradiction|now rewrite E]).
Qed.
(* a self link is an undeclared link: the key being declared is not a key yet *)
Theorem reject_self_link p rk k : WF p -> the_key p rk = Some k -> add_parameter p rk (RLink k) = Err p ValueErr.
Proof.
  intros H Hk. destruct (memk k (keys p)) eqn:Em.
  - unfold add_parameter, the_key in *. destruct rk; inversion Hk; subst; now rewrite Em.
  - apply (reject_undeclared_link p rk k k); auto; intros Hin; apply memk_In in Hin; congruence.
Qed.
