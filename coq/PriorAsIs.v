From Coq Require Import List Arith NArith ZArith QArith Bool Lia.
(* Frozen model of add_parameter as it was BEFORE the repair (commit 407a2d5 in /repo): kept as a regression witness. *)
Import ListNotations.
Require Import NV.PriorModel.

(* the UNCHANGED add_parameter: the key is appended before the distribution is validated, auto keys are not checked.
   An exception leaves a (possibly modified) prior behind, so the result carries the state in both cases. *)
Definition add_asis (p : prior) (rk : rawkey) (rd : rawdist) : res :=
  match rk with
  | KBad => Err p TypeErr
  | _ =>
    let ok := match rk with KNone => Some (Auto (length (keys p))) | KStr k => if memk k (keys p) then None else Some k | KBad => None end in
    match ok with
    | None => Err p ValueErr
    | Some k =>
      let p1 := mkP (keys p ++ [k]) (dists p) in
      match rd with
      | RBad => Err p1 TypeErr
      | RFree f => Ok (mkP (keys p1) (dists p ++ [DFree f]))
      | RFixed v => Ok (mkP (keys p1) (dists p ++ [DFixed v]))
      | RLink t =>
        (* `dist not in self.keys or dist == str(key)`; the key was already appended, so a self link is "in keys" and caught by the second test *)
        if negb (memk t (keys p1)) || (match rk with KStr k0 => kid_eqb t k0 | _ => false end) then Err p1 ValueErr else
        match lookup t (keys p) (dists p) with
        | Some (DLink t') => Ok (mkP (keys p1) (dists p ++ [DLink t']))
        | Some _ => Ok (mkP (keys p1) (dists p ++ [DLink t]))
        | None => Err p1 IndexErr      (* self link through an automatic key, or misaligned lists after an earlier rejection *)
        end
      end
    end
  end.

(* the property fails on the as-is model: a rejected declaration changes the prior *)
Example C15_asis_reject_refuted : exists p rk rd p' e, add_asis p rk rd = Err p' e /\ p' <> p.
Proof.
  exists (mkP [Named 1] [DFree (FUniform 0 1)]), (KStr (Named 2)), (RLink (Named 9)).
  eexists. eexists. split; [vm_compute; reflexivity|]. intros H. discriminate.
Qed.
(* and a key can appear twice: declare "x_1" by name, then ask for an automatic key *)
Example C15_asis_dup_refuted : exists p rk rd p', add_asis p rk rd = Ok p' /\ ~ NoDup (keys p').
Proof.
  exists (mkP [Auto 1] [DFree (FUniform 0 1)]), KNone, (RFixed 3). eexists. split; [vm_compute; reflexivity|].
  intros H. inversion H; subst. apply H2. now left.
Qed.
