From Coq Require Import List Arith NArith ZArith Bool Lia PeanoNat.
Import ListNotations.
Require Import NV.Base.

Definition pid := positive. Definition bid := positive. Definition vid := positive.

Record shell := mkShell { bnd : bid; pts : list pid; lls : list vid; bls : list vid;
                          nsample : nat; nsample_exp : nat; end_exp : nat }.
Record st := mkSt { shells : list shell;
                    t_pts : list pid; t_lls : list vid; t_bls : list vid; t_from : list (option nat);
                    n_like : nat; explored : bool; discard : bool }.
Record round := mkRound { r_props : list pid; r_replaced : list pid; r_used : list nat }.

Inductive event :=
| EvAddBoundOk (b : bid)
| EvAddBoundFail
| EvAddSamples (idx : option nat) (rounds : list round) (vals : list (vid * vid))
| EvEndExploration (disc : bool)
| EvSetDiscard (d : bool).

Definition opt_nat_eqb (a b : option nat) : bool :=
  match a, b with Some x, Some y => Nat.eqb x y | None, None => true | _, _ => false end.
Definition memb (p : pid) (l : list pid) : bool := existsb (Pos.eqb p) l.
Fixpoint nodupb_nat (l : list nat) : bool :=
  match l with [] => true | x :: r => negb (existsb (Nat.eqb x) r) && nodupb_nat r end.
Fixpoint nodupb (l : list pid) : bool :=
  match l with [] => true | x :: r => negb (memb x r) && nodupb r end.
Fixpoint mapM {A B} (f : A -> option B) (l : list A) : option (list B) :=
  match l with [] => Some [] | x :: r =>
    match f x, mapM f r with Some y, Some ys => Some (y :: ys) | _, _ => None end end.
Fixpoint set_nth {A} (i : nat) (v : A) (l : list A) : list A :=
  match l, i with [] , _ => [] | _ :: r, O => v :: r | x :: r, S j => x :: set_nth j v r end.
Fixpoint upd_nth {A} (i : nat) (f : A -> A) (l : list A) : list A :=
  match l, i with [], _ => [] | x :: r, O => f x :: r | x :: r, S j => x :: upd_nth j f r end.
Definition is_some {A} (o : option A) : bool := match o with Some _ => true | None => false end.
Fixpoint vals_eqb (a b : list (vid * vid)) : bool :=
  match a, b with
  | [], [] => true
  | (x1, y1) :: a', (x2, y2) :: b' => Pos.eqb x1 x2 && Pos.eqb y1 y2 && vals_eqb a' b'
  | _, _ => false
  end.

Section Model.
Variable contains : bid -> pid -> bool.
Variable in_cube : pid -> bool.
Variable lik blob : pid -> vid.          (* the user's pure likelihood and blob, as functions of the unit-cube point *)
Variable n_batch : nat.

Definition later_free (later : list shell) (p : pid) : bool :=
  forallb (fun sh => negb (contains (bnd sh) p)) later.
Fixpoint assoc_from (i : nat) (shs : list shell) (p : pid) (acc : option nat) : option nat :=
  match shs with [] => acc | sh :: r => assoc_from (S i) r p (if contains (bnd sh) p then Some i else acc) end.
Definition assoc (shs : list shell) (p : pid) : option nat := assoc_from 0 shs p None.

Definition all_pts (s : st) : list pid := concat (map pts (shells s)).
Definition live_cands (s : st) : list pid :=
  map fst (filter (fun pf => is_some (snd pf)) (combine (t_pts s) (t_from s))).

(* ---- add_bound ---- *)
Fixpoint ab_go (b : bid) (i : nat) (shs : list shell)
  : list shell * (list pid * list vid * list vid * list (option nat)) :=
  match shs with
  | [] => ([], ([], [], [], []))
  | sh :: r =>
    let m := map (contains b) (pts sh) in
    let nm := map negb m in
    let sh' := mkShell (bnd sh) (fmask nm (pts sh)) (fmask nm (lls sh)) (fmask nm (bls sh))
                       (nsample sh) (nsample_exp sh) (end_exp sh) in
    let tp := fmask m (pts sh) in
    let '(r', (ps, ls, bs, fs)) := ab_go b (S i) r in
    (sh' :: r', (tp ++ ps, fmask m (lls sh) ++ ls, fmask m (bls sh) ++ bs, repeat (Some i) (length tp) ++ fs))
  end.
Definition new_shell (b : bid) := mkShell b [] [] [] 0 0 0.
Definition add_bound (b : bid) (s : st) : option st :=
  if explored s then None else
  if existsb (fun sh => Pos.eqb (bnd sh) b) (shells s) then None else        (* a new bound object *)
  match shells s with
  | [] => Some (mkSt [new_shell b] [] [] [] [] (n_like s) false (discard s))
  | _ =>
    let '(shs', (ps, ls, bs, fs)) := ab_go b 0 (shells s) in
    Some (mkSt (shs' ++ [new_shell b]) ps ls bs fs (n_like s) false (discard s))
  end.

(* ---- sample_shell ---- *)
Record acc := mkAcc { a_kept : list pid; a_from : list (option nat); a_used : list nat; a_nbound : nat }.
Definition count_from (s : nat) (from : list (option nat)) : nat :=
  length (filter (fun o => opt_nat_eqb o (Some s)) from).

Definition check_transfer (prov : list shell) (from : list (option nat)) (insh : list pid) (r : round)
  : option (list (option nat)) :=
  if forallb (fun s =>
        let n1 := count_from s from in
        let n2 := length (filter (fun p => opt_nat_eqb (assoc prov p) (Some s)) insh) in
        let n := Nat.min n1 n2 in
        let used_s := filter (fun i => opt_nat_eqb (nth i from None) (Some s)) (r_used r) in
        let repl_s := filter (fun p => opt_nat_eqb (assoc prov p) (Some s)) (r_replaced r) in
        Nat.eqb (length used_s) n && Nat.eqb (length repl_s) n) (seq 0 (length prov))
     && Nat.eqb (length (r_used r)) (length (r_replaced r))
     && nodupb_nat (r_used r)
     && forallb (fun i => Nat.ltb i (length from) && is_some (nth i from None)) (r_used r)
     && nodupb (r_replaced r)
     && forallb (fun p => memb p insh) (r_replaced r)
  then Some (fold_left (fun f i => set_nth i None f) (r_used r) from) else None.

Fixpoint do_rounds (known : list pid) (b : bid) (later prov : list shell) (tmode : bool) (rounds : list round) (a : acc)
  : option acc :=
  match rounds with
  | [] => if Nat.eqb (length (a_kept a)) n_batch then Some a else None
  | r :: rs =>
    let req := n_batch - length (a_kept a) in
    if Nat.eqb req 0 then None else
    if negb (Nat.eqb (length (r_props r)) req) then None else
    if negb (forallb (fun p => in_cube p && contains b p) (r_props r)) then None else
    if negb (nodupb (r_props r) && forallb (fun p => negb (memb p known) && negb (memb p (a_kept a))) (r_props r)) then None else
    let insh := filter (later_free later) (r_props r) in
    let ofrom := if tmode then check_transfer prov (a_from a) insh r
                 else match r_used r, r_replaced r with [], [] => Some (a_from a) | _, _ => None end in
    match ofrom with
    | None => None
    | Some from' =>
      let kept_r := filter (fun p => negb (memb p (r_replaced r))) insh in
      if negb (Nat.leb (length kept_r + length (r_used r)) req) then None else
      do_rounds known b later prov tmode rs
        (mkAcc (a_kept a ++ kept_r) from' (a_used a ++ r_used r) (a_nbound a + req))
    end
  end.

Definition add_samples (idx : option nat) (rounds : list round) (vals : list (vid * vid)) (s : st) : option st :=
  match length (shells s) with O => None | S nm1 =>
  let i := match idx with None => nm1 | Some i => i end in
  if (match idx with None => explored s | Some _ => negb (explored s) end) then None else
  match nth_error (shells s) i with None => None | Some sh =>
  let later := skipn (S i) (shells s) in
  let tmode := match idx with None => negb (Nat.eqb (length (t_from s)) 0) | Some _ => false end in
  match do_rounds (all_pts s ++ t_pts s) (bnd sh) later (firstn nm1 (shells s)) tmode rounds (mkAcc [] (t_from s) [] 0) with
  | None => None
  | Some a =>
    if negb (vals_eqb vals (map (fun p => (lik p, blob p)) (a_kept a))) then None else
    let otr := match idx with
               | None => match mapM (fun j => nth_error (t_pts s) j) (a_used a),
                               mapM (fun j => nth_error (t_lls s) j) (a_used a),
                               mapM (fun j => nth_error (t_bls s) j) (a_used a) with
                         | Some tp, Some tl, Some tb => Some (tp, tl, tb) | _, _, _ => None end
               | Some _ => match a_used a with [] => Some ([], [], []) | _ => None end
               end in
    match otr with
    | Some (tp, tl, tb) =>
      let shs2 := upd_nth i (fun l => mkShell (bnd l) (pts l ++ (tp ++ a_kept a)) (lls l ++ (tl ++ map fst vals))
                                               (bls l ++ (tb ++ map snd vals))
                                               (nsample l + a_nbound a) (nsample_exp l) (end_exp l)) (shells s) in
      Some (mkSt shs2 (t_pts s) (t_lls s) (t_bls s) (a_from a) (n_like s + length (a_kept a)) (explored s) (discard s))
    | None => None
    end
  end end end.

Definition end_exploration (disc : bool) (s : st) : option st :=
  if explored s then None else
  let keep := filter (fun sh => negb (Nat.eqb (length (pts sh)) 0)) (shells s) in
  Some (mkSt (map (fun sh => mkShell (bnd sh) (pts sh) (lls sh) (bls sh) (nsample sh) (nsample sh) (length (pts sh))) keep)
             (t_pts s) (t_lls s) (t_bls s) (t_from s) (n_like s) true disc).

Definition set_discard (d : bool) (s : st) : option st :=
  Some (mkSt (shells s) (t_pts s) (t_lls s) (t_bls s) (t_from s) (n_like s) (explored s) d).

Definition step (s : st) (e : event) : option st :=
  match e with
  | EvAddBoundOk b => add_bound b s
  | EvAddBoundFail => if explored s then None else Some s
  | EvAddSamples idx rounds vals => add_samples idx rounds vals s
  | EvEndExploration d => end_exploration d s
  | EvSetDiscard d => set_discard d s
  end.
Fixpoint run (s : st) (evs : list event) : option st :=
  match evs with [] => Some s | e :: r => match step s e with Some s' => run s' r | None => None end end.
Definition init : st := mkSt [] [] [] [] [] 0 false false.

(* the view: which rows and how many proposals count *)
Definition vstart (s : st) (sh : shell) : nat := if discard s && explored s then end_exp sh else 0.
Definition view_n (s : st) (sh : shell) : nat := length (pts sh) - vstart s sh.
Definition view_ns (s : st) (sh : shell) : nat := nsample sh - (if discard s && explored s then nsample_exp sh else 0).
End Model.
