(* Derived statements of the shell-machine invariants in the form the properties are worded. *)
From Coq Require Import List Arith NArith ZArith Bool Lia PeanoNat.
Import ListNotations.
Require Import NV.Base NV.Shell2 NV.Shell2Inv NV.Shell2Part NV.Shell2Uniq NV.Shell2Count.

Section Thm.
Variable contains : bid -> pid -> bool.
Variable in_cube : pid -> bool.
Variable lik blob : pid -> vid.
Variable n_batch : nat.
Notation step := (step contains in_cube lik blob n_batch).
Notation run := (run contains in_cube lik blob n_batch).
Notation PartL := (PartL contains in_cube).

Lemma run_invP : forall evs s0 s, InvP contains in_cube s0 -> run s0 evs = Some s -> InvP contains in_cube s.
Proof.
  induction evs as [|e evs IH]; simpl; intros s0 s H E; [inversion E; subst; auto|].
  destruct (step s0 e) eqn:Es; [|discriminate]. eapply IH; [|eauto]. eapply step_invP; eauto.
Qed.
Lemma init_invP : InvP contains in_cube init.
Proof. split; simpl; auto. intros _ b H. discriminate. Qed.
Lemma run_uniq : forall evs s0 s, Uniq s0 -> run s0 evs = Some s -> Uniq s.
Proof.
  induction evs as [|e evs IH]; simpl; intros s0 s H E; [inversion E; subst; auto|].
  destruct (step s0 e) eqn:Es; [|discriminate]. eapply IH; [|eauto]. eapply step_uniq; eauto.
Qed.
Lemma init_uniq : Uniq init.
Proof. repeat split; simpl; auto; try constructor. intros i p H; destruct i; discriminate. Qed.

(* the partition in index form *)
Lemma PartL_nth l : PartL l -> forall i sh p, nth_error l i = Some sh -> In p (pts sh) ->
  in_cube p = true /\ contains (bnd sh) p = true /\
  forall k sh', i < k -> nth_error l k = Some sh' -> contains (bnd sh') p = false.
Proof.
  induction l as [|a l IH]; intros HP i sh p Hn Hin; [destruct i; discriminate|].
  destruct HP as [Ha HP]. destruct i as [|i]; simpl in Hn.
  - inversion Hn; subst. destruct (Ha p Hin) as (H1 & H2 & H3). repeat split; auto.
    intros k sh' Hk Hn'. destruct k as [|k]; [lia|]. simpl in Hn'.
    rewrite Forall_forall in H3. apply H3. apply in_map. eapply nth_error_In; eauto.
  - destruct (IH HP i sh p Hn Hin) as (H1 & H2 & H3). repeat split; auto.
    intros k sh' Hk Hn'. destruct k as [|k]; [lia|]. simpl in Hn'. apply (H3 k sh'); auto. lia.
Qed.

Theorem partition_nth evs s : run init evs = Some s -> forall i sh p, nth_error (shells s) i = Some sh -> In p (pts sh) ->
  in_cube p = true /\ contains (bnd sh) p = true /\
  forall k sh', i < k -> nth_error (shells s) k = Some sh' -> contains (bnd sh') p = false.
Proof. intros E. apply PartL_nth. eapply C01_partition; eauto. Qed.

(* shell association (the last bound containing the point) of a stored point is its own shell *)
Lemma assoc_from_none shs : forall i0 p acc,
  (forall k sh', nth_error shs k = Some sh' -> contains (bnd sh') p = false) -> assoc_from contains i0 shs p acc = acc.
Proof.
  induction shs as [|sh r IH]; intros i0 p acc H; simpl; auto.
  rewrite (H 0 sh eq_refl). apply IH. intros k sh' Hk. apply (H (S k) sh' Hk).
Qed.
Lemma assoc_from_last shs : forall j i0 p acc sh, nth_error shs j = Some sh -> contains (bnd sh) p = true ->
  (forall k sh', j < k -> nth_error shs k = Some sh' -> contains (bnd sh') p = false) ->
  assoc_from contains i0 shs p acc = Some (i0 + j).
Proof.
  induction shs as [|a r IH]; intros j i0 p acc sh Hn Hc Hl; [destruct j; discriminate|].
  destruct j as [|j]; simpl in *.
  - inversion Hn; subst. rewrite Hc. rewrite assoc_from_none; [f_equal; lia|].
    intros k sh' Hk. apply (Hl (S k) sh'); [lia|exact Hk].
  - rewrite (IH j (S i0) p _ sh Hn Hc); [f_equal; lia|]. intros k sh' Hk Hn'. apply (Hl (S k) sh'); [lia|exact Hn'].
Qed.

Theorem assoc_own evs s : run init evs = Some s -> forall i sh p, nth_error (shells s) i = Some sh -> In p (pts sh) ->
  assoc contains (shells s) p = Some i.
Proof.
  intros E i sh p Hn Hin. destruct (partition_nth evs s E i sh p Hn Hin) as (_ & Hc & Hl).
  unfold assoc. rewrite (assoc_from_last (shells s) i 0 p None sh Hn Hc Hl). reflexivity.
Qed.

(* no point is stored twice, in the same or in two different shells *)
Theorem stored_once evs s : run init evs = Some s -> NoDup (concat (map pts (shells s))).
Proof. apply C03_once. Qed.

(* transfer candidates not yet used are in no shell (limbo); before the end of exploration they lie in the cube and in the newest bound *)
Theorem limbo evs s : run init evs = Some s ->
  (forall i p sh0, nth_error (t_pts s) i = Some p -> nth_error (t_from s) i = Some (Some sh0) -> ~ In p (concat (map pts (shells s)))) /\ (explored s = false -> forall b, lastb (shells s) = Some b -> Forall (fun p => in_cube p = true /\ contains b p = true) (t_pts s)).
Proof.
  intros E. split.
  - pose proof (run_uniq evs init s init_uniq E) as (_ & _ & _ & U). intros i p sh0 Hp Hf Hin.
    specialize (U i p Hp Hin). congruence.
  - pose proof (run_invP evs init s init_invP E) as (_ & C). exact C.
Qed.

(* ---- C02: per-shell bookkeeping stays aligned ---- *)
Theorem aligned evs s : run init evs = Some s ->
  Forall (fun sh => length (lls sh) = length (pts sh) /\ length (bls sh) = length (pts sh)) (shells s) /\
  length (t_lls s) = length (t_pts s) /\ length (t_bls s) = length (t_pts s).
Proof.
  intros E. destruct (C03_rows contains in_cube lik blob n_batch evs s E) as (F & T1 & T2). split.
  - eapply Forall_impl; [|exact F]. intros sh (H1 & H2). rewrite H1, H2, !map_length. auto.
  - rewrite T1, T2, !map_length. auto.
Qed.

(* ---- C12 over whole suffixes ---- *)
Lemma grows_trans a b c : grows a b -> grows b c -> grows a c.
Proof.
  intros (A1 & (t1 & A2) & (t2 & A3) & (t3 & A4) & A5 & A6 & A7) (B1 & (u1 & B2) & (u2 & B3) & (u3 & B4) & B5 & B6 & B7).
  repeat split; try congruence; try lia.
  - exists (t1 ++ u1). rewrite B2, A2, app_assoc. reflexivity.
  - exists (t2 ++ u2). rewrite B3, A3, app_assoc. reflexivity.
  - exists (t3 ++ u3). rewrite B4, A4, app_assoc. reflexivity.
Qed.
Lemma Forall2_trans {A} (R : A -> A -> Prop) : (forall a b c, R a b -> R b c -> R a c) ->
  forall l1 l2 l3, Forall2 R l1 l2 -> Forall2 R l2 l3 -> Forall2 R l1 l3.
Proof.
  intros HT l1 l2 l3 H12. revert l3. induction H12; intros l3 H23; inversion H23; subst; constructor; eauto.
Qed.
Lemma Forall2_refl {A} (R : A -> A -> Prop) : (forall a, R a a) -> forall l, Forall2 R l l.
Proof. intros H l; induction l; constructor; auto. Qed.
Definition bound_event (e : event) : bool :=
  match e with EvAddBoundOk _ | EvAddBoundFail | EvEndExploration _ | EvAddSamples None _ _ => true | _ => false end.

Theorem explored_forever : forall evs s s', explored s = true -> run s evs = Some s' ->
  explored s' = true /\ Forall2 grows (shells s) (shells s') /\ map bnd (shells s') = map bnd (shells s) /\
  Forall (fun e => bound_event e = false) evs.
Proof.
  induction evs as [|e evs IH]; simpl; intros s s' Hx E.
  - inversion E; subst. repeat split; auto. apply Forall2_refl, grows_refl.
  - destruct (step s e) as [s1|] eqn:Es; [|discriminate].
    destruct (C12_step contains in_cube lik blob n_batch s e s1 Hx Es) as (X1 & G1 & N1).
    destruct (IH s1 s' X1 E) as (X2 & G2 & B2 & F2). repeat split; auto.
    + eapply Forall2_trans; eauto using grows_trans.
    + rewrite B2. clear -G1. induction G1 as [|a b l l' (Hb & _) _ IHG]; simpl; auto. now rewrite IHG, Hb.
    + constructor; auto. destruct e as [b| |[i|] r v|d|d]; simpl in *; auto; contradiction.
Qed.

(* once exploration has finished every shell holds at least one sample *)
Definition NonEmpty (s : st) : Prop := explored s = true -> Forall (fun sh => pts sh <> []) (shells s).
Lemma step_nonempty s e s' : NonEmpty s -> step s e = Some s' -> NonEmpty s'.
Proof.
  intros HN Es. destruct (explored s) eqn:Hx.
  - destruct (C12_step contains in_cube lik blob n_batch s e s' Hx Es) as (_ & G & _).
    intros _. specialize (HN Hx). clear -HN G. induction G as [|a b l l' (_ & (t & Hp) & _) _ IHG]; constructor.
    + inversion HN; subst. rewrite Hp. destruct (pts a); [congruence|discriminate].
    + apply IHG. now inversion HN.
  - destruct e as [b| |idx rounds vals|d|d]; simpl in Es.
    + unfold add_bound in Es. rewrite Hx in Es. destruct (existsb _ _); [discriminate|].
      destruct (shells s); [inversion Es; subst; intros H; discriminate|].
      destruct (ab_go _ _ _ _) as [shs' [[[ps ls] bs] fs]]. inversion Es; subst. intros H; discriminate.
    + rewrite Hx in Es. inversion Es; subst. intros H; congruence.
    + unfold add_samples in Es. destruct (length (shells s)); [discriminate|].
      destruct (match idx with None => explored s | Some _ => negb (explored s) end); [discriminate|].
      destruct (nth_error _ _); [|discriminate]. destruct (do_rounds _ _ _ _ _ _ _ _ _ _); [|discriminate].
      destruct (negb _); [discriminate|].
      destruct (match idx with None => _ | Some _ => _ end) as [[[tp tl] tb]|]; [|discriminate].
      inversion Es; subst. intros H; simpl in H; congruence.
    + unfold end_exploration in Es. rewrite Hx in Es. inversion Es; subst. intros _. simpl.
      apply Forall_forall. intros sh Hin. apply in_map_iff in Hin. destruct Hin as (x & <- & Hx'). simpl.
      apply filter_In in Hx'. destruct Hx' as [_ Hl]. apply negb_true_iff, Nat.eqb_neq in Hl.
      destruct (pts x); [simpl in Hl; congruence|discriminate].
    + inversion Es; subst. intros H; simpl in H; congruence.
Qed.
Theorem nonempty_after_exploration evs s : run init evs = Some s -> explored s = true -> Forall (fun sh => pts sh <> []) (shells s).
Proof.
  assert (G : forall evs s0 s, NonEmpty s0 -> run s0 evs = Some s -> NonEmpty s).
  { induction evs0 as [|e evs0 IH]; simpl; intros s0 s1 H E; [inversion E; subst; auto|].
    destruct (step s0 e) eqn:Es; [|discriminate]. eapply IH; [|eauto]. eapply step_nonempty; eauto. }
  intros E. apply (G evs init s); auto. intros H; discriminate.
Qed.

(* discard_exploration is a pure view: the flag is the only thing a toggle changes, and toggling back restores the state *)
Theorem toggle_pure s d s1 : step s (EvSetDiscard d) = Some s1 ->
  shells s1 = shells s /\ t_pts s1 = t_pts s /\ t_from s1 = t_from s /\ n_like s1 = n_like s /\ explored s1 = explored s /\ discard s1 = d /\
  step s1 (EvSetDiscard (discard s)) = Some s.
Proof. simpl. unfold set_discard. intros E; inversion E; subst; simpl. destruct s; simpl. repeat split; auto. Qed.
(* the discarded view shows exactly the rows appended after exploration ended *)
Theorem view_rows evs s : run init evs = Some s -> explored s = true -> forall sh, In sh (shells s) ->
  end_exp sh <= length (pts sh) /\ (discard s = true -> view_n s sh = length (pts sh) - end_exp sh) /\ (discard s = false -> view_n s sh = length (pts sh)).
Proof.
  intros E Hx sh Hin.
  assert (C : Cnt s).
  { assert (G : forall evs s0 s1, Cnt s0 -> run s0 evs = Some s1 -> Cnt s1).
    { induction evs0 as [|e evs0 IH]; simpl; intros s0 s1 H E0; [inversion E0; subst; auto|].
      destruct (step s0 e) eqn:Es; [|discriminate]. eapply IH; [|eauto]. eapply step_cnt; eauto. }
    apply (G evs init s); auto. constructor. }
  unfold Cnt in C. rewrite Forall_forall in C. destruct (C sh Hin) as (_ & H2). destruct (H2 Hx) as (H3 & _).
  unfold view_n, vstart. rewrite Hx. split; auto. split; intros ->; simpl; lia.
Qed.

(* ---- C03: the rows posterior() returns ---- *)
Definition rows (sh : shell) : list (pid * (vid * vid)) := combine (pts sh) (combine (lls sh) (bls sh)).
(* posterior(): per shell the rows from the start of the current view, shells in order *)
Definition posterior_rows (s : st) : list (pid * (vid * vid)) := flat_map (fun sh => skipn (vstart s sh) (rows sh)) (shells s).

Lemma combine_maps {A B C} (f : A -> B) (g : A -> C) (l : list A) :
  combine l (combine (map f l) (map g l)) = map (fun p => (p, (f p, g p))) l.
Proof. induction l as [|p l IH]; simpl; auto. now rewrite IH. Qed.
Lemma rows_faithful sh : faithful_sh lik blob sh -> rows sh = map (fun p => (p, (lik p, blob p))) (pts sh).
Proof. intros (H1 & H2). unfold rows. rewrite H1, H2. apply combine_maps. Qed.
Lemma skipn_In {A} n (l : list A) x : In x (skipn n l) -> In x l.
Proof. revert n; induction l as [|a l IH]; intros [|n]; simpl; auto. intros H. right. eauto. Qed.
Lemma skipn_map {A B} (f : A -> B) n l : skipn n (map f l) = map f (skipn n l).
Proof. revert n; induction l; intros [|n]; simpl; auto. Qed.
Lemma NoDup_skipn {A} n (l : list A) : NoDup l -> NoDup (skipn n l).
Proof.
  revert n; induction l as [|a l IH]; intros [|n] H; simpl; auto. inversion H; subst. auto.
Qed.
Lemma NoDup_concat_skipn (shs : list shell) (k : shell -> nat) :
  NoDup (concat (map pts shs)) -> NoDup (concat (map (fun sh => skipn (k sh) (pts sh)) shs)).
Proof.
  induction shs as [|sh l IH]; simpl; auto. intros H.
  apply NoDup_app3.
  - apply NoDup_skipn. eapply NoDup_app_l; eauto.
  - apply IH. eapply NoDup_app_r; eauto.
  - intros x Hx Hin.
    assert (G : forall ll, In x (concat (map (fun sh0 => skipn (k sh0) (pts sh0)) ll)) -> In x (concat (map pts ll))).
    { induction ll as [|a ll IHl]; simpl; auto. intros Hy. apply in_app_or in Hy. apply in_or_app.
      destruct Hy as [Hy|Hy]; [left; eapply skipn_In; eauto|right; auto]. }
    exact (NoDup_app_disj _ _ x H (skipn_In _ _ _ Hin) (G l Hx)).
Qed.

Theorem posterior_faithful evs s : run init evs = Some s -> forall p l b, In (p, (l, b)) (posterior_rows s) -> l = lik p /\ b = blob p.
Proof.
  intros E p l b Hin. destruct (C03_rows contains in_cube lik blob n_batch evs s E) as (F & _).
  unfold posterior_rows in Hin. apply in_flat_map in Hin. destruct Hin as (sh & Hsh & Hin).
  rewrite Forall_forall in F. rewrite (rows_faithful sh (F sh Hsh)) in Hin. apply skipn_In in Hin.
  apply in_map_iff in Hin. destruct Hin as (q & Hq & _). inversion Hq; subst. auto.
Qed.
Theorem posterior_once evs s : run init evs = Some s -> NoDup (map fst (posterior_rows s)).
Proof.
  intros E. destruct (C03_rows contains in_cube lik blob n_batch evs s E) as (F & _).
  pose proof (C03_once contains in_cube lik blob n_batch evs s E) as U.
  unfold posterior_rows. rewrite flat_map_concat_map, concat_map, map_map.
  replace (map (fun x => map fst (skipn (vstart s x) (rows x))) (shells s))
     with (map (fun sh => skipn (vstart s sh) (pts sh)) (shells s)); [now apply NoDup_concat_skipn|].
  rewrite Forall_forall in F. apply map_ext_in. intros sh Hsh.
  rewrite (rows_faithful sh (F sh Hsh)), skipn_map, map_map. simpl. now rewrite map_id.
Qed.

(* ---- frame of a batch and of a toggle: what an incremental checkpoint update has to rewrite (SamplerCodec.batch_frame) ---- *)
Lemma upd_nth_other {A} (f : A -> A) i j l : j <> i -> nth_error (upd_nth i f l) j = nth_error l j.
Proof.
  revert i j; induction l as [|x l IH]; intros [|i] [|j] H; simpl; auto; try congruence.
Qed.
Lemma upd_nth_length {A} (f : A -> A) i l : length (upd_nth i f l) = length l.
Proof. revert i; induction l as [|x l IH]; intros [|i]; simpl; auto. Qed.
Theorem batch_frame_abs s idx rounds vals s' : step s (EvAddSamples idx rounds vals) = Some s' ->
  exists i, (match idx with Some k => i = k | None => S i = length (shells s) end) /\
    (forall j, j <> i -> nth_error (shells s') j = nth_error (shells s) j) /\
    (forall sh sh', nth_error (shells s) i = Some sh -> nth_error (shells s') i = Some sh' ->
        bnd sh' = bnd sh /\ nsample_exp sh' = nsample_exp sh /\ end_exp sh' = end_exp sh) /\
    length (shells s') = length (shells s) /\ explored s' = explored s /\ discard s' = discard s /\
    t_pts s' = t_pts s /\ t_lls s' = t_lls s /\ t_bls s' = t_bls s.
Proof.
  simpl. unfold add_samples. destruct (length (shells s)) as [|nm1] eqn:EL; [discriminate|].
  match goal with |- (if ?c then _ else _) = _ -> _ => destruct c; [discriminate|] end.
  set (i := match idx with None => nm1 | Some i => i end).
  destruct (nth_error (shells s) i) as [sh0|] eqn:En; [|discriminate].
  match goal with |- (match ?o with _ => _ end) = _ -> _ => destruct o as [a|]; [|discriminate] end.
  match goal with |- (if ?c then _ else _) = _ -> _ => destruct c; [discriminate|] end.
  match goal with |- (match ?o with _ => _ end) = _ -> _ => destruct o as [[[tp tl] tb]|]; [|discriminate] end.
  intros E; inversion E; subst s'; clear E. simpl. exists i. split; [destruct idx; subst i; auto|].
  split; [intros j Hj; now apply upd_nth_other|]. split.
  - intros sh sh' H1 H2. rewrite En in H1. inversion H1; subst sh.
    assert (G : forall l k x (f : shell -> shell), nth_error l k = Some x -> nth_error (upd_nth k f l) k = Some (f x)).
    { induction l as [|y l IH]; intros [|k] x f H; simpl in *; try discriminate; [inversion H; subst; reflexivity|now apply IH]. }
    rewrite (G _ _ _ _ En) in H2. inversion H2; subst sh'. simpl. auto.
  - repeat split; auto. rewrite upd_nth_length. exact EL.
Qed.
Theorem toggle_frame_abs s d s' : step s (EvSetDiscard d) = Some s' ->
  shells s' = shells s /\ explored s' = explored s /\ n_like s' = n_like s /\ t_pts s' = t_pts s /\ t_from s' = t_from s.
Proof. simpl. unfold set_discard. intros E; inversion E; subst; simpl. auto. Qed.
End Thm.
