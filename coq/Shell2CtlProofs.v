From Coq Require Import List Arith ZArith Bool Lia.
Import ListNotations.
Require Import NV.Base NV.Shell2 NV.Shell2Thm NV.Shell2Ctl.

Section Ctl.
Variable contains : bid -> pid -> bool.
Variable in_cube : pid -> bool.
Variable lik blob : pid -> vid.
Variable n_batch : nat.
Variable vrank : vid -> Z.
Variable neg_inf : vid.
Variable cc : ctlcfg.
Notation step := (Shell2.step contains in_cube lik blob n_batch).
Notation run := (Shell2.run contains in_cube lik blob n_batch).
Notation cstep := (cstep contains in_cube lik blob n_batch vrank neg_inf cc).
Notation crun := (crun contains in_cube lik blob n_batch vrank neg_inf cc).

(* the control layer only restricts and annotates: its core component runs the shell machine *)
Lemma cstep_core c e c' : cstep c e = Some c' -> step (core c) e = Some (core c').
Proof.
  unfold Shell2Ctl.cstep. destruct (step (core c) e) as [s'|] eqn:Es; [|discriminate].
  destruct e as [b| |[i|] r v|d|d]; try (intros H; inversion H; subst; reflexivity).
  - destruct (shells (core c)); [intros H; inversion H; subst; reflexivity|].
    destruct (threshold vrank cc (core c)) as [t|]; [|discriminate].
    destruct (all_above vrank (vrank t) (all_lls (core c))); [discriminate|]. intros H; inversion H; subst; reflexivity.
  - destruct (threshold vrank cc (core c)) as [t|]; [|discriminate]. intros H; inversion H; subst; reflexivity.
Qed.
Theorem crun_core : forall evs c c', crun c evs = Some c' -> run (core c) evs = Some (core c').
Proof.
  induction evs as [|e evs IH]; simpl; intros c c' H; [inversion H; subst; reflexivity|].
  destruct (cstep c e) as [c1|] eqn:Ec; [|discriminate]. rewrite (cstep_core _ _ _ Ec). now apply IH.
Qed.

(* one threshold per shell, always *)
Definition Aligned (c : cst) : Prop := length (lmins c) = length (shells (core c)).
Lemma set_last_length {A} (v : A) l : length (set_last v l) = length l.
Proof. induction l as [|x [|y l] IH]; simpl in *; auto. Qed.
Lemma keep_nonempty_length {A} shs (l : list A) : length l = length shs ->
  length (keep_nonempty shs l) = length (filter (fun sh => negb (Nat.eqb (length (pts sh)) 0)) shs).
Proof.
  revert l; induction shs as [|sh r IH]; intros [|x l] H; simpl in *; try discriminate; auto.
  destruct (Nat.eqb (length (pts sh)) 0); simpl; rewrite IH by lia; reflexivity.
Qed.
Lemma upd_nth_len {A} (f : A -> A) i l : length (upd_nth i f l) = length l.
Proof. revert i; induction l as [|x l IH]; intros [|i]; simpl; auto. Qed.
Lemma ab_go_len b : forall shs i shs' x, ab_go contains b i shs = (shs', x) -> length shs' = length shs.
Proof.
  induction shs as [|sh r IH]; simpl; intros i shs' x E; [inversion E; reflexivity|].
  destruct (ab_go contains b (S i) r) as [r' [[[ps ls] bs] fs]] eqn:Er. inversion E; subst. simpl. f_equal. eapply IH; eauto.
Qed.
Lemma cstep_aligned c e c' : Aligned c -> cstep c e = Some c' -> Aligned c'.
Proof.
  unfold Aligned. intros HA. unfold Shell2Ctl.cstep. destruct (step (core c) e) as [s'|] eqn:Es; [|discriminate].
  destruct e as [b| |[i|] r v|d|d].
  - simpl in Es. unfold add_bound in Es. destruct (explored (core c)); [discriminate|]. destruct (existsb _ _); [discriminate|].
    destruct (shells (core c)) as [|sh0 r0] eqn:Esh.
    + inversion Es; subst. intros H; inversion H; subst; reflexivity.
    + destruct (ab_go contains b 0 (sh0 :: r0)) as [shs' [[[ps ls] bs] fs]] eqn:Eg. inversion Es; subst.
      destruct (threshold vrank cc (core c)) as [t|]; [|discriminate].
      destruct (all_above _ _ _); [discriminate|]. intros H; inversion H; subst; simpl.
      rewrite !app_length. simpl. rewrite (ab_go_len _ _ _ _ _ Eg). rewrite HA. reflexivity.
  - simpl in Es. destruct (explored (core c)); inversion Es; subst.
    destruct (threshold vrank cc (core c)) as [t|]; [|discriminate]. intros H; inversion H; subst; simpl. now rewrite set_last_length.
  - destruct (batch_frame_abs contains in_cube lik blob n_batch _ _ _ _ _ Es) as (k & _ & _ & _ & L & _).
    intros H; inversion H; subst; simpl. congruence.
  - destruct (batch_frame_abs contains in_cube lik blob n_batch _ _ _ _ _ Es) as (k & _ & _ & _ & L & _).
    intros H; inversion H; subst; simpl. congruence.
  - simpl in Es. unfold end_exploration in Es. destruct (explored (core c)); [discriminate|]. inversion Es; subst.
    intros H; inversion H; subst; simpl. rewrite map_length. now apply keep_nonempty_length.
  - simpl in Es. inversion Es; subst. intros H; inversion H; subst; simpl. exact HA.
Qed.
Theorem crun_aligned : forall evs c c', Aligned c -> crun c evs = Some c' -> Aligned c'.
Proof.
  induction evs as [|e evs IH]; simpl; intros c c' HA H; [inversion H; subst; exact HA|].
  destruct (cstep c e) as [c1|] eqn:Ec; [|discriminate]. eapply IH; [|exact H]. eapply cstep_aligned; eauto.
Qed.

Lemma filter_length_le' {A} (f : A -> bool) l : length (filter f l) <= length l.
Proof. induction l; simpl; [lia|]. destruct (f a); simpl; lia. Qed.

(* counters: a bound attempt resets both; an exploration batch adds n_batch calls and the number of its new values at or
   above the current threshold; nothing else touches them *)
Theorem counters_step c e c' : cstep c e = Some c' ->
  match e with
  | EvAddBoundOk _ => (shells (core c) <> [] -> nui c' = 0%Z /\ nli c' = 0) /\ (shells (core c) = [] -> nui c' = (- Z.of_nat (cc_nlive cc))%Z /\ nli c' = 0)
  | EvAddBoundFail => nui c' = 0%Z /\ nli c' = 0
  | EvAddSamples None _ vals => nli c' = nli c + n_batch /\ (nui c <= nui c' <= nui c + Z.of_nat (length vals))%Z
  | _ => nui c' = nui c /\ nli c' = nli c
  end.
Proof.
  unfold Shell2Ctl.cstep. destruct (step (core c) e) as [s'|]; [|discriminate].
  destruct e as [b| |[i|] r v|d|d]; try (intros H; inversion H; subst; simpl; auto; fail).
  - destruct (shells (core c)) as [|sh0 r0].
    + intros H; inversion H; subst; simpl. split; [intros Hn; congruence|auto].
    + destruct (threshold vrank cc (core c)) as [t|]; [|discriminate]. destruct (all_above _ _ _); [discriminate|].
      intros H; inversion H; subst; simpl. split; [auto|intros Hn; discriminate].
  - destruct (threshold vrank cc (core c)) as [t|]; [|discriminate]. intros H; inversion H; subst; simpl; auto.
  - intros H; inversion H; subst; simpl. split; auto. unfold count_ge.
    pose proof (filter_length_le' (fun v0 => Z.leb (vrank (last (lmins c) neg_inf)) (vrank v0)) (map fst v)) as Hl.
    rewrite map_length in Hl. lia.
Qed.

(* a new bound is only ever accepted when some stored likelihood lies strictly below its threshold: the bound zooms in *)
Theorem bound_zooms c b c' : shells (core c) <> [] -> cstep c (EvAddBoundOk b) = Some c' ->
  exists t, threshold vrank cc (core c) = Some t /\ all_above vrank (vrank t) (all_lls (core c)) = false /\ lmins c' = lmins c ++ [t].
Proof.
  intros Hne. unfold Shell2Ctl.cstep. destruct (step (core c) (EvAddBoundOk b)) as [s'|]; [|discriminate].
  destruct (shells (core c)); [congruence|]. destruct (threshold vrank cc (core c)) as [t|]; [|discriminate].
  destruct (all_above vrank (vrank t) (all_lls (core c))) eqn:Ea; [discriminate|]. intros H; inversion H; subst. eauto.
Qed.

(* iterations: a bound is attempted at the start of an exploration iteration exactly when the trigger holds *)
Theorem iters_trigger : forall its c c', crun_iters contains in_cube lik blob n_batch vrank neg_inf cc c its = Some c' ->
  crun c (concat its) = Some c'.
Proof.
  induction its as [|evs r IH]; simpl; intros c c' H; [exact H|].
  destruct (negb (iter_trigger_ok cc c evs)); [discriminate|].
  destruct (crun c evs) as [c1|] eqn:E1; [|discriminate].
  assert (G : forall a b x y, crun x a = Some y -> crun x (a ++ b) = crun y b).
  { induction a as [|e a IHa]; simpl; intros b0 x y Hx; [inversion Hx; reflexivity|].
    destruct (cstep x e) as [x1|]; [|discriminate]. now apply IHa. }
  rewrite (G _ _ _ _ E1). now apply IH.
Qed.
End Ctl.
