(* Control layer of the exploration phase on top of the shell machine: the likelihood thresholds of the bounds
   (Sampler.add_bound, sampler.py 996-1010, 1031-1044), the update counters and the trigger that decides when a new
   bound is attempted (Sampler.run 422-445).  Log-likelihood values stay opaque ids; their ORDER is an oracle
   `vrank` (an order embedding of the float values, -inf lowest), so every comparison the code makes is exact here.
   The core state is untouched: everything proved about Shell2.step holds for the projection (Shell2CtlProofs.v). *)
From Coq Require Import List Arith ZArith Bool Orders Sorting.Mergesort.
Import ListNotations.
Require Import NV.Base NV.Shell2.

(* descending order on (rank, id) pairs, for the merge sort that finds the n_live-th largest value *)
Module RankDesc <: TotalLeBool.
  Definition t := (Z * vid)%type.
  Definition leb (a b : t) : bool := Z.leb (fst b) (fst a).
  Theorem leb_total : forall a b, leb a b = true \/ leb b a = true.
  Proof. intros a b. unfold leb. destruct (Z.leb_spec (fst b) (fst a)); [now left|right]. apply Z.leb_le. apply Z.lt_le_incl. assumption. Qed.
End RankDesc.
Module RankSort := Sort RankDesc.

Record ctlcfg := mkCC { cc_nlive : nat; cc_nupdate : Z; cc_nlikenew : nat; cc_npmin : nat }.
Record cst := mkCst { core : st; lmins : list vid; nui : Z; nli : nat }.   (* shell_log_l_min, n_update_iter, n_like_iter *)

Section Ctl.
Variable contains : bid -> pid -> bool.
Variable in_cube : pid -> bool.
Variable lik blob : pid -> vid.
Variable n_batch : nat.
Variable vrank : vid -> Z.
Variable neg_inf : vid.            (* the id of -inf: threshold of the first bound *)
Variable cc : ctlcfg.
Notation step := (Shell2.step contains in_cube lik blob n_batch).

(* log_l_min of add_bound: the n_live-th largest stored log-likelihood; if it sits on a plateau (its value occurs more
   than once) and at least n_points_min values lie strictly above, the smallest value above the plateau *)
Definition all_lls (s : st) : list vid := concat (map lls (shells s)).
Definition count_ge (r : Z) (l : list vid) : nat := length (filter (fun v => Z.leb r (vrank v)) l).
Definition count_gt (r : Z) (l : list vid) : nat := length (filter (fun v => Z.ltb r (vrank v)) l).
Definition count_eq (r : Z) (l : list vid) : nat := length (filter (fun v => Z.eqb r (vrank v)) l).
(* the k-th largest value: entry k-1 of the values sorted by decreasing rank (np.sort(log_l)[-k]) *)
Definition kth_largest (k : nat) (l : list vid) : option vid :=
  match k with
  | O => None
  | S k' => option_map snd (nth_error (RankSort.sort (map (fun v => (vrank v, v)) l)) k')
  end.
Definition min_above (r : Z) (l : list vid) : option vid :=
  fold_left (fun best v => if Z.ltb r (vrank v)
                           then match best with Some b => if Z.ltb (vrank v) (vrank b) then Some v else best | None => Some v end
                           else best) l None.
Definition threshold (s : st) : option vid :=
  let l := all_lls s in
  match kth_largest (cc_nlive cc) l with
  | None => None
  | Some v =>
    if Nat.ltb 1 (count_eq (vrank v) l) && Nat.leb (cc_npmin cc) (count_gt (vrank v) l)
    then min_above (vrank v) l else Some v
  end.
Definition all_above (r : Z) (l : list vid) : bool := forallb (fun v => Z.leb r (vrank v)) l.

Fixpoint set_last {A} (v : A) (l : list A) : list A := match l with [] => [] | [_] => [v] | x :: r => x :: set_last v r end.
(* keep the thresholds of the shells that survive the removal of empty shells *)
Fixpoint keep_nonempty {A} (shs : list shell) (l : list A) : list A :=
  match shs, l with
  | sh :: r, x :: l' => if Nat.eqb (length (pts sh)) 0 then keep_nonempty r l' else x :: keep_nonempty r l'
  | _, _ => []
  end.

Definition cstep (c : cst) (e : event) : option cst :=
  match step (core c) e with
  | None => None
  | Some s' =>
    match e with
    | EvAddBoundOk _ =>
      match shells (core c) with
      | [] => Some (mkCst s' [neg_inf] (- Z.of_nat (cc_nlive cc)) 0)       (* run(): first bound, n_update_iter = -n_live *)
      | _ => match threshold (core c) with
             | None => None
             | Some t => if all_above (vrank t) (all_lls (core c)) then None      (* "no points below the plateau: don't zoom in" *)
                         else Some (mkCst s' (lmins c ++ [t]) 0 0)
             end
      end
    | EvAddBoundFail =>
      match threshold (core c) with
      | None => None
      | Some t => Some (mkCst s' (set_last t (lmins c)) 0 0)              (* shell_log_l_min[-1] = log_l_min *)
      end
    | EvAddSamples None _ vals =>
      let lm := last (lmins c) neg_inf in
      Some (mkCst s' (lmins c) (nui c + Z.of_nat (count_ge (vrank lm) (map fst vals))) (nli c + n_batch))
    | EvAddSamples (Some _) _ _ => Some (mkCst s' (lmins c) (nui c) (nli c))
    | EvEndExploration _ => Some (mkCst s' (keep_nonempty (shells (core c)) (lmins c)) (nui c) (nli c))
    | EvSetDiscard _ => Some (mkCst s' (lmins c) (nui c) (nli c))
    end
  end.
Fixpoint crun (c : cst) (evs : list event) : option cst :=
  match evs with [] => Some c | e :: r => match cstep c e with Some c' => crun c' r | None => None end end.
Definition cinit : cst := mkCst init [] 0 0.

(* the trigger of run(): a new bound is attempted exactly when enough updates or enough calls have accumulated and
   more than n_live points are stored *)
Definition trigger (c : cst) : bool :=
  (Z.leb (cc_nupdate cc) (nui c) || Nat.leb (cc_nlikenew cc) (nli c)) && Nat.ltb (cc_nlive cc) (length (all_lls (core c))).
Definition is_bound_ev (e : event) : bool := match e with EvAddBoundOk _ | EvAddBoundFail => true | _ => false end.
(* an exploration iteration starts with a bound attempt iff the trigger holds *)
Definition iter_trigger_ok (c : cst) (evs : list event) : bool :=
  if explored (core c) then true else
  match evs with e :: _ => Bool.eqb (is_bound_ev e) (trigger c) | [] => true end.
End Ctl.

(* a history as a list of loop iterations: the trigger consistency is checked at the start of each *)
Section CtlIters.
Variable contains : bid -> pid -> bool.
Variable in_cube : pid -> bool.
Variable lik blob : pid -> vid.
Variable n_batch : nat.
Variable vrank : vid -> Z.
Variable neg_inf : vid.
Variable cc : ctlcfg.
Fixpoint crun_iters (c : cst) (its : list (list event)) : option cst :=
  match its with
  | [] => Some c
  | evs :: r =>
    if negb (iter_trigger_ok cc c evs) then None else
    match crun contains in_cube lik blob n_batch vrank neg_inf cc c evs with Some c' => crun_iters c' r | None => None end
  end.
End CtlIters.
