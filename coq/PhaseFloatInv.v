(* binary64: the inverse transform undoes the transform up to rounding, modulo one.
   Every finite double x, centre c in [0,1): unshift c (shift c x) = x + K + e with K an integer and |e| <= 6 * 2^-52. *)
From Coq Require Import ZArith Reals Floats Lra Lia Psatz Bool.
From Flocq Require Import Core BinarySingleNaN.
Require Import Flocq.IEEE754.PrimFloat.
Require Import NV.PhaseFloat.
Open Scope R_scope.

Notation fexp := (FLT_exp (3 - emax - prec) prec).
Notation rnd := (round radix2 fexp ZnearestE).
Definition E52 : R := bpow radix2 (-52).
Local Instance Hp' : Prec_gt_0 prec. Proof. unfold Prec_gt_0, prec; lia. Qed.

Lemma ulp_two : ulp radix2 fexp 2 = bpow radix2 (-51).
Proof.
  replace 2 with (bpow radix2 1) by (simpl; lra). rewrite ulp_bpow. f_equal.
Qed.
Lemma rnd_err r : Rabs r <= 2 -> Rabs (rnd r - r) <= E52.
Proof.
  intros H. apply Rle_trans with (/2 * ulp radix2 fexp r); [apply error_le_half_ulp; typeclasses eauto|].
  assert (U : ulp radix2 fexp r <= ulp radix2 fexp 2).
  { apply ulp_le. all: try typeclasses eauto. rewrite (Rabs_pos_eq 2) by lra. exact H. }
  rewrite ulp_two in U.
  assert (Hb : bpow radix2 (-51) = 2 * bpow radix2 (-52)).
  { replace (-51)%Z with (1 + -52)%Z by lia. rewrite bpow_plus. change (bpow radix2 1) with 2. reflexivity. }
  rewrite Hb in U. unfold E52. lra.
Qed.
Lemma E52_pos : 0 < E52. Proof. apply bpow_gt_0. Qed.

(* value of one transform: x + d + integer + error, three roundings at most *)
Lemma tr_value (d x : pfloat) : fin x -> fin d -> 0 <= FR x < 1 -> -/2 <= FR d <= /2 ->
  exists (k : Z) (e : R), FR (tr d x) = FR x + FR d + IZR k + e /\ Rabs e <= 3 * E52 /\ (-2 <= k <= 1)%Z.
Proof.
  intros Fx Fd Hx Hd. unfold tr.
  destruct (add_small x d Fx Fd) as [Fs Rs]; [apply Rabs_le; lra|].
  set (s := (x + d)%float) in *.
  assert (Ea : Rabs (FR s - (FR x + FR d)) <= E52) by (rewrite Rs; apply rnd_err; apply Rabs_le; lra).
  assert (Bs : -/2 <= FR s <= 2).
  { rewrite Rs. apply rnd_between; auto using fmt_2, fmt_mhalf; lra. }
  destruct FR_0 as [R0 F0]. destruct FR_1 as [R1 F1].
  pose proof E52_pos as Ep.
  (* fmod1 *)
  assert (M : exists (k1 : Z) (e1 : R), fin (fmod1 s) /\ FR (fmod1 s) = FR s + IZR k1 + e1 /\ Rabs e1 <= E52 /\ (-1 <= k1 <= 1)%Z /\ 0 <= FR (fmod1 s) <= 1).
  { destruct (fmod1_spec s Fs Bs) as [Fm Bm]. unfold fmod1 in *.
    rewrite (ltb_R s 0%float Fs F0), R0 in *. destruct (Rlt_bool_spec (FR s) 0) as [Hneg|Hnn].
    - destruct (add_small s 1%float Fs F1) as [Fa Ra]; [rewrite R1; apply Rabs_le; lra|].
      exists 1%Z, (FR (s + 1)%float - (FR s + 1)).
      split; [exact Fm|]. split; [change (IZR 1) with 1; lra|]. split; [rewrite Ra, R1; apply rnd_err; apply Rabs_le; lra|]. split; [lia|exact Bm].
    - rewrite (leb_R 1%float s F1 Fs), R1 in *. destruct (Rle_bool_spec 1 (FR s)) as [Hge|Hlt].
      + destruct (sub_small s 1%float Fs F1) as [Fa Ra]; [rewrite R1; apply Rabs_le; lra|].
        exists (-1)%Z, (FR (s - 1)%float - (FR s - 1)).
        split; [exact Fm|]. split; [change (IZR (-1)) with (-1); lra|]. split; [rewrite Ra, R1; apply rnd_err; apply Rabs_le; lra|]. split; [lia|exact Bm].
      + destruct (s =? 0)%float eqn:Ez.
        * assert (Hs0 : FR s = 0).
          { rewrite eqb_equiv in Ez. pose proof (Beqb_correct _ _ (Prim2B s) (Prim2B 0%float) Fs F0) as Hc.
            fold (FR s) in Hc. fold (FR 0%float) in Hc. rewrite Ez, R0 in Hc.
            destruct (Req_bool_spec (FR s) 0); [assumption|discriminate]. }
          exists 0%Z, 0. split; [exact Fm|]. split; [rewrite R0, Hs0; change (IZR 0) with 0; lra|]. split; [rewrite Rabs_R0; lra|]. split; [lia|exact Bm].
        * exists 0%Z, 0. split; [exact Fm|]. split; [change (IZR 0) with 0; lra|]. split; [rewrite Rabs_R0; lra|]. split; [lia|exact Bm]. }
  destruct M as (k1 & e1 & Fm & Vm & E1 & K1 & Bm).
  (* fold1 *)
  unfold fold1. rewrite (leb_R 1%float (fmod1 s) F1 Fm), R1. destruct (Rle_bool_spec 1 (FR (fmod1 s))) as [Hge|Hlt].
  - destruct (sub_small (fmod1 s) 1%float Fm F1) as [Fa Ra]; [rewrite R1; apply Rabs_le; lra|].
    exists (k1 - 1)%Z, ((FR s - (FR x + FR d)) + e1 + (FR (fmod1 s - 1)%float - (FR (fmod1 s) - 1))). split; [|split; [|lia]].
    + rewrite minus_IZR. simpl. lra.
    + assert (E2 : Rabs (FR (fmod1 s - 1)%float - (FR (fmod1 s) - 1)) <= E52) by (rewrite Ra, R1; apply rnd_err; apply Rabs_le; lra).
      eapply Rle_trans; [apply Rabs_triang|]. eapply Rle_trans; [apply Rplus_le_compat_r, Rabs_triang|]. lra.
  - exists k1, ((FR s - (FR x + FR d)) + e1). split; [lra|]. split; [|lia].
    eapply Rle_trans; [apply Rabs_triang|]. lra.
Qed.

Theorem float_inverse (c x : pfloat) : fin x -> fin c -> 0 <= FR x < 1 -> 0 <= FR c < 1 ->
  exists (K : Z) (e : R), FR (unshift c (shift c x)) = FR x + IZR K + e /\ Rabs e <= 6 * E52.
Proof.
  intros Fx Fc Hx Hc. destruct (offset_range c Fc Hc) as [Fd Bd].
  destruct (opp_R _ Fd) as [Fo Ro].
  destruct (tr_range (0.5 - c)%float x Fx Fd Hx Bd) as [Fy By].
  destruct (tr_value (0.5 - c)%float x Fx Fd Hx Bd) as (k1 & e1 & V1 & E1 & _).
  assert (Bo : -/2 <= FR (- (0.5 - c))%float <= /2) by (rewrite Ro; lra).
  destruct (tr_value (- (0.5 - c))%float (tr (0.5 - c)%float x) Fy Fo By Bo) as (k2 & e2 & V2 & E2 & _).
  exists (k1 + k2)%Z, (e1 + e2). unfold unshift, shift. split.
  - rewrite V2, V1, Ro, plus_IZR. lra.
  - eapply Rle_trans; [apply Rabs_triang|]. lra.
Qed.
