(* Property C12: exploration ends once; then history is append-only; discard is a pure view. *)
From Coq Require Import List Arith.
Import ListNotations.
Require Import NV.Base NV.Shell2 NV.Shell2Inv NV.Shell2Thm.

Section P.
Variable contains : bid -> pid -> bool.
Variable in_cube : pid -> bool.
Variable lik blob : pid -> vid.
Variable n_batch : nat.
Notation step := (step contains in_cube lik blob n_batch).
Notation run := (run contains in_cube lik blob n_batch).

(* once explored: stays explored, the bounds are frozen, every shell is only ever extended at its end (points,
   likelihoods and blobs alike; exploration counters untouched), and no bound insertion, exploration batch or second
   end-of-exploration is accepted -- over any continuation whatsoever *)
Theorem C12_frozen : forall evs s s', explored s = true -> run s evs = Some s' ->
  explored s' = true /\ Forall2 grows (shells s) (shells s') /\ map bnd (shells s') = map bnd (shells s) /\
  Forall (fun e => bound_event e = false) evs.
Proof. exact (explored_forever contains in_cube lik blob n_batch). Qed.

(* every shell keeps at least one sample *)
Theorem C12_nonempty : forall evs s, run init evs = Some s -> explored s = true -> Forall (fun sh => pts sh <> []) (shells s).
Proof. exact (nonempty_after_exploration contains in_cube lik blob n_batch). Qed.

(* switching discard_exploration changes the flag and nothing else; switching back restores the state exactly *)
Theorem C12_toggle : forall s d s1, step s (EvSetDiscard d) = Some s1 ->
  shells s1 = shells s /\ t_pts s1 = t_pts s /\ t_from s1 = t_from s /\ n_like s1 = n_like s /\ explored s1 = explored s /\ discard s1 = d /\
  step s1 (EvSetDiscard (discard s)) = Some s.
Proof. exact (toggle_pure contains in_cube lik blob n_batch). Qed.

(* the discarded view shows exactly the rows appended after exploration ended *)
Theorem C12_view : forall evs s, run init evs = Some s -> explored s = true -> forall sh, In sh (shells s) ->
  end_exp sh <= length (pts sh) /\ (discard s = true -> view_n s sh = length (pts sh) - end_exp sh) /\ (discard s = false -> view_n s sh = length (pts sh)).
Proof. exact (view_rows contains in_cube lik blob n_batch). Qed.
End P.
Print Assumptions C12_frozen.
Print Assumptions C12_nonempty.
Print Assumptions C12_toggle.
Print Assumptions C12_view.
