(* Property C13: a union of ellipsoids stays well-formed under any split/trim/sample order.
   Only property theorems, each closed by `exact`. *)
From Coq Require Import List QArith Permutation.
Import ListNotations.
Require Import NV.Base NV.Union2 NV.UnionProofs.
Local Open Scope nat_scope.

(* after ANY sequence of operations accepted by the model, from Union.compute's initial state:
   the four records have one entry per ellipsoid, every ellipsoid has at least n_min points (if the first had),
   an ellipsoid whose may-split flag is clear has at least 2 n_min points, and the points of all ellipsoids
   together with the trimmed ones are exactly the construction points *)
Theorem C13_wf : forall n_min ops b pts v u tr, urun n_min (uinit n_min b pts v) [] ops = Some (u, tr) ->
  WF u /\ (n_min <= length pts -> MinPts n_min u) /\ Flags n_min u /\ Permutation (concat (pbs u) ++ tr) pts.
Proof.
  intros n_min ops b pts v u tr H. destruct (uinit_wf n_min b pts v) as [HW HF].
  destruct (run_spec n_min ops _ _ _ _ HW H) as (A & B & C & D).
  split; [exact A|]. split; [intros Hn; apply B; repeat constructor; exact Hn|]. split; [exact (C HF)|].
  simpl in D. rewrite !app_nil_r in D. exact D.
Qed.
Print Assumptions C13_wf.

(* one split pass (with any number of blocked attempts before the final outcome): records, points, volume, refusal *)
Theorem C13_split : forall n_min allow ats u u' r, WF u -> split_go n_min allow ats u = Some (u', r) ->
  WF u' /\ (MinPts n_min u -> MinPts n_min u') /\ (Flags n_min u -> Flags n_min u') /\
  Permutation (concat (pbs u')) (concat (pbs u)) /\
  (r = true -> (qsum (vols u') <= qsum (vols u))%Q /\ length (bs u') = S (length (bs u))) /\
  (r = false -> bs u' = bs u /\ pbs u' = pbs u /\ vols u' = vols u).
Proof. exact split_go_spec. Qed.
Print Assumptions C13_split.

Theorem C13_trim : forall d u u' r, WF u -> trim d u = Some (u', r) ->
  WF u' /\ (forall n_min, MinPts n_min u -> MinPts n_min u') /\ (forall n_min, Flags n_min u -> Flags n_min u') /\
  (r = false -> u' = u) /\
  (r = true -> exists i p, d = Some i /\ nth_error (pbs u) i = Some p /\ Permutation (concat (pbs u)) (p ++ concat (pbs u')) /\
                 S (length (bs u')) = length (bs u)).
Proof.
  intros d u u' r HW H. destruct (trim_spec 0 d u u' r HW H) as (A & _ & _ & D & E).
  split; [exact A|]. split; [intros n; exact (proj1 (proj2 (trim_spec n d u u' r HW H)))|].
  split; [intros n; exact (proj1 (proj2 (proj2 (trim_spec n d u u' r HW H))))|]. split; [exact D|exact E].
Qed.
Print Assumptions C13_trim.

(* regression witness: trim before the repair left `block` one entry too long *)
Theorem C13_trim_asis_refuted : exists (u u' : ust) i, WF u /\ trim_asis (Some i) u = Some (u', true) /\ ~ WF u'.
Proof. exact trim_asis_refuted. Qed.
Print Assumptions C13_trim_asis_refuted.

(* the repair of the cluster labels inside split (TopUp.v): with at least 2 n_min points in the ellipsoid being split (which
   the may-split flag guarantees, C13_wf) both clusters end with at least n_min members, whatever the mixture fit and the
   ranking; nothing is touched when both clusters are large enough *)
Require Import NV.TopUp NV.TopUpProofs.
Theorem C13_topup : forall n_min rank_other l, 2 * n_min <= length l -> Permutation rank_other (others (small_label l) l) ->
  let l' := topup n_min rank_other l in
  length l' = length l /\ n_min <= count false l' /\ n_min <= count true l' /\
  (enough n_min l = true -> l' = l) /\ (enough n_min l = false -> count (small_label l) l' = n_min).
Proof. exact topup_ok. Qed.
Print Assumptions C13_topup.
(* hence the halves cut out of an ellipsoid that may be split: the size guard of the record model (`split_go` rejects a
   partition with a half below n_min) never fires on labels produced by the repaired rule *)
Theorem C13_topup_halves : forall (A : Type) n_min rank_other (l0 : list bool) (pts : list A),
  length l0 = length pts -> 2 * n_min <= length pts -> Permutation rank_other (others (small_label l0) l0) ->
  let labels := topup n_min rank_other l0 in
  length labels = length pts /\ n_min <= length (fmask labels pts) /\ n_min <= length (fmask (map negb labels) pts).
Proof. exact @topup_halves. Qed.
Print Assumptions C13_topup_halves.
(* regression witness: the rule as found (first n_min entries of the ranking of ALL points) strips the larger cluster *)
Theorem C13_topup_asis_refuted : exists n_min rank_all l, 2 * n_min <= length l /\ Permutation rank_all (seq 0 (length l)) /\
  count false (topup_asis n_min rank_all l) < n_min.
Proof. exact topup_asis_refuted. Qed.
Print Assumptions C13_topup_asis_refuted.

(* non-vacuity: split (one blocked attempt first), trim, sample on six points *)
Example C13_example :
  urun 1 (uinit 1 1%positive [1;2;3;4;5;6]%positive 10%Q) []
    [Split true [ASuccess 0 [true;false;true;false;true;true] 2%positive 3%positive 3%Q 4%Q];
     Split true [ABlocked 1; ASuccess 0 [false;true] 4%positive 5%positive 1%Q 1%Q]; Sample; Trim (Some 0)]
  = Some (mkU [4;5]%positive [[2]; [4]]%positive [1%Q; 1%Q] [true; true], [1;3;5;6]%positive).
Proof. vm_compute. reflexivity. Qed.
