(* Property C08, radius law (real analysis): Ellipsoid.sample scales a uniform direction by u^(1/d), u uniform on (0,1].
   {radius <= t} = {u <= t^d}: the radial distribution is that of the uniform distribution on the ball (volume is
   homogeneous of degree d), and the radius never exceeds one, so every sample lies in the closed unit ball of the
   Cholesky frame. *)
From Coq Require Import Reals.
Require Import NV.Radial.
Open Scope R_scope.
Theorem C08_radial : forall u t (d : nat), (1 <= d)%nat -> 0 < u <= 1 -> 0 <= t -> (Rpower u (/ INR d) <= t <-> u <= t ^ d).
Proof. exact radial_law. Qed.
Print Assumptions C08_radial.
Theorem C08_radius : forall u (d : nat), (1 <= d)%nat -> 0 < u <= 1 -> 0 < Rpower u (/ INR d) <= 1.
Proof. exact radius_in_ball. Qed.
Print Assumptions C08_radius.
Example C08_radial_example : Rpower 1 (/ INR 3) <= 1 <-> 1 <= 1 ^ 3.
Proof. apply radial_law; [auto|split; [apply Rlt_0_1|apply Rle_refl]|apply Rle_0_1]. Qed.
