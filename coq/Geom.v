From mathcomp Require Import all_ssreflect all_algebra.
Set Implicit Arguments. Unset Strict Implicit. Unset Printing Implicit Defensive.
Import GRing.Theory Num.Theory.
Local Open Scope ring_scope.
Section Ell.
Variable (F : realFieldType) (d : nat).
Implicit Types (x c y u : 'cV[F]_d) (B : 'M[F]_d).
Definition nrm2 y : F := (y^T *m y) 0 0.
Definition ell_contains B c x := nrm2 (invmx B *m (x - c)) < 1.
Definition ell_point B c (r : F) u := B *m (r *: u) + c.
Lemma nrm2_scale r u : nrm2 (r *: u) = r ^+ 2 * nrm2 u.
Proof. by rewrite /nrm2 linearZ /= linearZ /= -scalemxAl !mxE expr2 mulrA. Qed.
Theorem C07_ell_sample B c r u :
  B \in unitmx -> nrm2 u = 1 -> 0 <= r < 1 -> ell_contains B c (ell_point B c r u).
Proof.
move=> Bu u1 /andP[r0 r1]; rewrite /ell_contains /ell_point addrK mulKmx //.
by rewrite nrm2_scale u1 mulr1 expr_lt1.
Qed.
End Ell.
