(* Property C08: proposals are uniform over the bound and reported volumes are calibrated (PARTIAL: finite-cell
   probability and bookkeeping are proved; the continuum measure of an ellipsoid, vol = |det B| pi^(d/2) / Gamma(d/2+1),
   is not provable with the libraries installed and is checked numerically). *)
From Coq Require Import List Arith QArith.
Import ListNotations.
Require Import NV.Finite NV.UnionSample NV.UnionSampleProofs.

(* finite cell space X, arbitrary overlapping members E_k, cube C: pick member k with probability |E_k|/S, a uniform
   cell of it, keep it if in the cube, accept with probability 1/multiplicity.  Every cell of the region comes out
   with the same probability 1/S: overlaps are not over-represented *)
Theorem C08_uniform : forall (A : Type) (X : list A) (members : list (A -> bool)) (cube : A -> bool) x,
  In x X -> cube x = true -> (0 < mult A members x)%nat -> ~ Stot A X members == 0 -> p_out A X members cube x == 1 / Stot A X members.
Proof. exact Finite.C08_uniform. Qed.
Print Assumptions C08_uniform.

(* the acceptance probability of a round is |region| / S: so (sum of member volumes) x (1 - n_reject/n_sample) is an
   unbiased estimate of the measure of the region contains() accepts *)
Theorem C08_accept : forall (A : Type) (X : list A) members cube, ~ Stot A X members == 0 ->
  p_accept A X members cube == qn (length (filter (region A members cube) X)) / Stot A X members.
Proof. exact Finite.C08_accept. Qed.
Print Assumptions C08_accept.

(* filtering a uniform law by the neural bounds leaves it uniform on what is kept *)
Theorem C08_filter : forall (A : Type) (X : list A) members cube keep x, In x X -> cube x = true -> (0 < mult A members x)%nat ->
  ~ Stot A X members == 0 -> keep x = true -> p_kept A X members cube keep x == 1 / Stot A X members.
Proof. exact Finite.C08_filter. Qed.
Print Assumptions C08_filter.

(* bookkeeping of sample(): exactly n points, oldest first, counters consistent; pooled counters add up *)
Theorem C08_sample : forall n_points batches s out s', counters_ok s -> sample n_points batches s = Some (out, s') ->
  length out = n_points /\ counters_ok s' /\ (s_nsample s <= s_nsample s')%nat /\ exists acc, out ++ s_cache s' = s_cache s ++ acc.
Proof. exact sample_spec. Qed.
Print Assumptions C08_sample.
Theorem C08_accepted : forall p, accepted p = true -> (1 <= pr_mult p)%nat.
Proof. exact accepted_mult. Qed.
Print Assumptions C08_accepted.
Theorem C08_merge : forall workers s, counters_ok s -> Forall counters_ok workers ->
  counters_ok (merge s workers) /\
  s_nsample (merge s workers) = (s_nsample s + fold_right (fun w a => s_nsample w + a) 0 workers)%nat /\
  s_nreject (merge s workers) = (s_nreject s + fold_right (fun w a => s_nreject w + a) 0 workers)%nat.
Proof. exact merge_spec. Qed.
Print Assumptions C08_merge.

(* non-vacuity: three cells, two overlapping members *)
Example C08_example :
  let X := [1; 2; 3]%nat in let members := [fun x => Nat.leb x 2; fun x => Nat.leb 2 x] in let cube := fun _ : nat => true in
  p_out nat X members cube 1%nat == 1 # 4 /\ p_out nat X members cube 2%nat == 1 # 4 /\ p_out nat X members cube 3%nat == 1 # 4 /\
  p_accept nat X members cube == 3 # 4.
Proof. vm_compute. repeat split. Qed.
