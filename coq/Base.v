From Coq Require Import List Arith NArith ZArith Bool Lia PeanoNat.
Import ListNotations.
Set Implicit Arguments.

(* boolean-mask indexing, as numpy a[mask] *)
Fixpoint fmask {A} (m : list bool) (l : list A) : list A :=
  match m, l with
  | b :: m', x :: l' => if b then x :: fmask m' l' else fmask m' l'
  | _, _ => []
  end.

Lemma fmask_map_filter {A} (f : A -> bool) (l : list A) :
  fmask (map f l) l = filter f l.
Proof. induction l as [|x l IH]; simpl; [reflexivity|]. destruct (f x); simpl; now rewrite IH. Qed.

Lemma fmask_combine {A B} (m : list bool) (a : list A) (b : list B) :
  fmask m (combine a b) = combine (fmask m a) (fmask m b).
Proof.
  revert a b; induction m as [|x m IH]; intros [|a0 a] [|b0 b]; simpl; try reflexivity.
  - destruct x; [|destruct (fmask m a)]; reflexivity.
  - destruct x; simpl; [f_equal|]; apply IH.
Qed.

Lemma fmask_In {A} (m : list bool) (l : list A) x : In x (fmask m l) -> In x l.
Proof.
  revert l; induction m as [|b m IH]; intros [|y l]; simpl; try tauto.
  destruct b; simpl; intros H; [destruct H as [H|H]; [now left|right; now apply IH]|right; now apply IH].
Qed.

Lemma fmask_length_le {A} (m : list bool) (l : list A) : length (fmask m l) <= length l.
Proof.
  revert l; induction m as [|b m IH]; intros [|y l]; simpl; try lia.
  destruct b; simpl; specialize (IH l); lia.
Qed.

Lemma fmask_same_length {A B} (m : list bool) (a : list A) (b : list B) :
  length a = length b -> length (fmask m a) = length (fmask m b).
Proof.
  revert a b; induction m as [|x m IH]; intros [|a0 a] [|b0 b]; simpl; try lia; intros H.
  destruct x; simpl; [f_equal|]; apply IH; lia.
Qed.
