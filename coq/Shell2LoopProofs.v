From Coq Require Import List Arith Bool Lia PeanoNat.
Import ListNotations.
Require Import NV.Base NV.Shell2 NV.Shell2Inv NV.Shell2Run NV.Shell2Loop.

Section Loop.
Variable contains : bid -> pid -> bool.
Variable in_cube : pid -> bool.
Variable lik blob : pid -> vid.
Variable n_batch : nat.
Notation step := (step contains in_cube lik blob n_batch).
Notation run := (run contains in_cube lik blob n_batch).
Notation run_loop := (run_loop contains in_cube lik blob n_batch).
Notation run_call := (Shell2Loop.run_call contains in_cube lik blob n_batch).
Notation step_nlike := (step_nlike contains in_cube lik blob n_batch).

(* an iteration of the accepted shape performs exactly one batch *)
Lemma shape_one_batch c s evs s' : iter_shape c s evs = true -> run s evs = Some s' -> n_like s' = n_like s + n_batch.
Proof.
  unfold iter_shape. intros Hs Er.
  assert (G : forall l s0 s1, run s0 l = Some s1 ->
              n_like s1 = n_like s0 + n_batch * length (filter is_batch l)).
  { induction l as [|e l IH]; simpl; intros s0 s1 E; [inversion E; lia|].
    destruct (step s0 e) as [m|] eqn:Es; [|discriminate]. rewrite (IH _ _ E), (step_nlike _ _ _ Es).
    destruct (is_batch e); simpl; lia. }
  rewrite (G _ _ _ Er).
  destruct (explored s).
  - destruct evs as [|[b| |[k|] r v|d|d] [|e2 t]]; try discriminate. simpl. lia.
  - destruct evs as [|e1 t1]; [discriminate|].
    destruct e1 as [b| |[k|] r v|d|d]; try discriminate.
    + destruct t1 as [|[b2| |[k2|] r2 v2|d2|d2] [|[b3| |[k3|] r3 v3|d3|d3] [|e4 t4]]]; try discriminate; simpl; lia.
    + destruct t1 as [|[b2| |[k2|] r2 v2|d2|d2] [|[b3| |[k3|] r3 v3|d3|d3] [|e4 t4]]]; try discriminate; simpl; lia.
    + destruct t1 as [|[b2| |[k2|] r2 v2|d2|d2] [|e3 t3]]; try discriminate; simpl; lia.
Qed.

Lemma under_lim_spec c s : under_lim c s = true <-> (forall l, rc_lim c = Some l -> n_like s < l).
Proof.
  unfold under_lim. destruct (rc_lim c) as [l|]; split; intros H.
  - intros l0 E; inversion E; subst. now apply Nat.ltb_lt.
  - apply Nat.ltb_lt. now apply H.
  - intros l E; discriminate.
  - reflexivity.
Qed.

(* C10: number of evaluations of a run() call: one batch per iteration *)
Theorem loop_count c : forall its ft fn s s' ret, run_loop c its ft fn s = Some (s', ret) -> n_like s' = n_like s + n_batch * length its.
Proof.
  induction its as [|it r IH]; simpl; intros ft fn s s' ret E.
  - destruct (guard c s ft fn); inversion E; subst. lia.
  - destruct (negb (guard c s (i_timeout it) (i_neff it))); [discriminate|].
    destruct (negb (iter_shape c s (i_events it))) eqn:Hs; [discriminate|]. apply negb_false_iff in Hs.
    destruct (run s (i_events it)) as [m|] eqn:Er; [|discriminate].
    rewrite (IH _ _ _ _ _ E), (shape_one_batch _ _ _ _ Hs Er). lia.
Qed.

(* C10: no new batch is started once the total has reached n_like_max, so the total exceeds the limit by less than one batch;
   a call made with the limit already reached does nothing at all *)
Theorem loop_budget c l : rc_lim c = Some l -> forall its ft fn s s' ret, run_loop c its ft fn s = Some (s', ret) ->
  (n_like s < l -> n_like s' < l + n_batch) /\ (l <= n_like s -> its = [] /\ s' = s).
Proof.
  intros Hl. induction its as [|it r IH]; simpl; intros ft fn s s' ret E.
  - destruct (guard c s ft fn); inversion E; subst. split; [lia|auto].
  - destruct (negb (guard c s (i_timeout it) (i_neff it))) eqn:Hg; [discriminate|]. apply negb_false_iff in Hg.
    unfold guard in Hg. apply andb_true_iff in Hg. destruct Hg as [Hg _]. apply andb_true_iff in Hg. destruct Hg as [Hu _].
    pose proof (proj1 (under_lim_spec c s) Hu l Hl) as Hlt.
    destruct (negb (iter_shape c s (i_events it))) eqn:Hs; [discriminate|]. apply negb_false_iff in Hs.
    destruct (run s (i_events it)) as [m|] eqn:Er; [|discriminate].
    pose proof (shape_one_batch _ _ _ _ Hs Er) as Hn. destruct (IH _ _ _ _ _ E) as [I1 I2]. split; [|lia].
    intros _. destruct (Nat.lt_ge_cases (n_like m) l) as [Hlt'|Hge]; [auto|]. destruct (I2 Hge) as [_ ->]. lia.
Qed.

(* C10: the return value is exactly the success predicate of the final state; a False return means the budget or the
   time limit stopped the run *)
Theorem loop_return c : forall its ft fn s s' ret, run_loop c its ft fn s = Some (s', ret) ->
  (ret = true <-> explored s' = true /\ Forall (fun sh => rc_nshell c <= view_n s' sh) (shells s') /\ fn = true) /\
  (ret = false -> (exists l, rc_lim c = Some l /\ l <= n_like s') \/ ft = true).
Proof.
  induction its as [|it r IH]; simpl; intros ft fn s s' ret E.
  - destruct (guard c s ft fn) eqn:Hg; inversion E; subst; clear E. split.
    + unfold success. rewrite !andb_true_iff. unfold all_nshell. rewrite forallb_forall, Forall_forall. split.
      * intros ((H1 & H2) & H3). repeat split; auto. intros x Hx. apply Nat.leb_le. auto.
      * intros (H1 & H2 & H3). repeat split; auto. intros x Hx. apply Nat.leb_le. auto.
    + intros Hf. unfold guard in Hg. rewrite Hf in Hg. simpl in Hg. rewrite andb_true_r in Hg.
      apply andb_false_iff in Hg. destruct Hg as [Hg|Hg].
      * left. unfold under_lim in Hg. destruct (rc_lim c) as [l|]; [|discriminate]. exists l. split; auto. now apply Nat.ltb_ge.
      * right. now apply negb_false_iff in Hg.
  - destruct (negb (guard c s (i_timeout it) (i_neff it))); [discriminate|].
    destruct (negb (iter_shape c s (i_events it))); [discriminate|].
    destruct (run s (i_events it)) as [m|]; [|discriminate]. eauto.
Qed.

(* C10: in the sampling phase the first shell below n_shell is the one sampled *)
Theorem loop_branch c it s : explored s = true -> iter_shape c s (i_events it) = true ->
  exists k r v, i_events it = [EvAddSamples (Some k) r v] /\
    (forall j, first_below c s 0 (shells s) = Some j -> k = j).
Proof.
  unfold iter_shape. intros -> H.
  destruct (i_events it) as [|[b| |[k|] r v|d|d] [|e2 t]]; try discriminate.
  exists k, r, v. split; auto. intros j Hj. rewrite Hj in H. now apply Nat.eqb_eq in H.
Qed.
Lemma first_below_spec c s : forall shs i j, first_below c s i shs = Some j ->
  exists sh, nth_error shs (j - i) = Some sh /\ i <= j /\ view_n s sh < rc_nshell c /\
  forall k sh', k < j - i -> nth_error shs k = Some sh' -> rc_nshell c <= view_n s sh'.
Proof.
  induction shs as [|a r IH]; simpl; intros i j H; [discriminate|].
  destruct (Nat.ltb_spec (view_n s a) (rc_nshell c)) as [Hlt|Hge].
  - inversion H; subst. exists a. rewrite Nat.sub_diag. repeat split; auto. intros k sh' Hk; lia.
  - destruct (IH _ _ H) as (sh & Hn & Hi & Hv & Hb). exists sh. replace (j - i) with (S (j - S i)) by lia.
    repeat split; auto; try lia. intros [|k] sh' Hk Hn'; simpl in Hn'; [inversion Hn'; subst; lia|].
    apply (Hb k sh'); auto. lia.
Qed.

(* the whole call, including the very first bound *)
Theorem call_count c first its ft fn s s' ret : run_call c first its ft fn s = Some (s', ret) -> n_like s' = n_like s + n_batch * length its.
Proof.
  unfold Shell2Loop.run_call. destruct (shells s) as [|sh0 r0] eqn:Hs.
  - destruct first as [|[b| |i rr v|d|d] [|e t]]; try discriminate.
    destruct (step s (EvAddBoundOk b)) as [s1|] eqn:Es; [|discriminate]. intros E.
    rewrite (loop_count _ _ _ _ _ _ _ E), (step_nlike _ _ _ Es). simpl. lia.
  - destruct first; [|discriminate]. apply loop_count.
Qed.
Theorem call_budget c l first its ft fn s s' ret : rc_lim c = Some l -> run_call c first its ft fn s = Some (s', ret) ->
  (n_like s < l -> n_like s' < l + n_batch) /\ (l <= n_like s -> its = [] /\ n_like s' = n_like s).
Proof.
  intros Hl. unfold Shell2Loop.run_call. destruct (shells s) as [|sh0 r0] eqn:Hs.
  - destruct first as [|[b| |i rr v|d|d] [|e t]]; try discriminate.
    destruct (step s (EvAddBoundOk b)) as [s1|] eqn:Es; [|discriminate]. intros E.
    pose proof (step_nlike _ _ _ Es) as Hn. simpl in Hn. destruct (loop_budget c l Hl _ _ _ _ _ _ E) as [B1 B2].
    split; [intros H; apply B1; lia|]. intros H. destruct B2 as [-> ->]; [lia|]. split; auto. lia.
  - destruct first; [|discriminate]. intros E. destruct (loop_budget c l Hl _ _ _ _ _ _ E) as [B1 B2].
    split; auto. intros H. destruct (B2 H) as [-> ->]. auto.
Qed.
End Loop.
