From Coq Require Import List Arith ZArith QArith Qround Bool Lia Lqa Sorted.
Import ListNotations.

(* ---- multiplicities ---- *)
Definition frac (r : Q) : Q := r - inject_Z (Qfloor r).
Definition repeats (r u : Q) : Z := (Qfloor r + (if Qlt_le_dec u (frac r) then 1 else 0))%Z.

Theorem C14_floor_or_next r u : repeats r u = Qfloor r \/ repeats r u = (Qfloor r + 1)%Z.
Proof. unfold repeats. destruct (Qlt_le_dec u (frac r)); [right|left]; lia. Qed.

Lemma frac_range r : 0 <= frac r /\ frac r < 1.
Proof.
  unfold frac. pose proof (Qfloor_le r) as H1. pose proof (Qlt_floor r) as H2. rewrite inject_Z_plus in H2.
  change (inject_Z 1) with 1 in H2. split; lra.
Qed.

(* with boost <= 1 every relative weight is <= 1, hence no sample is repeated *)
Theorem C14_boost_le_1 r u : 0 <= r -> r <= 1 -> 0 <= u -> (0 <= repeats r u <= 1)%Z.
Proof.
  intros H0 H1 Hu. unfold repeats. 
  assert (F0 : (0 <= Qfloor r)%Z) by (change 0%Z with (Qfloor 0); apply Qfloor_resp_le; exact H0).
  assert (F1 : (Qfloor r <= 1)%Z) by (change 1%Z with (Qfloor 1); apply Qfloor_resp_le; exact H1).
  destruct (Qlt_le_dec u (frac r)) as [Hlt|Hge]; [|lia].
  (* an extra copy needs frac r > 0, which excludes r = 1, so floor r = 0 *)
  assert (Qfloor r <> 1)%Z.
  { intros E. unfold frac in Hlt. rewrite E in Hlt. change (inject_Z 1) with 1 in Hlt. lra. }
  lia.
Qed.

(* ---- expansion: np.repeat(rows, reps, axis=0) ---- *)
Local Open Scope nat_scope.
Fixpoint expand {A} (reps : list nat) (rows : list A) : list A :=
  match reps, rows with r :: rs, x :: xs => repeat x r ++ expand rs xs | _, _ => [] end.

Lemma repeat_combine {A B} (x : A) (y : B) n : combine (repeat x n) (repeat y n) = repeat (x, y) n.
Proof. induction n; simpl; congruence. Qed.
Lemma combine_app {A B} (a1 a2 : list A) (b1 b2 : list B) : length a1 = length b1 ->
  combine (a1 ++ a2) (b1 ++ b2) = combine a1 b1 ++ combine a2 b2.
Proof. revert b1; induction a1 as [|x a1 IH]; intros [|y b1] H; simpl in *; try discriminate; auto. f_equal. apply IH. lia. Qed.

(* the same multiplicities applied to points, log-likelihoods and blobs keep the rows aligned *)
Theorem C14_aligned {A B} reps (a : list A) (b : list B) :
  expand reps (combine a b) = combine (expand reps a) (expand reps b).
Proof.
  revert a b; induction reps as [|r rs IH]; intros [|x a] [|y b]; simpl; auto.
  - now destruct (repeat x r ++ expand rs a).
  - rewrite combine_app by now rewrite !repeat_length. now rewrite repeat_combine, IH.
Qed.

(* order is preserved: expanding the index sequence gives a non-decreasing list *)
Lemma expand_seq_ge reps : forall k x, In x (expand reps (seq k (length reps))) -> k <= x.
Proof.
  induction reps as [|r rs IH]; simpl; intros k x H; [contradiction|]. apply in_app_or in H. destruct H as [H|H].
  - apply repeat_spec in H. lia.
  - apply IH in H. lia.
Qed.
Theorem C14_order reps : forall k, Sorted le (expand reps (seq k (length reps))).
Proof.
  induction reps as [|r rs IH]; simpl; intros k; [constructor|].
  induction r as [|r IHr]; simpl; [apply IH|]. constructor; auto.
  destruct r; simpl.
  - destruct (expand rs (seq (S k) (length rs))) eqn:E; constructor.
    assert (In n (expand rs (seq (S k) (length rs)))) by (rewrite E; now left). apply expand_seq_ge in H. lia.
  - constructor. lia.
Qed.

(* with multiplicities <= 1 distinct rows stay distinct *)
Theorem C14_nodup {A} reps (rows : list A) : Forall (fun r => r <= 1) reps -> NoDup rows -> NoDup (expand reps rows).
Proof.
  revert rows; induction reps as [|r rs IH]; intros [|x xs] HF HN; simpl; try constructor.
  inversion HF; subst. inversion HN; subst.
  assert (Hsub : forall y, In y (expand rs xs) -> In y xs).
  { clear. revert xs. induction rs as [|r rs IH]; intros [|x xs] y H; simpl in *; try contradiction.
    apply in_app_or in H. destruct H as [H|H]; [apply repeat_spec in H; now left|right; now apply IH]. }
  destruct r as [|[|r]]; simpl; [now apply IH| |lia].
  constructor; [|now apply IH]. intros Hin. apply H3. now apply Hsub.
Qed.
