From Coq Require Import List Arith ZArith QArith Qround Bool Lia Lqa Sorted.
Import ListNotations.

(* ---- multiplicities ---- *)
Definition frac (r : Q) : Q := r - inject_Z (Qfloor r).
Definition repeats (r u : Q) : Z := (Qfloor r + (if Qlt_le_dec u (frac r) then 1 else 0))%Z.

Theorem C14_floor_or_next r u : repeats r u = Qfloor r \/ repeats r u = (Qfloor r + 1)%Z.
Proof. unfold repeats. destruct (Qlt_le_dec u (frac r)); [right|left]; lia. Qed.

Lemma frac_range r : 0 <= frac r /\ frac r < 1.
Proof.
  unfold frac. pose proof (Qfloor_le r) as H1. pose proof (Qlt_floor r) as H2. rewrite inject_Z_plus in H2.
  change (inject_Z 1) with 1 in H2. split; lra.
Qed.

(* with boost <= 1 every relative weight is <= 1, hence no sample is repeated *)
Theorem C14_boost_le_1 r u : 0 <= r -> r <= 1 -> 0 <= u -> (0 <= repeats r u <= 1)%Z.
Proof.
  intros H0 H1 Hu. unfold repeats. 
  assert (F0 : (0 <= Qfloor r)%Z) by (change 0%Z with (Qfloor 0); apply Qfloor_resp_le; exact H0).
  assert (F1 : (Qfloor r <= 1)%Z) by (change 1%Z with (Qfloor 1); apply Qfloor_resp_le; exact H1).
  destruct (Qlt_le_dec u (frac r)) as [Hlt|Hge]; [|lia].
  (* an extra copy needs frac r > 0, which excludes r = 1, so floor r = 0 *)
  assert (Qfloor r <> 1)%Z.
  { intros E. unfold frac in Hlt. rewrite E in Hlt. change (inject_Z 1) with 1 in Hlt. lra. }
  lia.
Qed.

(* ---- expansion: np.repeat(rows, reps, axis=0) ---- *)
Local Open Scope nat_scope.
Fixpoint expand {A} (reps : list nat) (rows : list A) : list A :=
  match reps, rows with r :: rs, x :: xs => repeat x r ++ expand rs xs | _, _ => [] end.

Lemma repeat_combine {A B} (x : A) (y : B) n : combine (repeat x n) (repeat y n) = repeat (x, y) n.
Proof. induction n; simpl; congruence. Qed.
Lemma combine_app {A B} (a1 a2 : list A) (b1 b2 : list B) : length a1 = length b1 ->
  combine (a1 ++ a2) (b1 ++ b2) = combine a1 b1 ++ combine a2 b2.
Proof. revert b1; induction a1 as [|x a1 IH]; intros [|y b1] H; simpl in *; try discriminate; auto. f_equal. apply IH. lia. Qed.

(* the same multiplicities applied to points, log-likelihoods and blobs keep the rows aligned *)
Theorem C14_aligned {A B} reps (a : list A) (b : list B) :
  expand reps (combine a b) = combine (expand reps a) (expand reps b).
Proof.
  revert a b; induction reps as [|r rs IH]; intros [|x a] [|y b]; simpl; auto.
  - now destruct (repeat x r ++ expand rs a).
  - rewrite combine_app by now rewrite !repeat_length. now rewrite repeat_combine, IH.
Qed.

(* order is preserved: expanding the index sequence gives a non-decreasing list *)
Lemma expand_seq_ge reps : forall k x, In x (expand reps (seq k (length reps))) -> k <= x.
Proof.
  induction reps as [|r rs IH]; simpl; intros k x H; [contradiction|]. apply in_app_or in H. destruct H as [H|H].
  - apply repeat_spec in H. lia.
  - apply IH in H. lia.
Qed.
Theorem C14_order reps : forall k, Sorted le (expand reps (seq k (length reps))).
Proof.
  induction reps as [|r rs IH]; simpl; intros k; [constructor|].
  induction r as [|r IHr]; simpl; [apply IH|]. constructor; auto.
  destruct r; simpl.
  - destruct (expand rs (seq (S k) (length rs))) eqn:E; constructor.
    assert (In n (expand rs (seq (S k) (length rs)))) by (rewrite E; now left). apply expand_seq_ge in H. lia.
  - constructor. lia.
Qed.

(* with multiplicities <= 1 distinct rows stay distinct *)
Theorem C14_nodup {A} reps (rows : list A) : Forall (fun r => r <= 1) reps -> NoDup rows -> NoDup (expand reps rows).
Proof.
  revert rows; induction reps as [|r rs IH]; intros [|x xs] HF HN; simpl; try constructor.
  inversion HF; subst. inversion HN; subst.
  assert (Hsub : forall y, In y (expand rs xs) -> In y xs).
  { clear. revert xs. induction rs as [|r rs IH]; intros [|x xs] y H; simpl in *; try contradiction.
    apply in_app_or in H. destruct H as [H|H]; [apply repeat_spec in H; now left|right; now apply IH]. }
  destruct r as [|[|r]]; simpl; [now apply IH| |lia].
  constructor; [|now apply IH]. intros Hin. apply H3. now apply Hsub.
Qed.

(* ---- the whole resampling step on exact rationals ---- *)
Local Open Scope Q_scope.
Fixpoint qmax (l : list Q) : Q := match l with [] => 0 | x :: r => let m := qmax r in if Qlt_le_dec m x then x else m end.
(* posterior(equal_weight=True): relative weight x boost, one uniform draw per sample *)
Definition multiplicities (ws : list Q) (boost : Q) (us : list Q) : list nat :=
  let wm := qmax ws in map (fun wu => Z.to_nat (repeats (fst wu / wm * boost) (snd wu))) (combine ws us).

Lemma qmax_ge l : forall x, In x l -> x <= qmax l.
Proof.
  induction l as [|y l IH]; simpl; intros x H; [contradiction|].
  destruct (Qlt_le_dec (qmax l) y) as [Hlt|Hge]; destruct H as [->|H].
  - apply Qle_refl.
  - apply Qle_trans with (qmax l); [now apply IH|now apply Qlt_le_weak].
  - exact Hge.
  - now apply IH.
Qed.
Lemma rel_weight_range w wm boost : 0 <= w -> w <= wm -> 0 < wm -> 0 < boost -> boost <= 1 -> 0 <= w / wm * boost /\ w / wm * boost <= 1.
Proof.
  intros H0 H1 Hm Hb0 Hb1.
  assert (A : 0 <= w / wm) by (apply Qle_shift_div_l; auto; lra).
  assert (B : w / wm <= 1) by (apply Qle_shift_div_r; auto; lra).
  split; [apply Qmult_le_0_compat; auto; lra|].
  apply Qle_trans with (1 * boost); [apply Qmult_le_compat_r; auto; lra|lra].
Qed.

(* with boost at most one no sample is repeated, whatever the draws *)
Theorem boost_le_1_no_repeat ws boost us : Forall (fun w => 0 <= w) ws -> 0 < qmax ws -> 0 < boost -> boost <= 1 -> Forall (fun u => 0 <= u) us ->
  Forall (fun m => (m <= 1)%nat) (multiplicities ws boost us).
Proof.
  intros Hw Hm Hb0 Hb1 Hu. unfold multiplicities. apply Forall_forall. intros m Hin.
  apply in_map_iff in Hin. destruct Hin as ((w & u) & <- & Hin). simpl.
  pose proof (in_combine_l _ _ _ _ Hin) as Hw'. pose proof (in_combine_r _ _ _ _ Hin) as Hu'.
  rewrite Forall_forall in Hw, Hu.
  destruct (rel_weight_range w (qmax ws) boost (Hw w Hw') (qmax_ge ws w Hw') Hm Hb0 Hb1) as [R0 R1].
  destruct (C14_boost_le_1 _ u R0 R1 (Hu u Hu')) as [Z0 Z1]. lia.
Qed.
Theorem no_repeat_rows {A} ws boost us (rows : list A) : Forall (fun w => 0 <= w) ws -> 0 < qmax ws -> 0 < boost -> boost <= 1 -> Forall (fun u => 0 <= u) us ->
  NoDup rows -> NoDup (expand (multiplicities ws boost us) rows).
Proof. intros. apply C14_nodup; auto. now apply boost_le_1_no_repeat. Qed.

(* all returned weights are equal and normalised *)
Fixpoint qsumq (l : list Q) : Q := match l with [] => 0 | x :: r => x + qsumq r end.
Theorem equal_weights_normalised (n : nat) : (0 < n)%nat -> qsumq (repeat (1 / inject_Z (Z.of_nat n)) n) == 1.
Proof.
  intros Hn. assert (G : forall k c, qsumq (repeat c k) == inject_Z (Z.of_nat k) * c).
  { induction k as [|k IH]; intros c; simpl repeat; simpl qsumq; [ring|]. rewrite IH, Nat2Z.inj_succ. unfold Z.succ. rewrite inject_Z_plus. change (inject_Z 1) with 1. ring. }
  rewrite G. field. intros E. assert (0 < inject_Z (Z.of_nat n)) by (change 0 with (inject_Z 0); rewrite <- Zlt_Qlt; lia). lra.
Qed.
