(* Property C05: stopping and resuming at any batch boundary does not change the result.
   Generic theorem: for ANY state type, batch function, checkpoint protocol (save), resume (load), equivalence and
   observable: if the equivalence is reflexive and transitive, a batch and the observable respect it, and a reload of
   the saved state is equivalent to the state at every reachable batch boundary, then every history of run() slices
   and reloads (unboundedly many, in any order) yields the observables of the uninterrupted run.
   The harness discharges the round-trip hypothesis at every batch boundary of every explored run and validates the
   other hypotheses by true continuations (harness/c05.py). *)
From Coq Require Import List Arith.
Import ListNotations.
Require Import NV.Persist.

Theorem C05_any_history : forall (state file result : Type) (step : state -> state) (save : state -> file) (load : file -> state)
  (equiv : state -> state -> Prop) (obs : state -> result),
  (forall s, equiv s s) -> (forall a b c, equiv a b -> equiv b c -> equiv a c) ->
  (forall a b, equiv a b -> equiv (step a) (step b)) -> (forall a b, equiv a b -> obs a = obs b) ->
  forall s0, (forall s, reachable state step equiv s0 s -> equiv (load (save s)) s) ->
  forall h : list cut, obs (run_history state file step save load h s0) = obs (iter state step (batches h) s0).
Proof. exact Persist.C05_any_history. Qed.
Print Assumptions C05_any_history.

(* non-vacuity: a counter machine whose checkpoint drops a cache field *)
Example C05_example :
  let step (s : nat * nat) := (S (fst s), snd s + 7) in
  let save (s : nat * nat) := fst s in
  let load (f : nat) := (f, 0) in
  let h := [Slice 3; Reload; Slice 2; Reload; Reload; Slice 1] in
  fst (run_history _ _ step save load h (0, 0)) = fst (iter _ step (batches h) (0, 0)) /\ batches h = 6.
Proof. vm_compute. split; reflexivity. Qed.
