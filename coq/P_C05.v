(* Property C05: stopping and resuming at any batch boundary does not change the result.
   Generic theorem: for ANY state type, batch function, checkpoint protocol (save), resume (load), equivalence and
   observable: if the equivalence is reflexive and transitive, a batch and the observable respect it, and a reload of
   the saved state is equivalent to the state at every reachable batch boundary, then every history of run() slices
   and reloads (unboundedly many, in any order) yields the observables of the uninterrupted run.
   The harness discharges the round-trip hypothesis at every batch boundary of every explored run and validates the
   other hypotheses by true continuations (harness/c05.py). *)
From Coq Require Import List Arith.
Import ListNotations.
Require Import NV.Persist.

Theorem C05_any_history : forall (state file result : Type) (step : state -> state) (save : state -> file) (load : file -> state)
  (equiv : state -> state -> Prop) (obs : state -> result),
  (forall s, equiv s s) -> (forall a b c, equiv a b -> equiv b c -> equiv a c) ->
  (forall a b, equiv a b -> equiv (step a) (step b)) -> (forall a b, equiv a b -> obs a = obs b) ->
  forall s0, (forall s, reachable state step equiv s0 s -> equiv (load (save s)) s) ->
  forall h : list cut, obs (run_history state file step save load h s0) = obs (iter state step (batches h) s0).
Proof. exact Persist.C05_any_history. Qed.
Print Assumptions C05_any_history.

(* non-vacuity: a counter machine whose checkpoint drops a cache field *)
Example C05_example :
  let step (s : nat * nat) := (S (fst s), snd s + 7) in
  let save (s : nat * nat) := fst s in
  let load (f : nat) := (f, 0) in
  let h := [Slice 3; Reload; Slice 2; Reload; Reload; Slice 1] in
  fst (run_history _ _ step save load h (0, 0)) = fst (iter _ step (batches h) (0, 0)) /\ batches h = 6.
Proof. vm_compute. split; reflexivity. Qed.

(* ---- the checkpoint protocol of the sampler itself (SamplerCodec.v) ---- *)
Require Import NV.Codec NV.SamplerCodec NV.SamplerCodecProofs NV.Shell2 NV.Shell2Thm.

(* an incremental update (write_shell_update) of the file left by the last full write yields exactly the file a full
   write of the newer state would yield, provided the newer state differs only in what batches on `shell` and discard
   toggles can change: everything except the static configuration, `explored`, the exploration counters, the other
   shells' arrays and the other bounds' groups *)
Theorem C05_update_full_write : forall shell s0 s1, wf_file s1 -> shell < length (sf_points s1) -> batch_frame shell s0 s1 ->
  upd_file (write_file s0) s1 shell = write_file s1.
Proof. exact update_is_full_write. Qed.
Print Assumptions C05_update_full_write.

(* Sampler.__init__(resume=True) reads back exactly the state a full write stored -- and hence exactly the newer state from
   a file maintained by incremental updates *)
Theorem C05_read_write : forall s dflt, wf_file s -> 0 < length (sf_points s) ->
  read_file (sf_static s) (length (sf_points s)) dflt (write_file s) = Some s.
Proof. exact read_write. Qed.
Print Assumptions C05_read_write.
Theorem C05_read_update : forall shell s0 s1 dflt, wf_file s1 -> shell < length (sf_points s1) -> batch_frame shell s0 s1 ->
  read_file (sf_static s1) (length (sf_points s1)) dflt (upd_file (write_file s0) s1 shell) = Some s1.
Proof. exact read_update. Qed.
Print Assumptions C05_read_update.

(* the list of bounds: each group is read by the class its stored type names, so any list -- in particular one whose first
   entry is a nautilus bound because the unit-cube shell was removed as empty -- is read back entry by entry *)
Require Import NV.Codec2 NV.Codec2Proofs NV.BoundList NV.ResumeChain.
Theorem C05_bounds_read : forall any_cube all_cube alen tnat nlayers l, Forall (wf_sbound any_cube all_cube alen tnat nlayers) l ->
  r_bounds any_cube all_cube alen tnat nlayers (map w_sbound l) = Some (map persisted_sbound l).
Proof. exact r_w_bounds. Qed.
Print Assumptions C05_bounds_read.
(* the whole resume: the file of a state whose bound groups are the written forms of a list of bounds is read back as that state, and
   its bound groups as that list (with the non-persisted caches dropped) *)
Theorem C05_resume_chain : forall any_cube all_cube alen tnat nlayers s dflt l,
  wf_file s -> 0 < length (sf_points s) -> sf_bounds s = map w_sbound l -> Forall (wf_sbound any_cube all_cube alen tnat nlayers) l ->
  exists s', read_file (sf_static s) (length (sf_points s)) dflt (write_file s) = Some s' /\ s' = s /\
             r_bounds any_cube all_cube alen tnat nlayers (sf_bounds s') = Some (map persisted_sbound l).
Proof. exact resume_chain. Qed.
Print Assumptions C05_resume_chain.
(* regression witness: the reader as found (position decides the class) turns a nautilus bound in first position into the unit cube *)
Theorem C05_bounds_read_asis_refuted : forall any_cube all_cube alen tnat nlayers b,
  exists c, r_sbound_asis any_cube all_cube alen tnat nlayers 0 (w_sbound (SNaut b)) = Some (SCube c).
Proof. exact r_sbound_asis_refuted. Qed.
Print Assumptions C05_bounds_read_asis_refuted.

(* and that is all a batch or a toggle changes in the shell machine: one shell (its bound, exploration counters and
   position unchanged), the transfer marks and n_like -- resp. only the flag *)
Theorem C05_batch_frame : forall contains in_cube lik blob n_batch s idx rounds vals s',
  step contains in_cube lik blob n_batch s (EvAddSamples idx rounds vals) = Some s' ->
  exists i, (match idx with Some k => i = k | None => S i = length (shells s) end) /\
    (forall j, j <> i -> nth_error (shells s') j = nth_error (shells s) j) /\
    (forall sh sh', nth_error (shells s) i = Some sh -> nth_error (shells s') i = Some sh' ->
        bnd sh' = bnd sh /\ nsample_exp sh' = nsample_exp sh /\ end_exp sh' = end_exp sh) /\
    length (shells s') = length (shells s) /\ explored s' = explored s /\ discard s' = discard s /\
    t_pts s' = t_pts s /\ t_lls s' = t_lls s /\ t_bls s' = t_bls s.
Proof. exact batch_frame_abs. Qed.
Print Assumptions C05_batch_frame.
Theorem C05_toggle_frame : forall contains in_cube lik blob n_batch s d s', step contains in_cube lik blob n_batch s (EvSetDiscard d) = Some s' ->
  shells s' = shells s /\ explored s' = explored s /\ n_like s' = n_like s /\ t_pts s' = t_pts s /\ t_from s' = t_from s.
Proof. exact toggle_frame_abs. Qed.
Print Assumptions C05_toggle_frame.

(* ---- the control state a resume must carry: thresholds, update counters and the trigger (Shell2Ctl.v) ---- *)
From Coq Require Import ZArith.
Require Import NV.Base NV.Shell2Ctl NV.Shell2CtlProofs.

(* the control layer only annotates the shell machine: its core component is a run of Shell2.step, so C01/C02/C10/C12
   hold along every controlled history *)
Theorem C05_control_core : forall contains in_cube lik blob n_batch vrank neg_inf cc evs c c',
  crun contains in_cube lik blob n_batch vrank neg_inf cc c evs = Some c' ->
  Shell2.run contains in_cube lik blob n_batch (core c) evs = Some (core c').
Proof. exact crun_core. Qed.
Print Assumptions C05_control_core.
(* one threshold per shell, along every history *)
Theorem C05_control_aligned : forall contains in_cube lik blob n_batch vrank neg_inf cc evs c c',
  Aligned c -> crun contains in_cube lik blob n_batch vrank neg_inf cc c evs = Some c' -> Aligned c'.
Proof. exact crun_aligned. Qed.
Print Assumptions C05_control_aligned.
(* the counters: reset by a bound attempt, advanced only by exploration batches, untouched by everything else
   (in particular by sampling-phase batches, toggles and the end of exploration) *)
Theorem C05_control_counters : forall contains in_cube lik blob n_batch vrank neg_inf cc c e c',
  cstep contains in_cube lik blob n_batch vrank neg_inf cc c e = Some c' ->
  match e with
  | EvAddBoundOk _ => (shells (core c) <> [] -> nui c' = 0%Z /\ nli c' = 0) /\ (shells (core c) = [] -> nui c' = (- Z.of_nat (cc_nlive cc))%Z /\ nli c' = 0)
  | EvAddBoundFail => nui c' = 0%Z /\ nli c' = 0
  | EvAddSamples None _ vals => nli c' = nli c + n_batch /\ (nui c <= nui c' <= nui c + Z.of_nat (length vals))%Z
  | _ => nui c' = nui c /\ nli c' = nli c
  end.
Proof. exact counters_step. Qed.
Print Assumptions C05_control_counters.
(* a bound is accepted only if some stored likelihood lies strictly below its threshold *)
Theorem C05_control_zoom : forall contains in_cube lik blob n_batch vrank neg_inf cc c b c',
  shells (core c) <> [] -> cstep contains in_cube lik blob n_batch vrank neg_inf cc c (EvAddBoundOk b) = Some c' ->
  exists t, threshold vrank cc (core c) = Some t /\ all_above vrank (vrank t) (all_lls (core c)) = false /\ lmins c' = lmins c ++ [t].
Proof. exact bound_zooms. Qed.
Print Assumptions C05_control_zoom.
(* a history cut into loop iterations whose bound attempts obey the trigger is a controlled history *)
Theorem C05_control_iters : forall contains in_cube lik blob n_batch vrank neg_inf cc its c c',
  crun_iters contains in_cube lik blob n_batch vrank neg_inf cc c its = Some c' ->
  crun contains in_cube lik blob n_batch vrank neg_inf cc c (concat its) = Some c'.
Proof. exact iters_trigger. Qed.
Print Assumptions C05_control_iters.

(* the threshold is the order statistic the code computes with np.sort: the n_live-th largest stored value (at least n_live
   values at or above it, fewer than n_live strictly above; this fixes its rank), or the smallest value above the plateau *)
Require Import NV.Shell2CtlSpec.
Theorem C05_control_threshold : forall vrank cc s, 1 <= cc_nlive cc <= length (all_lls s) -> 1 <= cc_npmin cc ->
  exists v, Kth vrank (cc_nlive cc) (all_lls s) v /\ ((1 < count_eq vrank (vrank v) (all_lls s) /\ cc_npmin cc <= count_gt vrank (vrank v) (all_lls s) /\ exists t, threshold vrank cc s = Some t /\ MinAbove vrank (vrank v) (all_lls s) (Some t)) \/ (~ (1 < count_eq vrank (vrank v) (all_lls s) /\ cc_npmin cc <= count_gt vrank (vrank v) (all_lls s)) /\ threshold vrank cc s = Some v)).
Proof. exact threshold_spec. Qed.
Print Assumptions C05_control_threshold.
Theorem C05_control_threshold_unique : forall vrank k l v w, Kth vrank k l v -> Kth vrank k l w -> vrank v = vrank w.
Proof. exact kth_unique. Qed.
Print Assumptions C05_control_threshold_unique.

(* non-vacuity: the first bound of a run with n_live = 3 *)
Example C05_control_example :
  let cc := mkCC 3 2 10 1 in
  match cstep (fun _ _ => true) (fun _ => true) (fun _ => 1%positive) (fun _ => 1%positive) 2 (fun _ => 0%Z) 1%positive cc cinit (EvAddBoundOk 1%positive) with
  | Some c => lmins c = [1%positive] /\ nui c = (-3)%Z /\ Aligned c /\ trigger cc c = false
  | None => False
  end.
Proof. vm_compute. repeat split. Qed.
