From Coq Require Import List Arith NArith ZArith Bool Lia PeanoNat.
Import ListNotations.
Require Import NV.Base NV.Shell2.

Ltac brk := match goal with
  | |- (if ?c then _ else _) = Some _ -> _ => destruct c eqn:?; try (intros; discriminate)
  | |- (match ?o with _ => _ end) = Some _ -> _ => destruct o eqn:?; try (intros; discriminate)
  end.

Section Inv.
Variable contains : bid -> pid -> bool.
Variable in_cube : pid -> bool.
Variable lik blob : pid -> vid.
Variable n_batch : nat.
Notation step := (step contains in_cube lik blob n_batch).
Notation run := (run contains in_cube lik blob n_batch).

Definition cnt_sh (ex : bool) (sh : shell) : Prop :=
  length (pts sh) <= nsample sh /\
  (ex = true -> end_exp sh <= length (pts sh) /\ nsample_exp sh <= nsample sh /\
                length (pts sh) - end_exp sh <= nsample sh - nsample_exp sh).
Definition Cnt (s : st) : Prop := Forall (cnt_sh (explored s)) (shells s).

Lemma do_rounds_cnt known b later prov tmode : forall rounds a a',
  do_rounds contains in_cube n_batch known b later prov tmode rounds a = Some a' ->
  length (a_kept a) + length (a_used a) <= a_nbound a -> length (a_kept a') + length (a_used a') <= a_nbound a'.
Proof.
  induction rounds as [|r rs IH]; simpl; intros a a' E H.
  - destruct (Nat.eqb _ _); inversion E; subst; auto.
  - revert E. brk. brk. brk. brk. brk. brk. intros E. eapply IH; [exact E|]. simpl. rewrite !app_length.
    match goal with H0 : negb (Nat.leb _ _) = false |- _ => apply negb_false_iff, Nat.leb_le in H0 end. lia.
Qed.

Lemma ab_go_cnt b : forall shs i shs' ps ls bs fs,
  ab_go contains b i shs = (shs', (ps, ls, bs, fs)) -> Forall (cnt_sh false) shs -> Forall (cnt_sh false) shs'.
Proof.
  induction shs as [|sh r IH]; simpl; intros i shs' ps ls bs fs E HF; [inversion E; subst; constructor|].
  destruct (ab_go contains b (S i) r) as [r' [[[ps0 ls0] bs0] fs0]] eqn:Er. inversion E; subst; clear E.
  inversion HF as [|? ? [H1 _] HF']; subst. constructor; [|eapply IH; eauto].
  split; simpl; [|discriminate]. pose proof (fmask_length_le (map negb (map (contains b) (pts sh))) (pts sh)). lia.
Qed.

Lemma upd_nth_Forall {A} (P : A -> Prop) (f : A -> A) i l : Forall P l -> (forall x, P x -> P (f x)) -> Forall P (upd_nth i f l).
Proof. intros H Hf. revert i; induction H as [|x l Hx H IH]; intros [|i]; simpl; constructor; auto. Qed.

Lemma step_cnt s e s' : Cnt s -> step s e = Some s' -> Cnt s'.
Proof.
  unfold Cnt. intros HC. destruct e as [b| |idx rounds vals|d|d]; simpl.
  - unfold add_bound. destruct (explored s) eqn:Ex; [intros; discriminate|]. brk. destruct (shells s) as [|sh0 r0] eqn:Es.
    + intros E; inversion E; subst; simpl. constructor; [|constructor]. split; simpl; [lia|discriminate].
    + rewrite <- Es in *. destruct (ab_go contains b 0 (shells s)) as [shs' [[[ps ls] bs] fs]] eqn:Eg.
      intros E; inversion E; subst; simpl. apply Forall_app; split; [eapply ab_go_cnt; eauto|].
      constructor; [|constructor]. split; simpl; [lia|discriminate].
  - brk. intros E; inversion E; subst. match goal with H : explored _ = _ |- _ => rewrite H end. auto.
  - unfold add_samples. brk. brk. brk.
    match goal with |- (match ?o with _ => _ end) = _ -> _ => destruct o as [a|] eqn:Ed end; [|discriminate].
    brk. match goal with |- (match ?o with _ => _ end) = _ -> _ => destruct o as [[[tp tl] tb]|] eqn:Etr end; [|discriminate].
    intros E; inversion E; subst s'; clear E. simpl.
    apply do_rounds_cnt in Ed; [|simpl; lia].
    assert (Htp : length tp <= length (a_used a)).
    { destruct idx.
      - destruct (a_used a); inversion Etr; subst; simpl; lia.
      - destruct (mapM (fun j => nth_error (t_pts s) j) (a_used a)) as [tp0|] eqn:E1; [|discriminate].
        destruct (mapM (fun j => nth_error (t_lls s) j) (a_used a)); [|discriminate].
        destruct (mapM (fun j => nth_error (t_bls s) j) (a_used a)); [|discriminate]. inversion Etr; subst.
        clear -E1. revert tp E1. induction (a_used a) as [|j l IH]; simpl; intros tp E; [inversion E; simpl; lia|].
        destruct (nth_error (t_pts s) j); [|discriminate]. destruct (mapM _ l) eqn:Em; [|discriminate].
        inversion E; subst; simpl. specialize (IH _ eq_refl). lia. }
    apply upd_nth_Forall; auto. intros x [H1 H2]. split; simpl.
    + rewrite !app_length. lia.
    + intros Hx. specialize (H2 Hx). rewrite !app_length. lia.
  - unfold end_exploration. brk. intros E; inversion E; subst; simpl. rewrite Forall_forall in *.
    intros y Hy. apply in_map_iff in Hy. destruct Hy as (x & <- & Hx). apply filter_In in Hx. destruct Hx as [Hx _].
    destruct (HC x Hx) as [H1 _]. split; simpl; [auto|]. intros _. lia.
  - intros E; inversion E; subst; simpl. auto.
Qed.

Theorem C02_fraction : forall evs s, run init evs = Some s -> forall sh, In sh (shells s) -> view_n s sh <= view_ns s sh.
Proof.
  assert (G : forall evs s0 s, Cnt s0 -> run s0 evs = Some s -> Cnt s).
  { induction evs as [|e evs IH]; simpl; intros s0 s H E; [inversion E; subst; auto|].
    destruct (step s0 e) eqn:Es; [|discriminate]. eapply IH; [|eauto]. eapply step_cnt; eauto. }
  intros evs s E sh Hin. assert (HC : Cnt s) by (eapply G; [|exact E]; constructor).
  unfold Cnt in HC. rewrite Forall_forall in HC. destruct (HC sh Hin) as [H1 H2].
  unfold view_n, view_ns, vstart. destruct (discard s && explored s) eqn:Ed; [|lia].
  apply andb_true_iff in Ed. destruct Ed as [_ Ex]. specialize (H2 Ex). lia.
Qed.
End Inv.
