(* Shape algebra of the blob array built in Sampler.evaluate_likelihood (sampler.py 876-890):
   `blobs = np.array(blobs, dtype)` has shape (n_batch, k, ...) and axes of length one are removed -- but never the
   batch axis.  Before the repair np.squeeze removed every axis of length one, so a batch of one lost its batch axis. *)
From Coq Require Import List Arith Bool Lia.
Import ListNotations.

Definition shape := list nat.
Definition not_one (n : nat) : bool := negb (Nat.eqb n 1).
(* blobs.reshape((len(blobs),) + tuple(n for n in blobs.shape[1:] if n != 1)) *)
Definition squeeze_keep_batch (s : shape) : shape := match s with [] => [] | n :: rest => n :: filter not_one rest end.
(* np.squeeze *)
Definition squeeze_all (s : shape) : shape := filter not_one s.
Definition size (s : shape) : nat := fold_right Nat.mul 1 s.

Lemma size_filter s : size (filter not_one s) = size s.
Proof.
  induction s as [|n s IH]; simpl; auto. unfold not_one at 1. destruct (Nat.eqb_spec n 1) as [->|H]; simpl; rewrite IH; lia.
Qed.
(* the batch axis survives for every batch size (one included) and every blob shape; no element is lost or duplicated;
   no other axis of length one remains *)
Theorem keep_batch_spec n rest : squeeze_keep_batch (n :: rest) = n :: filter not_one rest /\
  hd 0 (squeeze_keep_batch (n :: rest)) = n /\ size (squeeze_keep_batch (n :: rest)) = size (n :: rest) /\
  Forall (fun k => k <> 1) (tl (squeeze_keep_batch (n :: rest))).
Proof.
  repeat split; simpl; auto.
  - now rewrite size_filter.
  - apply Forall_forall. intros k Hk. apply filter_In in Hk. destruct Hk as [_ Hk]. unfold not_one in Hk.
    apply negb_true_iff, Nat.eqb_neq in Hk. exact Hk.
Qed.
(* regression witness: np.squeeze drops the batch axis of a batch of one *)
Example squeeze_all_refuted : exists s, hd 0 s = 1 /\ hd 0 (squeeze_all s) <> 1 /\ length (squeeze_all s) < length (squeeze_keep_batch s).
Proof. exists [1; 1]. simpl. repeat split; lia. Qed.
