From Coq Require Import List Arith NArith ZArith Bool Lia PeanoNat.
Import ListNotations.
Require Import NV.Base NV.Shell2.

Lemma fmask_map {A B} (f : A -> B) m l : fmask m (map f l) = map f (fmask m l).
Proof. revert l; induction m as [|b m IH]; intros [|x l]; simpl; auto. destruct b; simpl; now rewrite IH. Qed.
Lemma mapM_nth_map {A B} (f : A -> B) (l : list A) idx out :
  mapM (fun j => nth_error l j) idx = Some out -> mapM (fun j => nth_error (map f l) j) idx = Some (map f out).
Proof.
  revert out; induction idx as [|j idx IH]; simpl; intros out E; [inversion E; reflexivity|].
  destruct (nth_error l j) eqn:En; [|discriminate]. destruct (mapM _ idx) eqn:Em; [|discriminate]. inversion E; subst.
  rewrite nth_error_map, En. simpl. now rewrite (IH _ eq_refl).
Qed.
Lemma mapM_length {A B} (f : A -> option B) l out : mapM f l = Some out -> length out = length l.
Proof.
  revert out; induction l as [|x l IH]; simpl; intros out E; [inversion E; reflexivity|].
  destruct (f x); [|discriminate]. destruct (mapM f l); [|discriminate]. inversion E; subst. simpl. now rewrite (IH _ eq_refl).
Qed.
Lemma vals_eqb_eq a b : vals_eqb a b = true -> a = b.
Proof.
  revert b; induction a as [|[x1 y1] a IH]; intros [|[x2 y2] b]; simpl; intros H; try discriminate; auto.
  apply andb_true_iff in H. destruct H as [H H3]. apply andb_true_iff in H. destruct H as [H1 H2].
  apply Pos.eqb_eq in H1, H2. subst. f_equal. now apply IH.
Qed.
Lemma upd_nth_In {A} (f : A -> A) i l y : In y (upd_nth i f l) -> In y l \/ exists x, nth_error l i = Some x /\ y = f x.
Proof.
  revert i; induction l as [|x l IH]; intros [|i]; simpl; intros H; auto.
  - destruct H as [H|H]; [right; exists x; auto|left; auto].
  - destruct H as [H|H]; [left; auto|]. destruct (IH _ H) as [H1|(x0 & H1 & H2)]; [left; auto|right; exists x0; auto].
Qed.

Ltac brk := match goal with
  | |- (if ?c then _ else _) = Some _ -> _ => destruct c eqn:?; try (intros; discriminate)
  | |- (match ?o with _ => _ end) = Some _ -> _ => destruct o eqn:?; try (intros; discriminate)
  end.

Section Inv.
Variable contains : bid -> pid -> bool.
Variable in_cube : pid -> bool.
Variable lik blob : pid -> vid.
Variable n_batch : nat.
Notation step := (step contains in_cube lik blob n_batch).
Notation run := (run contains in_cube lik blob n_batch).

(* ---------- C03: rows are faithful triples ---------- *)
Definition faithful_sh (sh : shell) : Prop := lls sh = map lik (pts sh) /\ bls sh = map blob (pts sh).
Definition Faithful (s : st) : Prop :=
  Forall faithful_sh (shells s) /\ t_lls s = map lik (t_pts s) /\ t_bls s = map blob (t_pts s).

Lemma ab_go_faithful b : forall shs i shs' ps ls bs fs,
  ab_go contains b i shs = (shs', (ps, ls, bs, fs)) -> Forall faithful_sh shs ->
  Forall faithful_sh shs' /\ ls = map lik ps /\ bs = map blob ps.
Proof.
  induction shs as [|sh r IH]; simpl; intros i shs' ps ls bs fs E HF.
  - inversion E; subst. repeat split; constructor.
  - destruct (ab_go contains b (S i) r) as [r' [[[ps0 ls0] bs0] fs0]] eqn:Er. inversion E; subst; clear E.
    inversion HF as [|? ? [H1 H2] HF']; subst. destruct (IH _ _ _ _ _ _ Er HF') as (P1 & P2 & P3).
    repeat split.
    + constructor; auto. split; simpl; [rewrite H1|rewrite H2]; apply fmask_map.
    + rewrite map_app, H1, fmask_map, P2. reflexivity.
    + rewrite map_app, H2, fmask_map, P3. reflexivity.
Qed.

Lemma step_faithful s e s' : Faithful s -> step s e = Some s' -> Faithful s'.
Proof.
  intros (HF & HL & HB). destruct e as [b| |idx rounds vals|d|d]; simpl.
  - unfold add_bound. destruct (explored s); [discriminate|]. destruct (existsb _ _); [discriminate|].
    destruct (shells s) as [|sh0 r0] eqn:Es.
    + intros E; inversion E; subst. repeat split; simpl; auto. repeat constructor.
    + rewrite <- Es in *. destruct (ab_go contains b 0 (shells s)) as [shs' [[[ps ls] bs] fs]] eqn:Eg.
      intros E; inversion E; subst; clear E. destruct (ab_go_faithful _ _ _ _ _ _ _ _ Eg HF) as (P1 & P2 & P3).
      repeat split; simpl; auto. apply Forall_app; split; auto. repeat constructor.
  - destruct (explored s); intros E; inversion E; subst. repeat split; auto.
  - unfold add_samples. brk. brk. brk. brk. brk.
    match goal with H : negb (vals_eqb vals _) = false |- _ => apply negb_false_iff, vals_eqb_eq in H; rename H into Ev end.
    match goal with |- (match ?o with _ => _ end) = _ -> _ => destruct o as [[[tp tl] tb]|] eqn:Etr end; [|discriminate].
    match goal with H : nth_error (shells s) _ = Some _ |- _ => rename H into En end.
    intros E; inversion E; subst s'; clear E. repeat split; simpl; auto.
    assert (Htr : tl = map lik tp /\ tb = map blob tp).
    { destruct idx.
      - destruct (a_used a); inversion Etr; subst; auto.
      - destruct (mapM (fun j => nth_error (t_pts s) j) (a_used a)) as [tp0|] eqn:E1; [|discriminate].
        rewrite HL, HB in Etr. rewrite (mapM_nth_map lik _ _ _ E1), (mapM_nth_map blob _ _ _ E1) in Etr.
        inversion Etr; subst; auto. }
    destruct Htr as [-> ->]. rewrite Forall_forall in *. intros y Hy. apply upd_nth_In in Hy.
    destruct Hy as [Hy|(x & Hx & ->)]; auto. destruct (HF x (nth_error_In _ _ Hx)) as [H1 H2].
    split; simpl; rewrite ?H1, ?H2, Ev, !map_app, !map_map; simpl; rewrite ?map_map; reflexivity.
  - unfold end_exploration. destruct (explored s); [discriminate|]. intros E; inversion E; subst; clear E.
    repeat split; simpl; auto. rewrite Forall_forall in *. intros y Hy. apply in_map_iff in Hy.
    destruct Hy as (x & <- & Hx). apply filter_In in Hx. destruct Hx as [Hx _]. exact (HF x Hx).
  - intros E; inversion E; subst. repeat split; auto.
Qed.

Theorem C03_rows : forall evs s, run (init) evs = Some s -> Faithful s.
Proof.
  assert (G : forall evs s0 s, Faithful s0 -> run s0 evs = Some s -> Faithful s).
  { induction evs as [|e evs IH]; simpl; intros s0 s H E; [inversion E; subst; auto|].
    destruct (step s0 e) eqn:Es; [|discriminate]. eapply IH; [|eauto]. eapply step_faithful; eauto. }
  intros evs s. apply G. repeat split; simpl; auto.
Qed.

(* ---------- C10: every batch evaluates exactly n_batch fresh points ---------- *)
Lemma do_rounds_kept known b later prov tmode : forall rounds a a',
  do_rounds contains in_cube n_batch known b later prov tmode rounds a = Some a' -> length (a_kept a') = n_batch.
Proof.
  induction rounds as [|r rs IH]; simpl; intros a a' E.
  - destruct (Nat.eqb (length (a_kept a)) n_batch) eqn:H; inversion E; subst. now apply Nat.eqb_eq.
  - repeat match type of E with
    | (if ?c then None else _) = _ => destruct c; [discriminate|]
    | (match ?o with _ => _ end) = _ => destruct o; [|discriminate]
    end. eapply IH; eauto.
Qed.
Theorem C10_batch s idx rounds vals s' :
  step s (EvAddSamples idx rounds vals) = Some s' -> n_like s' = n_like s + n_batch /\ length vals = n_batch.
Proof.
  simpl. unfold add_samples. brk. brk. brk. brk. brk.
  match goal with H : negb (vals_eqb vals _) = false |- _ => apply negb_false_iff, vals_eqb_eq in H; rename H into Ev end.
  match goal with H : do_rounds _ _ _ _ _ _ _ _ _ _ = Some _ |- _ => rename H into Ed end.
  match goal with |- (match ?o with _ => _ end) = _ -> _ => destruct o as [[[tp tl] tb]|] end; [|discriminate].
  intros E; inversion E; subst; simpl. apply do_rounds_kept in Ed. rewrite map_length. lia.
Qed.

(* ---------- C12: exploration ends once; afterwards bounds are frozen and shells only grow by appending ---------- *)
Definition prefix {A} (a b : list A) : Prop := exists t, b = a ++ t.
Lemma upd_nth_rel {A} (R : A -> A -> Prop) (f : A -> A) i l : (forall x, R x x) -> (forall x, R x (f x)) -> Forall2 R l (upd_nth i f l).
Proof. intros Hr Hf. revert i; induction l as [|x l IH]; intros [|i]; simpl; constructor; auto. clear -Hr. induction l; constructor; auto. Qed.

Definition grows (a b : shell) : Prop :=
  bnd b = bnd a /\ prefix (pts a) (pts b) /\ prefix (lls a) (lls b) /\ prefix (bls a) (bls b) /\
  end_exp b = end_exp a /\ nsample_exp b = nsample_exp a /\ nsample a <= nsample b.
Lemma grows_refl a : grows a a.
Proof. repeat split; auto; exists []; now rewrite app_nil_r. Qed.

Theorem C12_step s e s' : explored s = true -> step s e = Some s' ->
  explored s' = true /\ Forall2 grows (shells s) (shells s') /\
  match e with EvAddBoundOk _ | EvAddBoundFail | EvEndExploration _ | EvAddSamples None _ _ => False | _ => True end.
Proof.
  intros Hx. destruct e as [b| |idx rounds vals|d|d]; simpl.
  - unfold add_bound. rewrite Hx. discriminate.
  - rewrite Hx. discriminate.
  - unfold add_samples. brk. rewrite Hx. destruct idx as [i|]; simpl; [|discriminate].
    brk. brk. brk. match goal with |- context [a_used ?a] => destruct (a_used a) end; [|discriminate].
    intros E; inversion E; subst; simpl. repeat split; auto.
    apply upd_nth_rel; [apply grows_refl|]. intros x. repeat split; simpl; auto; try (eexists; reflexivity). lia.
  - unfold end_exploration. rewrite Hx. discriminate.
  - intros E; inversion E; subst; simpl. repeat split; auto. clear. induction (shells s); constructor; auto using grows_refl.
Qed.
End Inv.
