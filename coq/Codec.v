From Coq Require Import List Arith PArith Bool Lia.
Import ListNotations.

Definition tok := positive.                      (* an opaque stored value: array / scalar / string *)
Inductive name := Nm (tag : positive) | NmI (tag : positive) (i : nat)      (* "points" | "bound_3" *)
  | NmK (key : positive) (i : nat)                (* emulator attribute "<key>_<i>" of network i *)
  | NmKI (tag : positive) (k i : nat).            (* "coefs_<k>_<i>" *)
Definition name_eqb (a b : name) : bool :=
  match a, b with
  | Nm x, Nm y => Pos.eqb x y
  | NmI x i, NmI y j => Pos.eqb x y && Nat.eqb i j
  | NmK x i, NmK y j => Pos.eqb x y && Nat.eqb i j
  | NmKI x k i, NmKI y l j => Pos.eqb x y && Nat.eqb k l && Nat.eqb i j
  | _, _ => false
  end.
Lemma name_eqb_refl a : name_eqb a a = true.
Proof. destruct a; simpl; rewrite ?Pos.eqb_refl, ?Nat.eqb_refl; auto. Qed.

Inductive h5 := Grp (attrs : list (name * tok)) (dsets : list (name * tok)) (kids : list (name * h5)).
Definition attrs_of g := match g with Grp a _ _ => a end.
Definition dsets_of g := match g with Grp _ d _ => d end.
Definition kids_of g := match g with Grp _ _ k => k end.

Fixpoint assoc {V} (k : name) (l : list (name * V)) : option V :=
  match l with [] => None | (k', v) :: r => if name_eqb k k' then Some v else assoc k r end.
Definition attr k g := assoc k (attrs_of g).
Definition dset k g := assoc k (dsets_of g).
Definition kid k g := assoc k (kids_of g).

(* tags *)
Definition T_type := 1%positive. Definition T_ndim := 2%positive. Definition T_c := 3%positive. Definition T_A := 4%positive.
Definition T_B := 5%positive. Definition T_Binv := 6%positive. Definition T_dimcube := 7%positive. Definition T_cube := 8%positive.
Definition T_ell := 9%positive. Definition T_logvall := 10%positive. Definition T_enl := 11%positive. Definition T_nmin := 12%positive.
Definition T_nsample := 13%positive. Definition T_nreject := 14%positive. Definition T_unit := 15%positive. Definition T_bclass := 16%positive.
Definition T_bound := 17%positive. Definition T_pbound := 18%positive. Definition T_points := 19%positive.
(* constant values *)
Definition V_Cube := 101%positive. Definition V_Ell := 102%positive. Definition V_Mix := 103%positive. Definition V_Multi := 104%positive.
Definition V_true := 105%positive. Definition V_false := 106%positive.

Record cube := mkCube { cu_ndim : tok }.
Record ell := mkEll { e_ndim : tok; e_c : tok; e_A : tok; e_B : tok; e_Binv : tok }.
Record mix := mkMix { m_ndim : tok; m_dimcube : tok; m_cube : option cube; m_ell : option ell }.
Inductive member := MEll (e : ell) | MMix (m : mix).
Record union := mkUnion { u_ndim : tok; u_logvall : tok; u_enl : tok; u_nmin : tok; u_nsample : tok; u_nreject : tok;
                          u_cube : option cube; u_members : list member; u_pbs : list tok; u_points : tok;
                          u_block : option tok (* NOT persisted *) }.

Definition w_cube (c : cube) : h5 := Grp [(Nm T_type, V_Cube); (Nm T_ndim, cu_ndim c)] [] [].
Definition r_cube (g : h5) : option cube := match attr (Nm T_ndim) g with Some n => Some (mkCube n) | None => None end.
Definition w_ell (e : ell) : h5 :=
  Grp [(Nm T_type, V_Ell); (Nm T_ndim, e_ndim e); (Nm T_c, e_c e); (Nm T_A, e_A e); (Nm T_B, e_B e); (Nm T_Binv, e_Binv e)] [] [].
Definition r_ell (g : h5) : option ell :=
  match attr (Nm T_ndim) g, attr (Nm T_c) g, attr (Nm T_A) g, attr (Nm T_B) g, attr (Nm T_Binv) g with
  | Some n, Some c, Some a, Some b, Some bi => Some (mkEll n c a b bi) | _, _, _, _, _ => None end.

Definition optkid {A} (k : name) (w : A -> h5) (o : option A) : list (name * h5) :=
  match o with Some x => [(k, w x)] | None => [] end.
Definition w_mix (m : mix) : h5 :=
  Grp [(Nm T_type, V_Mix); (Nm T_ndim, m_ndim m)] [(Nm T_dimcube, m_dimcube m)]
      (optkid (Nm T_cube) w_cube (m_cube m) ++ optkid (Nm T_ell) w_ell (m_ell m)).
(* the reader decides from the *value* dim_cube whether the children exist; that decision is oracle data *)
Section Codec.
Variable any_cube all_cube : tok -> bool.       (* np.any(dim_cube), np.all(dim_cube) *)
Variable alen : tok -> nat.                      (* len(log_v_all) *)

Definition r_mix (g : h5) : option mix :=
  match attr (Nm T_ndim) g, dset (Nm T_dimcube) g with
  | Some n, Some dc =>
    let oc := if any_cube dc then match kid (Nm T_cube) g with Some k => option_map Some (r_cube k) | None => None end else Some None in
    let oe := if negb (all_cube dc) then match kid (Nm T_ell) g with Some k => option_map Some (r_ell k) | None => None end else Some None in
    match oc, oe with Some c, Some e => Some (mkMix n dc c e) | _, _ => None end
  | _, _ => None
  end.

Definition wf_mix (m : mix) : Prop :=
  (any_cube (m_dimcube m) = true <-> m_cube m <> None) /\ (all_cube (m_dimcube m) = false <-> m_ell m <> None).

Lemma r_w_cube c : r_cube (w_cube c) = Some c.
Proof. destruct c; reflexivity. Qed.
Lemma r_w_ell e : r_ell (w_ell e) = Some e.
Proof. destruct e; reflexivity. Qed.
Lemma r_w_mix m : wf_mix m -> r_mix (w_mix m) = Some m.
Proof.
  destruct m as [n dc oc oe]. intros [H1 H2]; simpl in *. unfold r_mix. cbn.
  destruct oc as [[cn]|], oe as [[en ec eA eB eBi]|]; cbn.
  - assert (A1 : any_cube dc = true) by (apply H1; discriminate). assert (A2 : all_cube dc = false) by (apply H2; discriminate).
    rewrite A1, A2. reflexivity.
  - assert (A1 : any_cube dc = true) by (apply H1; discriminate).
    assert (A2 : all_cube dc = true) by (destruct (all_cube dc) eqn:E; auto; exfalso; apply (proj1 H2 eq_refl); reflexivity).
    rewrite A1, A2. reflexivity.
  - assert (A1 : any_cube dc = false) by (destruct (any_cube dc) eqn:E; auto; exfalso; apply (proj1 H1 eq_refl); reflexivity).
    assert (A2 : all_cube dc = false) by (apply H2; discriminate).
    rewrite A1, A2. reflexivity.
  - assert (A1 : any_cube dc = false) by (destruct (any_cube dc) eqn:E; auto; exfalso; apply (proj1 H1 eq_refl); reflexivity).
    assert (A2 : all_cube dc = true) by (destruct (all_cube dc) eqn:E; auto; exfalso; apply (proj1 H2 eq_refl); reflexivity).
    rewrite A1, A2. reflexivity.
Qed.

(* ---- union ---- *)
Definition w_member (m : member) : h5 := match m with MEll e => w_ell e | MMix x => w_mix x end.
Definition class_of (m : member) : tok := match m with MEll _ => V_Ell | MMix _ => V_Mix end.
Fixpoint indexed {A B} (f : nat -> A -> B) (i : nat) (l : list A) : list B :=
  match l with [] => [] | x :: r => f i x :: indexed f (S i) r end.

Definition w_union (u : union) : h5 :=
  Grp [(Nm T_type, V_Multi); (Nm T_ndim, u_ndim u); (Nm T_logvall, u_logvall u); (Nm T_enl, u_enl u); (Nm T_nmin, u_nmin u);
       (Nm T_nsample, u_nsample u); (Nm T_nreject, u_nreject u);
       (Nm T_unit, match u_cube u with Some _ => V_true | None => V_false end);
       (Nm T_bclass, match u_members u with m :: _ => class_of m | [] => V_Ell end)]
      (indexed (fun i p => (NmI T_pbound i, p)) 0 (u_pbs u) ++ [(Nm T_points, u_points u)])
      (optkid (Nm T_cube) w_cube (u_cube u) ++ indexed (fun i m => (NmI T_bound i, w_member m)) 0 (u_members u)).

Fixpoint r_members (is_ell : bool) (g : h5) (i n : nat) : option (list member) :=
  match n with
  | O => Some []
  | S n' => match kid (NmI T_bound i) g with
            | None => None
            | Some k => match (if is_ell then option_map MEll (r_ell k) else option_map MMix (r_mix k)), r_members is_ell g (S i) n' with
                        | Some m, Some r => Some (m :: r) | _, _ => None end
            end
  end.
Fixpoint r_pbs (g : h5) (i n : nat) : option (list tok) :=
  match n with
  | O => Some []
  | S n' => match dset (NmI T_pbound i) g, r_pbs g (S i) n' with Some p, Some r => Some (p :: r) | _, _ => None end
  end.

(* the repaired reader: cube is None when the unit flag is false *)
Definition r_union (g : h5) : option union :=
  match attr (Nm T_ndim) g, attr (Nm T_logvall) g, attr (Nm T_enl) g, attr (Nm T_nmin) g, attr (Nm T_nsample) g,
        attr (Nm T_nreject) g, attr (Nm T_unit) g, attr (Nm T_bclass) g, dset (Nm T_points) g with
  | Some n, Some lv, Some en, Some nm, Some ns, Some nr, Some un, Some bc, Some pts =>
    let oc := if Pos.eqb un V_true then match kid (Nm T_cube) g with Some k => option_map Some (r_cube k) | None => None end else Some None in
    match oc, r_members (Pos.eqb bc V_Ell) g 0 (alen lv), r_pbs g 0 (alen lv) with
    | Some c, Some ms, Some pbs => Some (mkUnion n lv en nm ns nr c ms pbs pts None)
    | _, _, _ => None
    end
  | _, _, _, _, _, _, _, _, _ => None
  end.

Definition homog (ms : list member) : Prop :=
  (forall m, In m ms -> exists e, m = MEll e) \/ (forall m, In m ms -> exists x, m = MMix x /\ wf_mix x).
Definition wf_union (u : union) : Prop :=
  u_members u <> [] /\ homog (u_members u) /\ length (u_members u) = alen (u_logvall u) /\ length (u_pbs u) = alen (u_logvall u).
Definition persisted (u : union) : union :=
  mkUnion (u_ndim u) (u_logvall u) (u_enl u) (u_nmin u) (u_nsample u) (u_nreject u) (u_cube u) (u_members u) (u_pbs u) (u_points u) None.

Lemma assoc_app_skip {V} k (a b : list (name * V)) : (forall k' v, In (k', v) a -> name_eqb k k' = false) -> assoc k (a ++ b) = assoc k b.
Proof.
  induction a as [|[k' v] a IH]; simpl; intros H; auto. rewrite (H k' v) by auto. apply IH. intros; eapply H; eauto.
Qed.
Lemma assoc_indexed {A V} (T : positive) (w : A -> V) tl : forall l j i x, nth_error l i = Some x ->
  assoc (NmI T (j + i)) (indexed (fun i m => (NmI T i, w m)) j l ++ tl) = Some (w x).
Proof.
  induction l as [|y l IH]; intros j i x H; [destruct i; discriminate|]. destruct i as [|i]; simpl in *.
  - inversion H; subst. rewrite Nat.add_0_r, Pos.eqb_refl, Nat.eqb_refl. reflexivity.
  - rewrite Pos.eqb_refl. simpl. replace (Nat.eqb (j + S i) j) with false by (symmetry; apply Nat.eqb_neq; lia).
    replace (j + S i) with (S j + i) by lia. now apply IH.
Qed.

Lemma r_members_ok (is_ell : bool) (g : h5) : forall ms k,
  (forall i x, nth_error ms i = Some x -> kid (NmI T_bound (k + i)) g = Some (w_member x)) ->
  (forall m, In m ms -> (if is_ell then option_map MEll (r_ell (w_member m)) else option_map MMix (r_mix (w_member m))) = Some m) ->
  r_members is_ell g k (length ms) = Some ms.
Proof.
  induction ms as [|m ms IH]; intros k Hk Hr; simpl; auto.
  rewrite <- (Nat.add_0_r k) at 1. rewrite (Hk 0 m eq_refl). rewrite (Hr m (or_introl eq_refl)).
  rewrite IH; auto.
  - intros i x H. replace (S k + i) with (k + S i) by lia. now apply Hk.
  - intros m' Hm. apply Hr. now right.
Qed.
Lemma r_pbs_ok g : forall ps k,
  (forall i x, nth_error ps i = Some x -> dset (NmI T_pbound (k + i)) g = Some x) -> r_pbs g k (length ps) = Some ps.
Proof.
  induction ps as [|p ps IH]; intros k Hk; simpl; auto.
  rewrite <- (Nat.add_0_r k) at 1. rewrite (Hk 0 p eq_refl). rewrite IH; auto.
  intros i x H. replace (S k + i) with (k + S i) by lia. now apply Hk.
Qed.

Theorem C09_union_roundtrip u : wf_union u -> r_union (w_union u) = Some (persisted u).
Proof.
  destruct u as [n lv en nm ns nr oc ms pbs pts blk]. intros (Hne & Hh & Hl1 & Hl2); simpl in *.
  set (U := mkUnion n lv en nm ns nr oc ms pbs pts blk). set (G := w_union U).
  assert (A1 : attr (Nm T_ndim) G = Some n) by reflexivity.
  assert (A2 : attr (Nm T_logvall) G = Some lv) by reflexivity.
  assert (A3 : attr (Nm T_enl) G = Some en) by reflexivity.
  assert (A4 : attr (Nm T_nmin) G = Some nm) by reflexivity.
  assert (A5 : attr (Nm T_nsample) G = Some ns) by reflexivity.
  assert (A6 : attr (Nm T_nreject) G = Some nr) by reflexivity.
  assert (A7 : attr (Nm T_unit) G = Some (match oc with Some _ => V_true | None => V_false end)) by reflexivity.
  assert (A8 : attr (Nm T_bclass) G = Some (match ms with m :: _ => class_of m | [] => V_Ell end)) by reflexivity.
  assert (A9 : dset (Nm T_points) G = Some pts).
  { unfold dset, G, w_union. cbn [dsets_of u_pbs u_points U]. rewrite assoc_app_skip; [reflexivity|].
    clear. generalize 0. induction pbs as [|p l IH]; simpl; intros j k' v H; [contradiction|].
    destruct H as [H|H]; [inversion H; subst; reflexivity|eapply IH; eauto]. }
  assert (Hm : r_members (Pos.eqb (match ms with m :: _ => class_of m | [] => V_Ell end) V_Ell) G 0 (alen lv) = Some ms).
  { rewrite <- Hl1. apply r_members_ok.
    - intros i x Hx. unfold kid, G, w_union. cbn [kids_of u_cube u_members U]. rewrite assoc_app_skip.
      + rewrite <- (app_nil_r (indexed _ 0 ms)). now apply (assoc_indexed T_bound w_member [] ms 0 i x).
      + destruct oc; simpl; intros k' v H; [destruct H as [H|[]]; inversion H; reflexivity|contradiction].
    - intros m Hm. destruct Hh as [He|Hx].
      + destruct ms as [|m0 ms']; [contradiction|]. destruct (He m0 (or_introl eq_refl)) as (e0 & ->).
        replace (Pos.eqb (class_of (MEll e0)) V_Ell) with true by reflexivity.
        destruct (He m Hm) as (e & ->). cbn [w_member]. now rewrite r_w_ell.
      + destruct ms as [|m0 ms']; [contradiction|]. destruct (Hx m0 (or_introl eq_refl)) as (x0 & -> & _).
        replace (Pos.eqb (class_of (MMix x0)) V_Ell) with false by reflexivity.
        destruct (Hx m Hm) as (x & -> & Hw). cbn [w_member]. now rewrite r_w_mix. }
  assert (Hp : r_pbs G 0 (alen lv) = Some pbs).
  { rewrite <- Hl2. apply r_pbs_ok. intros i x Hx. unfold dset, G, w_union. cbn [dsets_of u_pbs u_points U].
    now apply (assoc_indexed T_pbound (fun p : tok => p) [(Nm T_points, pts)] pbs 0 i x). }
  assert (Hc : (if Pos.eqb (match oc with Some _ => V_true | None => V_false end) V_true
                then match kid (Nm T_cube) G with Some k => option_map Some (r_cube k) | None => None end else Some None) = Some oc).
  { destruct oc as [[cn]|]; reflexivity. }
  unfold r_union. rewrite A1, A2, A3, A4, A5, A6, A7, A8, A9, Hc, Hm, Hp. reflexivity.
Qed.
End Codec.
