(* Exact model of nautilus/bounds/periodic.py (PhaseShift) on a grid.
   A coordinate is an integer x in [0, 2N): the real number x / (2N); 0.5 is N.  On inputs that are multiples of
   2^-k every floating-point operation of the implementation is exact, so there the implementation must equal this
   model exactly (harness/c16.py).  Definitions first, proofs below; the property theorems are in P_C16.v. *)
From Coq Require Import ZArith List Bool Lia ZifyBool Sorting.Mergesort Sorting.Sorted Permutation Orders.
Import ListNotations.
Ltac Zify.zify_post_hook ::= Z.to_euclidean_division_equations.
Open Scope Z_scope.

Module ZOrder <: TotalLeBool.
  Definition t := Z.
  Definition leb := Z.leb.
  Theorem leb_total : forall a1 a2, leb a1 a2 = true \/ leb a2 a1 = true.
  Proof. intros a b. unfold leb. lia. Qed.
End ZOrder.
Module ZSort := Sort ZOrder.

Section Grid.
Variable N : Z.

Definition shift (c x : Z) : Z := (x + (N - c)) mod (2 * N).      (* (x + (-c + 0.5)) % 1 *)
Definition unshift (c x : Z) : Z := (x - (N - c)) mod (2 * N).    (* inverse=True *)
Definition tr1 (inverse : bool) (c x : Z) : Z := if inverse then unshift c x else shift c x.

(* PhaseShift.transform: `for i, dim in enumerate(periodic): points_t[:, dim] = ...`; coordinate j of a point goes
   through every (dim, centre) pair with dim = j, in order *)
Fixpoint app1 (j : nat) (per : list nat) (cs : list Z) (inv : bool) (x : Z) : Z :=
  match per, cs with
  | d :: per', c :: cs' => app1 j per' cs' inv (if Nat.eqb d j then tr1 inv c x else x)
  | _, _ => x
  end.
Fixpoint mapi_from {A B} (i : nat) (f : nat -> A -> B) (l : list A) : list B :=
  match l with [] => [] | x :: r => f i x :: mapi_from (S i) f r end.
Definition transform (per : list nat) (cs : list Z) (inv : bool) (pt : list Z) : list Z :=
  mapi_from 0%nat (fun j x => app1 j per cs inv x) pt.

(* PhaseShift.compute, one periodic dimension: x = sort(values); dx = append(diff(x), x[0] - (x[-1] - 1));
   centre = (x[argmax dx] + max(dx)/2 + 0.5) % 1 *)
Fixpoint diffs (xs : list Z) : list Z :=
  match xs with a :: ((b :: _) as r) => (b - a) :: diffs r | _ => [] end.
Definition gaps (xs : list Z) : list Z := diffs xs ++ [hd 0 xs - (last xs 0 - 2 * N)].
Fixpoint argmax_go (i best : nat) (bv : Z) (l : list Z) : nat * Z :=     (* np.argmax: the first maximum *)
  match l with [] => (best, bv) | v :: r => if Z.ltb bv v then argmax_go (S i) i v r else argmax_go (S i) best bv r end.
Definition argmax (l : list Z) : nat * Z := match l with [] => (0%nat, 0) | v :: r => argmax_go 1 0 v r end.
Definition centre (a g : Z) : Z := (a + g / 2 + N) mod (2 * N).
Definition centre_sorted (xs : list Z) : Z := let '(i, g) := argmax (gaps xs) in centre (nth i xs 0) g.
Definition compute_centre (vals : list Z) : Z := centre_sorted (ZSort.sort vals).

(* circular distance from a going up to x *)
Definition up (a x : Z) : Z := (x - a) mod (2 * N).
End Grid.
