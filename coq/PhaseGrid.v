From Coq Require Import ZArith List Bool Lia ZifyBool.
Import ListNotations.
Ltac Zify.zify_post_hook ::= Z.to_euclidean_division_equations.
Open Scope Z_scope.

(* Coordinates are integers x in [0, 2N): the real number x / (2N).  0.5 is N. *)
Section Grid.
Variable N : Z.
Hypothesis Npos : 0 < N.

Definition shift (c x : Z) : Z := (x + (N - c)) mod (2 * N).      (* (x + (-c + 0.5)) % 1 *)
Definition unshift (c x : Z) : Z := (x - (N - c)) mod (2 * N).    (* inverse=True *)

Lemma shift_range c x : 0 <= shift c x < 2 * N.
Proof. unfold shift. apply Z.mod_pos_bound. lia. Qed.
Lemma unshift_range c x : 0 <= unshift c x < 2 * N.
Proof. unfold unshift. apply Z.mod_pos_bound. lia. Qed.

Lemma unshift_shift c x : 0 <= x < 2 * N -> unshift c (shift c x) = x.
Proof.
  unfold shift, unshift. intros H. rewrite Zminus_mod_idemp_l.
  replace (x + (N - c) - (N - c)) with x by lia. apply Z.mod_small. lia.
Qed.
Lemma shift_unshift c x : 0 <= x < 2 * N -> shift c (unshift c x) = x.
Proof.
  unfold shift, unshift. intros H. rewrite Zplus_mod_idemp_l.
  replace (x - (N - c) + (N - c)) with x by lia. apply Z.mod_small. lia.
Qed.

(* centre from the largest circular gap: gap starts at point a (value a), has even length g (so g/2 is on the grid) *)
Definition centre (a g : Z) : Z := (a + g / 2 + N) mod (2 * N).

(* circular distance from a going up to x *)
Definition up (a x : Z) : Z := (x - a) mod (2 * N).

(* if no construction point lies strictly inside the open arc (a, a+g), then after the shift every
   point is at distance >= g/2 from both ends of the unit interval *)
Lemma shift_centre a g x : shift (centre a g) x = (up a x - g / 2) mod (2 * N).
Proof.
  unfold shift, centre, up.
  replace (x + (N - (a + g / 2 + N) mod (2 * N))) with ((x + N) - (a + g / 2 + N) mod (2 * N)) by lia.
  rewrite Zminus_mod_idemp_r, Zminus_mod_idemp_l. f_equal. lia.
Qed.

Lemma gap_straddles a g x :
  0 <= a < 2 * N -> 0 <= x < 2 * N -> 0 <= g <= 2 * N -> g mod 2 = 0 ->
  (up a x = 0 \/ g <= up a x) ->
  g / 2 <= shift (centre a g) x <= 2 * N - g / 2.
Proof.
  intros Ha Hx Hg He Hout. rewrite shift_centre.
  assert (Hu : 0 <= up a x < 2 * N) by (unfold up; apply Z.mod_pos_bound; lia).
  assert (Hg2 : 0 <= g / 2 /\ 2 * (g / 2) = g) by (split; [apply Z.div_pos; lia | pose proof (Z.div_mod g 2); lia]).
  destruct Hg2 as [Hh0 Hh]. set (h := g / 2) in *. clearbody h.
  destruct Hout as [H0|Hge].
  - rewrite H0. destruct (Z.eq_dec h 0) as [E0|Hn].
    + rewrite E0. rewrite Z.mod_0_l by lia. lia.
    + assert (E : (0 - h) mod (2 * N) = 2 * N - h).
      { symmetry. apply (Z.mod_unique _ _ (-1)); lia. }
      rewrite E. lia.
  - rewrite Z.mod_small by lia. lia.
Qed.
End Grid.
Print Assumptions gap_straddles.
