From Coq Require Import List Arith Bool Lia Permutation.
Import ListNotations.
Require Import NV.TopUp.

Lemma count_split l : count true l + count false l = length l.
Proof. unfold count. induction l as [|[|] l IH]; simpl; lia. Qed.
Lemma set_at_length i v l : length (set_at i v l) = length l.
Proof. revert i; induction l as [|x l IH]; intros [|i]; simpl; auto. Qed.
Lemma set_at_nth_same i v l : i < length l -> nth_error (set_at i v l) i = Some v.
Proof. revert i; induction l as [|x l IH]; intros [|i] H; simpl in *; try lia; auto. apply IH. lia. Qed.
Lemma set_at_nth_other i j v l : i <> j -> nth_error (set_at i v l) j = nth_error l j.
Proof. revert i j; induction l as [|x l IH]; intros [|i] [|j] H; simpl; auto; try congruence. Qed.
(* re-labelling an entry that carried the other label moves exactly one unit of count *)
Lemma set_at_count i v l : nth_error l i = Some (negb v) -> count v (set_at i v l) = S (count v l) /\ count (negb v) (set_at i v l) + 1 = count (negb v) l.
Proof.
  unfold count. revert i; induction l as [|x l IH]; intros [|i] H; simpl in *; try discriminate.
  - inversion H; subst. destruct v; simpl; lia.
  - destruct (IH i H) as [A B]. destruct v, x; simpl in *; lia.
Qed.

(* indices of the other cluster: exactly the positions not labelled v, without repetition *)
Lemma others_from_spec v : forall l k j, In j (others_from k v l) <-> (k <= j /\ nth_error l (j - k) = Some (negb v)).
Proof.
  induction l as [|x l IH]; intros k j; simpl.
  - split; [intros []|]. intros [_ H]. destruct (j - k); discriminate.
  - destruct (Bool.eqb v x) eqn:E.
    + apply eqb_prop in E; subst x. rewrite IH. split.
      * intros [H1 H2]. split; [lia|]. replace (j - k) with (S (j - S k)) by lia. exact H2.
      * intros [H1 H2]. destruct (j - k) as [|m] eqn:Em; simpl in H2; [inversion H2; destruct v; discriminate|].
        split; [lia|]. replace (j - S k) with m by lia. exact H2.
    + apply eqb_false_iff in E. simpl. rewrite IH. split.
      * intros [<-|[H1 H2]]; [split; [lia|]; rewrite Nat.sub_diag; destruct v, x; simpl; congruence|].
        split; [lia|]. replace (j - k) with (S (j - S k)) by lia. exact H2.
      * intros [H1 H2]. destruct (j - k) as [|m] eqn:Em; [left; lia|]. right. split; [lia|]. simpl in H2. replace (j - S k) with m by lia. exact H2.
Qed.
Lemma others_from_lower v l k j : In j (others_from k v l) -> k <= j.
Proof. intros H. apply others_from_spec in H. tauto. Qed.
Lemma others_from_nodup v : forall l k, NoDup (others_from k v l).
Proof.
  induction l as [|x l IH]; intros k; simpl; [constructor|]. destruct (Bool.eqb v x); [apply IH|].
  constructor; [|apply IH]. intros H. apply others_from_lower in H. lia.
Qed.
Lemma others_spec v l j : In j (others v l) <-> nth_error l j = Some (negb v).
Proof. unfold others. rewrite others_from_spec, Nat.sub_0_r. split; [tauto|]. intros H; split; [lia|exact H]. Qed.
Lemma others_from_length v : forall l k, length (others_from k v l) = count (negb v) l.
Proof.
  unfold count. induction l as [|x l IH]; intros k; simpl; auto. destruct v, x; simpl; rewrite ?IH; auto.
Qed.

(* moving a duplicate-free set of indices that all carry the other label *)
Lemma relabel_count v : forall idxs l, NoDup idxs -> (forall j, In j idxs -> nth_error l j = Some (negb v)) ->
  count v (relabel idxs v l) = count v l + length idxs /\ count (negb v) (relabel idxs v l) + length idxs = count (negb v) l /\
  length (relabel idxs v l) = length l.
Proof.
  unfold relabel. induction idxs as [|i idxs IH]; intros l ND H; simpl; [lia|].
  inversion ND as [|? ? Hni ND']; subst.
  destruct (set_at_count i v l (H i (or_introl eq_refl))) as [A B].
  destruct (IH (set_at i v l) ND') as (C & D & E).
  - intros j Hj. rewrite set_at_nth_other; [apply H; now right|]. intros ->. contradiction.
  - rewrite set_at_length in E. lia.
Qed.

Lemma firstn_incl {A} n (l : list A) x : In x (firstn n l) -> In x l.
Proof. revert n; induction l as [|a l IH]; intros [|n]; simpl; auto; try tauto. intros [->|H]; [now left|right; eapply IH; eauto]. Qed.
Lemma firstn_nodup {A} n (l : list A) : NoDup l -> NoDup (firstn n l).
Proof.
  revert n; induction l as [|a l IH]; intros [|n] H; simpl; try constructor.
  - inversion H; subst. intros Hin. apply firstn_incl in Hin. contradiction.
  - inversion H; subst. now apply IH.
Qed.

(* the repaired rule: with at least 2 n_min points both clusters end with at least n_min members, the small one with exactly n_min *)
Theorem topup_ok n_min rank_other l : 2 * n_min <= length l -> Permutation rank_other (others (small_label l) l) ->
  let l' := topup n_min rank_other l in
  length l' = length l /\ n_min <= count false l' /\ n_min <= count true l' /\
  (enough n_min l = true -> l' = l) /\
  (enough n_min l = false -> count (small_label l) l' = n_min).
Proof.
  intros Hn HP. cbv zeta. unfold topup. destruct (enough n_min l) eqn:E.
  - unfold enough in E. apply andb_true_iff in E. destruct E as [E0 E1]. apply Nat.leb_le in E0, E1.
    repeat split; auto. discriminate.
  - set (s := small_label l) in *. pose proof (count_split l) as CS.
    assert (Hs : count s l < n_min /\ count s l <= count (negb s) l).
    { unfold enough in E. apply andb_false_iff in E. unfold s, small_label.
      destruct (Nat.ltb_spec (count true l) (count false l)); simpl;
        destruct E as [E|E]; apply Nat.leb_gt in E; lia. }
    destruct Hs as [Hlt Hle].
    set (m := n_min - count s l).
    assert (ND : NoDup (firstn m rank_other)).
    { apply firstn_nodup. apply (Permutation_NoDup (Permutation_sym HP)). apply others_from_nodup. }
    assert (HM : forall j, In j (firstn m rank_other) -> nth_error l j = Some (negb s)).
    { intros j Hj. apply firstn_incl in Hj. apply (Permutation_in _ HP) in Hj. now apply others_spec in Hj. }
    assert (HL : length (firstn m rank_other) = m).
    { apply firstn_length_le. rewrite (Permutation_length HP). unfold others. rewrite others_from_length.
      unfold m. destruct s; simpl in *; lia. }
    destruct (relabel_count s _ l ND HM) as (A & B & C). rewrite HL in A, B.
    assert (As : count s (relabel (firstn m rank_other) s l) = n_min) by (unfold m in *; lia).
    assert (Bs : n_min <= count (negb s) (relabel (firstn m rank_other) s l)) by (unfold m in *; destruct s; simpl in *; lia).
    split; [exact C|]. split; [destruct s; simpl in *; lia|]. split; [destruct s; simpl in *; lia|].
    split; [discriminate|]. intros _. exact As.
Qed.

(* the rule as found: a union of 2 n_min points whose larger cluster is stripped below n_min *)
Theorem topup_asis_refuted : exists n_min rank_all l, 2 * n_min <= length l /\ Permutation rank_all (seq 0 (length l)) /\
  count false (topup_asis n_min rank_all l) < n_min.
Proof.
  exists 2, [1; 2; 0; 3], [true; false; false; false]. split; [simpl; lia|]. split.
  - simpl. apply perm_trans with [1; 0; 2; 3]; [apply perm_skip, perm_swap|apply perm_swap].
  - vm_compute. lia.
Qed.

(* ---- link to the record model (Union2.split_go): the halves cut out by the repaired labels ---- *)
Require Import NV.Base.
Lemma fmask_length_count {A} : forall (m : list bool) (l : list A), length m = length l ->
  length (fmask m l) = count true m /\ length (fmask (map negb m) l) = count false m.
Proof.
  unfold count. induction m as [|b m IH]; intros [|x l] H; simpl in *; try discriminate; auto.
  destruct (IH l) as [A1 A2]; [lia|]. destruct b; simpl; lia.
Qed.
(* with the repaired labels, an ellipsoid that may be split (at least 2 n_min points, which is what a clear may-split flag
   records) is cut into two halves of at least n_min points each: the size guard of split_go never fires *)
Theorem topup_halves {A} n_min rank_other (l0 : list bool) (pts : list A) :
  length l0 = length pts -> 2 * n_min <= length pts -> Permutation rank_other (others (small_label l0) l0) ->
  let labels := topup n_min rank_other l0 in
  length labels = length pts /\ n_min <= length (fmask labels pts) /\ n_min <= length (fmask (map negb labels) pts).
Proof.
  intros HL Hn HP. cbv zeta. rewrite <- HL in Hn.
  destruct (topup_ok n_min rank_other l0 Hn HP) as (L & C0 & C1 & _).
  assert (HL' : length (topup n_min rank_other l0) = length pts) by lia.
  destruct (fmask_length_count (topup n_min rank_other l0) pts HL') as [F1 F0].
  split; [exact HL'|]. rewrite F1, F0. split; assumption.
Qed.
