(* Property C16: the periodic phase shift is a bijection of the unit cube.
   Only property theorems here, each closed by `exact`. *)
From Coq Require Import ZArith List Reals Floats Sorting.Mergesort.
Import ListNotations.
Require Import NV.PhaseGrid NV.PhaseGridProofs NV.PhaseFloat NV.PhaseFloatInv.

(* exact arithmetic, any grid resolution 1/(2N), any number of coordinates, any periodic index list *)
Theorem C16_grid_range : forall N, (0 < N)%Z -> forall per cs inv pt,
  in_cube N pt -> in_cube N (transform N per cs inv pt) /\ length (transform N per cs inv pt) = length pt.
Proof. intros N HN per cs inv pt H. split; [exact (transform_range N HN per cs inv pt H)|exact (transform_length N per cs inv pt)]. Qed.
Print Assumptions C16_grid_range.

Theorem C16_grid_others : forall N per cs inv pt j, ~ In j per -> nth_error (transform N per cs inv pt) j = nth_error pt j.
Proof. exact transform_others. Qed.
Print Assumptions C16_grid_others.

Theorem C16_grid_inverse : forall N, (0 < N)%Z -> forall per cs inv pt,
  in_cube N pt -> transform N per cs (negb inv) (transform N per cs inv pt) = pt.
Proof. exact transform_inverse. Qed.
Print Assumptions C16_grid_inverse.

(* the centre computed from the construction values of one periodic dimension puts the largest circular gap g across
   the boundary: after the shift every construction value is at least g/2 away from both 0 and 1 *)
Theorem C16_grid_gap : forall N, (0 < N)%Z -> forall vals, vals <> [] ->
  Forall (fun x => 0 <= x < 2 * N)%Z vals -> Forall (fun x => x mod 2 = 0)%Z vals ->
  exists g, (0 <= g <= 2 * N)%Z /\ In g (gaps N (ZSort.sort vals)) /\ Forall (fun w => w <= g)%Z (gaps N (ZSort.sort vals)) /\
    forall x, In x vals -> (g / 2 <= PhaseGrid.shift N (compute_centre N vals) x <= 2 * N - g / 2)%Z.
Proof. exact compute_centre_gap. Qed.
Print Assumptions C16_grid_gap.

(* binary64 (round-to-nearest-even, the arithmetic numpy uses): for EVERY finite double x in [0,1) and centre c in [0,1)
   the transform and its inverse return a finite double in [0,1) -- in particular never 1.0 *)
Theorem C16_float_range : forall c x : PrimFloat.float,
  fin x -> fin c -> (0 <= FR x < 1)%R -> (0 <= FR c < 1)%R ->
  (fin (PhaseFloat.shift c x) /\ (0 <= FR (PhaseFloat.shift c x) < 1)%R) /\
  (fin (PhaseFloat.unshift c x) /\ (0 <= FR (PhaseFloat.unshift c x) < 1)%R).
Proof. exact float_range. Qed.
Print Assumptions C16_float_range.

(* binary64: the inverse undoes the transform up to rounding, modulo one: unshift c (shift c x) = x + K + e with K an
   integer and |e| <= 6 * 2^-52, for every finite double x and centre c in [0,1) *)
Theorem C16_float_inverse : forall c x : PrimFloat.float,
  fin x -> fin c -> (0 <= FR x < 1)%R -> (0 <= FR c < 1)%R ->
  exists (K : Z) (e : R), FR (PhaseFloat.unshift c (PhaseFloat.shift c x)) = (FR x + IZR K + e)%R /\ (Rabs e <= 6 * E52)%R.
Proof. exact float_inverse. Qed.
Print Assumptions C16_float_inverse.

(* regression witness: before the repair 0.3 with centre 0.8 was mapped to exactly 1.0 *)
Theorem C16_float_asis_refuted :
  exists c x : PrimFloat.float, (0 <=? x)%float = true /\ (x <? 1)%float = true /\ (0 <=? c)%float = true /\ (c <? 1)%float = true /\
                       (shift_asis c x =? 1)%float = true.
Proof. exact float_asis_refuted. Qed.
Print Assumptions C16_float_asis_refuted.

(* non-vacuity: a concrete point, two periodic dimensions out of three, grid 1/16 *)
Example C16_example :
  transform 8 [0%nat; 2%nat] [13; 2]%Z false [5; 7; 15]%Z = [0; 7; 5]%Z /\
  transform 8 [0%nat; 2%nat] [13; 2]%Z true [0; 7; 5]%Z = [5; 7; 15]%Z /\
  compute_centre 8 [2; 14; 4]%Z = 1%Z.
Proof. vm_compute. repeat split. Qed.
