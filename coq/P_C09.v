(* Property C09: writing and reading back any bound preserves it.  Every class, any number of members / networks /
   neural bounds; values are opaque tokens so the theorems hold for every array content and dimension.
   The only field of a union that is not persisted is `block` (read by split() alone, never by contains / sample / log_v). *)
From Coq Require Import List Arith PArith.
Import ListNotations.
Require Import NV.Codec NV.Codec2 NV.Codec2Proofs.

Theorem C09_cube : forall c, r_cube (w_cube c) = Some c.
Proof. exact r_w_cube. Qed.
Theorem C09_ellipsoid : forall e, r_ell (w_ell e) = Some e.
Proof. exact r_w_ell. Qed.
Theorem C09_mixture : forall any_cube all_cube m, wf_mix any_cube all_cube m -> r_mix any_cube all_cube (w_mix m) = Some m.
Proof. exact r_w_mix. Qed.
Theorem C09_union : forall any_cube all_cube alen u, wf_union any_cube all_cube alen u -> r_union any_cube all_cube alen (w_union u) = Some (persisted u).
Proof. exact C09_union_roundtrip. Qed.
Theorem C09_shift : forall s, r_shift (w_shift s) = Some s.
Proof. exact r_w_shift. Qed.
Theorem C09_emulator : forall tnat nlayers e, wf_emu tnat nlayers e -> r_emu tnat nlayers (w_emu e) = Some e.
Proof. exact r_w_emu. Qed.
Theorem C09_neural : forall tnat nlayers n, wf_neural tnat nlayers n -> r_neural tnat nlayers (w_neural n) = Some n.
Proof. exact r_w_neural. Qed.
Theorem C09_nautilus : forall any_cube all_cube alen tnat nlayers b, wf_naut any_cube all_cube alen tnat nlayers b ->
  r_naut any_cube all_cube alen tnat nlayers (w_naut b) = Some (persisted_naut b).
Proof. exact r_w_naut. Qed.
(* an incremental update of a written group yields exactly the group a full write of the newer state would produce,
   provided only what sample() changes (cache, counters) differs *)
Theorem C09_update_union : forall u0 u1, same_static_union u0 u1 -> upd_union_grp (w_union u0) u1 = w_union u1.
Proof. exact update_union. Qed.
Theorem C09_update_nautilus : forall b0 b1, same_static_naut b0 b1 -> upd_naut_grp (w_naut b0) b1 = w_naut b1.
Proof. exact update_naut. Qed.
Print Assumptions C09_cube.
Print Assumptions C09_ellipsoid.
Print Assumptions C09_mixture.
Print Assumptions C09_union.
Print Assumptions C09_shift.
Print Assumptions C09_emulator.
Print Assumptions C09_neural.
Print Assumptions C09_nautilus.
Print Assumptions C09_update_union.
Print Assumptions C09_update_nautilus.
