(* Refinement: the executable dyadic evaluator (EstimExec.v), which the harness runs on the stored samples, computes
   exactly the specification statistics of Estim.v (about which the C02 identities are proved). *)
From Coq Require Import ZArith QArith Qpower Qreduction List Lia Field.
Import ListNotations.
Require Import NV.Estim NV.EstimExec.
Open Scope Q_scope.

Definition two : Q := 2 # 1.
Lemma two_nz : ~ two == 0. Proof. discriminate. Qed.
(* the value of a dyadic as mantissa x 2^exponent *)
Definition dyv (a : dy) : Q := inject_Z (dm a) * two ^ (de a).

Lemma shiftl_pow m k : (0 <= k)%Z -> inject_Z (Z.shiftl m k) == inject_Z m * two ^ k.
Proof.
  intros H. rewrite Z.shiftl_mul_pow2 by exact H. rewrite inject_Z_mult. rewrite (Zpower_Qpower 2 k H). reflexivity.
Qed.

Lemma dy_Q_value a : dy_Q a == dyv a.
Proof.
  unfold dy_Q, dyv. destruct (Z.leb_spec 0 (de a)) as [H|H].
  - now apply shiftl_pow.
  - rewrite Qmake_Qdiv. assert (Hp : (0 < Z.shiftl 1 (- de a))%Z).
    { rewrite Z.shiftl_mul_pow2 by lia. apply Z.mul_pos_pos; [lia|]. apply Z.pow_pos_nonneg; lia. }
    rewrite Z2Pos.id by exact Hp. rewrite (shiftl_pow 1 (- de a)) by lia.
    replace (de a) with (- - de a)%Z at 2 by lia. rewrite (Qpower_opp two (- de a)).
    change (inject_Z 1) with 1. field; repeat split; apply Qpower_not_0, two_nz.
Qed.

Lemma dyv_add a b : dyv (dy_add a b) == dyv a + dyv b.
Proof.
  unfold dy_add. destruct (Z.eqb_spec (dm a) 0) as [Ea|Na].
  - unfold dyv at 2. rewrite Ea. change (inject_Z 0) with 0. ring.
  - destruct (Z.eqb_spec (dm b) 0) as [Eb|Nb].
    + unfold dyv at 3. rewrite Eb. change (inject_Z 0) with 0. ring.
    + unfold dyv. cbn [dm de]. set (em := Z.min (de a) (de b)).
      rewrite inject_Z_plus, !shiftl_pow by lia.
      assert (Ha : two ^ de a == two ^ (de a - em) * two ^ em) by (rewrite <- Qpower_plus by apply two_nz; f_equiv; lia).
      assert (Hb : two ^ de b == two ^ (de b - em) * two ^ em) by (rewrite <- Qpower_plus by apply two_nz; f_equiv; lia).
      rewrite Ha, Hb. ring.
Qed.
Lemma dyv_mul a b : dyv (dy_mul a b) == dyv a * dyv b.
Proof. unfold dy_mul, dyv. cbn [dm de]. rewrite inject_Z_mult, Qpower_plus by apply two_nz. ring. Qed.
Lemma dyv_sum l : dyv (dy_sum l) == qsum (map dyv l).
Proof.
  unfold dy_sum. assert (G : forall l acc, dyv (fold_left dy_add l acc) == dyv acc + qsum (map dyv l)).
  { induction l0 as [|x l0 IH]; intros acc; simpl; [ring|]. rewrite IH, dyv_add. ring. }
  rewrite G. unfold dyv at 1, dy0. cbn [dm de]. change (inject_Z 0) with 0. ring.
Qed.
Lemma qsum_ext_map {A} (f g : A -> Q) l : (forall x, f x == g x) -> qsum (map f l) == qsum (map g l).
Proof. intros H. induction l; simpl; [reflexivity|]. now rewrite H, IHl. Qed.

(* abstraction of an executable shell to a specification shell *)
Definition abs (s : EstimExec.shell) : Estim.shell :=
  Estim.mk (dy_Q (EstimExec.bv s)) (inject_Z (EstimExec.ns s)) (map dy_Q (EstimExec.Ls s)).

Lemma abs_n s : Estim.n (abs s) = nQ s.
Proof. unfold Estim.n, nQ, abs. simpl. now rewrite map_length. Qed.
Lemma abs_sumL s : qsum (Estim.L (abs s)) == dy_Q (s1 s).
Proof. unfold abs, s1. cbn [Estim.L]. rewrite dy_Q_value, dyv_sum. apply qsum_ext_map. intros x. apply dy_Q_value. Qed.
Lemma abs_sumL2 s : qsum (map Estim.sq (Estim.L (abs s))) == dy_Q (s2 s).
Proof.
  unfold abs, s2. cbn [Estim.L]. rewrite dy_Q_value, dyv_sum, !map_map. apply qsum_ext_map. intros x.
  unfold Estim.sq. rewrite dyv_mul, dy_Q_value. reflexivity.
Qed.

(* shell volume, shell evidence, per-shell effective sample size, total evidence *)
Theorem volQ_refines s : volQ s == Estim.vol (abs s).
Proof. unfold volQ, Estim.vol. rewrite Qred_correct, abs_n. unfold abs. simpl. reflexivity. Qed.
Theorem zQ_refines s : ~ nQ s == 0 -> ~ inject_Z (EstimExec.ns s) == 0 -> zQ s == Estim.zsh (abs s).
Proof.
  intros Hn Hns. unfold zQ, Estim.zsh, Estim.vol, Estim.meanL. rewrite Qred_correct, abs_n, abs_sumL.
  rewrite !dy_Q_value, dyv_mul. unfold abs. cbn [Estim.bv Estim.ns]. rewrite dy_Q_value. field. split; auto.
Qed.
Theorem neffSh_refines s : ~ dy_Q (s2 s) == 0 -> neffShQ s == Estim.neff_sh (abs s).
Proof.
  intros H2. unfold neffShQ, Estim.neff_sh.
  destruct (Z.eqb_spec (dm (s2 s)) 0) as [E|NE].
  - exfalso. apply H2. rewrite dy_Q_value. unfold dyv. rewrite E. change (inject_Z 0) with 0. ring.
  - rewrite Qred_correct, abs_sumL2. unfold Estim.sq. rewrite abs_sumL. rewrite !dy_Q_value, dyv_mul. reflexivity.
Qed.
Theorem Ztot_refines ss : Forall (fun s => ~ nQ s == 0 -> ~ inject_Z (EstimExec.ns s) == 0) ss ->
  Ztot ss == Estim.Zall (map abs (filter nonempty ss)).
Proof.
  intros HF. unfold Ztot, Estim.Zall.
  assert (G : forall l acc, Forall (fun s => ~ nQ s == 0 /\ ~ inject_Z (EstimExec.ns s) == 0) l ->
              fold_left (fun a s => Qred (a + zQ s)) l acc == acc + qsum (map Estim.zsh (map abs l))).
  { induction l as [|s l IH]; intros acc H; cbn [fold_left map qsum fold_right]; [ring|]. inversion H as [|? ? (Hn & Hns) H']; subst.
    rewrite IH by exact H'. rewrite Qred_correct. rewrite zQ_refines by auto. unfold qsum. ring. }
  rewrite G; [ring|]. apply Forall_forall. intros s Hs. apply filter_In in Hs. destruct Hs as [Hin Hne].
  rewrite Forall_forall in HF. assert (Hn : ~ nQ s == 0).
  { unfold nQ, nonempty in *. destruct (Ls s); [discriminate|]. simpl length. intros H. unfold Qeq in H. simpl in H. lia. }
  split; auto.
Qed.

Theorem w2Q_refines s : ~ nQ s == 0 -> ~ inject_Z (EstimExec.ns s) == 0 -> ~ dy_Q (s1 s) == 0 -> ~ dy_Q (s2 s) == 0 ->
  w2Q s == Estim.sq (Estim.zsh (abs s)) / Estim.neff_sh (abs s).
Proof.
  intros Hn Hns H1 H2. unfold w2Q. rewrite Qred_correct. unfold Estim.zsh, Estim.vol, Estim.meanL, Estim.neff_sh.
  rewrite abs_sumL2, abs_n. unfold Estim.sq. rewrite abs_sumL. unfold abs. cbn [Estim.bv Estim.ns].
  rewrite !dy_Q_value, !dyv_mul. rewrite inject_Z_mult. rewrite <- !dy_Q_value.
  field. repeat split; auto.
Qed.
(* the reported n_eff is Kish's effective sample size over all stored samples *)
Theorem neffQ_refines ss : Forall (fun s => ~ nQ s == 0 /\ ~ inject_Z (EstimExec.ns s) == 0 /\ ~ dy_Q (s1 s) == 0 /\ ~ dy_Q (s2 s) == 0) ss ->
  W2tot ss == qsum (map (fun s => Estim.sq (Estim.zsh s) / Estim.neff_sh s) (map abs (filter nonempty ss))).
Proof.
  intros HF. unfold W2tot.
  assert (G : forall l acc, Forall (fun s => ~ nQ s == 0 /\ ~ inject_Z (EstimExec.ns s) == 0 /\ ~ dy_Q (s1 s) == 0 /\ ~ dy_Q (s2 s) == 0) l ->
              fold_left (fun a s => Qred (a + w2Q s)) l acc == acc + qsum (map (fun s => Estim.sq (Estim.zsh s) / Estim.neff_sh s) (map abs l))).
  { induction l as [|s l IH]; intros acc H; cbn [fold_left map qsum fold_right]; [ring|]. inversion H as [|? ? (A & B & C & D) H']; subst.
    rewrite IH by exact H'. rewrite Qred_correct. rewrite w2Q_refines by auto. unfold qsum. ring. }
  rewrite G; [ring|]. apply Forall_forall. intros s Hs. apply filter_In in Hs. destruct Hs as [Hin _].
  rewrite Forall_forall in HF. now apply HF.
Qed.
