(* Model of Sampler.run() (sampler.py 373-502): the while loop, its guard, the branch taken by every iteration,
   the success predicate and the return value.  Floating-point decisions (f_live <= f_live target, n_eff >= target,
   the arg-max shell, time-out, acceptance of a new bound) are oracle bits / oracle choices carried by the trace;
   the integer logic (budget guard, shell counts against n_shell, which shell is sampled next, exactly one batch per
   iteration) is computed and CHECKED by the model. *)
From Coq Require Import List Arith Bool Lia PeanoNat.
Import ListNotations.
Require Import NV.Base NV.Shell2.

Record runcfg := mkRC { rc_lim : option nat;      (* n_like_max, None = infinity *)
                        rc_nshell : nat;           (* n_shell *)
                        rc_discard : bool }.       (* discard_exploration argument of run() *)
Record iter := mkIter { i_timeout : bool;          (* time() - t_start >= timeout when the guard was evaluated *)
                        i_neff : bool;             (* n_eff >= target when the guard was evaluated *)
                        i_events : list event }.   (* what the iteration did *)

Section Loop.
Variable contains : bid -> pid -> bool.
Variable in_cube : pid -> bool.
Variable lik blob : pid -> vid.
Variable n_batch : nat.
Notation step := (step contains in_cube lik blob n_batch).
Notation run := (run contains in_cube lik blob n_batch).

Definition all_nshell (c : runcfg) (s : st) : bool := forallb (fun sh => Nat.leb (rc_nshell c) (view_n s sh)) (shells s).
Definition success (c : runcfg) (s : st) (neff_ok : bool) : bool := explored s && all_nshell c s && neff_ok.
Definition under_lim (c : runcfg) (s : st) : bool := match rc_lim c with None => true | Some l => Nat.ltb (n_like s) l end.
Definition guard (c : runcfg) (s : st) (timeout neff_ok : bool) : bool := under_lim c s && negb timeout && negb (success c s neff_ok).

Fixpoint first_below (c : runcfg) (s : st) (i : nat) (shs : list shell) : option nat :=
  match shs with [] => None | sh :: r => if Nat.ltb (view_n s sh) (rc_nshell c) then Some i else first_below c s (S i) r end.

(* the shape of one iteration, given the state at its start *)
Definition iter_shape (c : runcfg) (s : st) (evs : list event) : bool :=
  if explored s then
    match evs with
    | [EvAddSamples (Some k) _ _] =>
      match first_below c s 0 (shells s) with Some j => Nat.eqb k j | None => true end   (* np.flatnonzero(shell_n < n_shell)[0], else arg-max oracle *)
    | _ => false
    end
  else
    match evs with
    | [EvAddSamples None _ _] | [EvAddBoundOk _; EvAddSamples None _ _] | [EvAddBoundFail; EvAddSamples None _ _] => true
    | [EvAddSamples None _ _; EvEndExploration d] | [EvAddBoundOk _; EvAddSamples None _ _; EvEndExploration d]
    | [EvAddBoundFail; EvAddSamples None _ _; EvEndExploration d] => Bool.eqb d (rc_discard c)
    | _ => false
    end.

Fixpoint run_loop (c : runcfg) (its : list iter) (fin_timeout fin_neff : bool) (s : st) : option (st * bool) :=
  match its with
  | [] => if guard c s fin_timeout fin_neff then None           (* the loop stopped although its guard holds *)
          else Some (s, success c s fin_neff)
  | it :: r =>
    if negb (guard c s (i_timeout it) (i_neff it)) then None    (* an iteration ran although the guard fails *)
    else if negb (iter_shape c s (i_events it)) then None
    else match run s (i_events it) with Some s' => run_loop c r fin_timeout fin_neff s' | None => None end
  end.

(* `if len(self.bounds) == 0: self.add_bound()` then the loop *)
Definition run_call (c : runcfg) (first : list event) (its : list iter) (fin_timeout fin_neff : bool) (s : st) : option (st * bool) :=
  match shells s, first with
  | [], [EvAddBoundOk b] => match step s (EvAddBoundOk b) with Some s1 => run_loop c its fin_timeout fin_neff s1 | None => None end
  | _ :: _, [] => run_loop c its fin_timeout fin_neff s
  | _, _ => None
  end.
End Loop.
