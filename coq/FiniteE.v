From Coq Require Import QArith List Lia Field Bool Arith.
Import ListNotations.
Require Import NV.Finite.
Open Scope Q_scope.

Section Exp.
Variable A : Type.
Variable B : list A.                         (* the cells of one bound; proposals are uniform on it *)
Hypothesis Bne : B <> [].

Definition avg (f : A -> Q) : Q := qsum (map f B) / qn (length B).

(* expectation of F over all k-tuples of independent uniform draws from B *)
Fixpoint E (k : nat) (F : list A -> Q) : Q :=
  match k with O => F [] | S k' => avg (fun x => E k' (fun xs => F (x :: xs))) end.

Lemma lenB : ~ qn (length B) == 0.
Proof. destruct B; [contradiction|]. unfold qn. intros H. unfold Qeq in H. simpl in H. lia. Qed.

Lemma avg_ext f g : (forall x, f x == g x) -> avg f == avg g.
Proof. intros H. unfold avg. rewrite (qsum_ext f g); [reflexivity|auto]. Qed.
Lemma avg_const c : avg (fun _ => c) == c.
Proof.
  unfold avg. assert (H : forall l : list A, qsum (map (fun _ => c) l) == qn (length l) * c).
  { induction l; simpl; [unfold qn; simpl; ring|]. rewrite IHl. unfold qn. rewrite Nat2Z.inj_succ, <- Z.add_1_l, inject_Z_plus. ring. }
  rewrite H. field. apply lenB.
Qed.
Lemma avg_plus f g : avg (fun x => f x + g x) == avg f + avg g.
Proof.
  unfold avg. assert (H : forall l : list A, qsum (map (fun x => f x + g x) l) == qsum (map f l) + qsum (map g l)).
  { induction l; simpl; [ring|rewrite IHl; ring]. }
  rewrite H. field. apply lenB.
Qed.

Lemma E_ext k : forall F G, (forall xs, F xs == G xs) -> E k F == E k G.
Proof. induction k; simpl; intros F G H; [apply H|]. apply avg_ext. intros x. apply IHk. intros xs. apply H. Qed.
Lemma E_const k c : E k (fun _ => c) == c.
Proof. induction k; simpl; [reflexivity|]. rewrite (avg_ext _ (fun _ => c)); [apply avg_const|]. intros x. apply IHk. Qed.
Lemma E_plus k : forall F G, E k (fun xs => F xs + G xs) == E k F + E k G.
Proof.
  induction k; simpl; intros F G; [reflexivity|].
  rewrite (avg_ext _ (fun x => E k (fun xs => F (x :: xs)) + E k (fun xs => G (x :: xs)))).
  - apply avg_plus.
  - intros x. apply IHk.
Qed.

(* linearity: the expected sum over k draws of g is k times the mean of g *)
Theorem E_sum k g : E k (fun xs => qsum (map g xs)) == qn k * avg g.
Proof.
  induction k; simpl.
  - unfold qn. simpl. ring.
  - rewrite (avg_ext _ (fun x => g x + qn k * avg g)).
    + rewrite avg_plus, avg_const. unfold qn. rewrite Nat2Z.inj_succ, <- Z.add_1_l, inject_Z_plus. ring.
    + intros x. rewrite E_plus, E_const, IHk. reflexivity.
Qed.

(* the shell estimator  Zhat = (vol B / ns) * sum_j 1[x_j in S] L(x_j)  is unbiased for  vol B * mean_B (1_S L) *)
Variable inS : A -> bool.  Variable L : A -> Q.  Variable volB : Q.
Theorem C04_shell_unbiased ns : (0 < ns)%nat ->
  E ns (fun xs => volB / qn ns * qsum (map (fun x => b2q (inS x) * L x) xs)) == volB * avg (fun x => b2q (inS x) * L x).
Proof.
  intros Hns.
  assert (Hs : forall k F c, E k (fun xs => c * F xs) == c * E k F).
  { induction k; simpl; intros F c; [reflexivity|].
    rewrite (avg_ext _ (fun x => c * E k (fun xs => F (x :: xs)))); [|intros x; apply IHk].
    unfold avg. assert (H : forall l : list A, qsum (map (fun x => c * E k (fun xs => F (x :: xs))) l) == c * qsum (map (fun x => E k (fun xs => F (x :: xs))) l)).
    { induction l; simpl; [ring|rewrite IHl; ring]. }
    rewrite H. field. apply lenB. }
  rewrite Hs, E_sum. field. unfold qn. intros H. unfold Qeq in H. simpl in H. lia.
Qed.
End Exp.

(* ---- all shells together: the shell estimators add up to the evidence, the shell volumes to the prior volume ---- *)
Section Shells.
Variable A : Type.
Variable X : list A.                          (* the cells of the unit cube *)
Variable L : A -> Q.                          (* likelihood per cell *)

(* shell of bound b given the bounds built later: in b and in none of the later ones *)
Definition in_shell (b : A -> bool) (later : list (A -> bool)) (x : A) : bool := b x && forallb (fun k => negb (k x)) later.
(* number of shells a cell belongs to *)
Fixpoint shells_of (bs : list (A -> bool)) (x : A) : Q :=
  match bs with [] => 0 | b :: r => b2q (in_shell b r x) + shells_of r x end.

Lemma shells_of_one bs x : shells_of bs x == (if existsb (fun b => b x) bs then 1 else 0).
Proof.
  induction bs as [|b r IH]; simpl; [reflexivity|]. rewrite IH. unfold in_shell.
  destruct (existsb (fun b0 => b0 x) r) eqn:E.
  - assert (F : forallb (fun k => negb (k x)) r = false).
    { apply Bool.not_true_iff_false. intros H. rewrite forallb_forall in H. apply existsb_exists in E. destruct E as (k & Hk & Hx).
      specialize (H k Hk). rewrite Hx in H. discriminate. }
    rewrite F, andb_false_r, orb_true_r. simpl. ring.
  - assert (F : forallb (fun k => negb (k x)) r = true).
    { apply forallb_forall. intros k Hk. destruct (k x) eqn:Hx; auto. exfalso.
      assert (existsb (fun b0 => b0 x) r = true) by (apply existsb_exists; eauto). congruence. }
    rewrite F, andb_true_r, orb_false_r. destruct (b x); simpl; ring.
Qed.

(* what the estimator of shell (b, later) converges to: volume fraction of the bound times the mean over the bound of 1_shell L.
   With uniform proposals in b this is E(Zhat) by C04_shell_unbiased (volB = |b| / |X|). *)
Definition zshell (b : A -> bool) (later : list (A -> bool)) : Q :=
  qsum (map (fun x => b2q (in_shell b later x) * L x) X) / qn (length X).
Fixpoint zsum (bs : list (A -> bool)) : Q := match bs with [] => 0 | b :: r => zshell b r + zsum r end.

Lemma qsum_plus {B} (f g : B -> Q) l : qsum (map (fun x => f x + g x) l) == qsum (map f l) + qsum (map g l).
Proof. induction l; simpl; [ring|rewrite IHl; ring]. Qed.

Theorem shells_partition_sum bs : X <> [] -> zsum bs == qsum (map (fun x => shells_of bs x * L x) X) / qn (length X).
Proof.
  intros HX. assert (Hn : ~ qn (length X) == 0).
  { destruct X; [contradiction|]. unfold qn. intros H. unfold Qeq in H. simpl in H. lia. }
  induction bs as [|b r IH]; simpl.
  - rewrite (qsum_ext _ (fun _ => 0)); [|intros; ring]. assert (G : forall l : list A, qsum (map (fun _ => 0) l) == 0) by (induction l; simpl; [reflexivity|rewrite IHl; ring]).
    rewrite G. field. exact Hn.
  - rewrite IH. unfold zshell. rewrite (qsum_ext (fun x => (b2q (in_shell b r x) + shells_of r x) * L x) (fun x => b2q (in_shell b r x) * L x + shells_of r x * L x)); [|intros; ring].
    rewrite qsum_plus. field. exact Hn.
Qed.

(* C04: if the first bound is the whole cube, the shell terms add up to the evidence (mean likelihood over the cube) ... *)
Theorem C04_unbiased b0 r : X <> [] -> (forall x, In x X -> b0 x = true) -> zsum (b0 :: r) == qsum (map L X) / qn (length X).
Proof.
  intros HX H0. rewrite shells_partition_sum by exact HX.
  rewrite (qsum_ext (fun x => shells_of (b0 :: r) x * L x) L); [reflexivity|].
  intros x Hx. rewrite shells_of_one. simpl. rewrite (H0 x Hx). simpl. ring.
Qed.
End Shells.

(* ... and with L = 1 the shell volumes add up to one, whatever the likelihood that shaped the bounds *)
Theorem C04_volumes_sum (A : Type) (X : list A) b0 r : X <> [] -> (forall x, In x X -> b0 x = true) -> zsum A X (fun _ => 1) (b0 :: r) == 1.
Proof.
  intros HX H0. rewrite C04_unbiased by auto.
  assert (G : forall l : list A, qsum (map (fun _ => 1) l) == qn (length l)).
  { induction l; simpl; [reflexivity|]. rewrite IHl. unfold qn. rewrite Nat2Z.inj_succ, <- Z.add_1_l, inject_Z_plus. reflexivity. }
  rewrite G. field. destruct X; [contradiction|]. unfold qn. intros H. unfold Qeq in H. simpl in H. lia.
Qed.

(* link between the two: the limit of shell i is (volume fraction of bound i) x (mean over bound i of 1_shell L), i.e. what
   C04_shell_unbiased shows the estimator has as expectation under uniform proposals in the bound *)
Lemma qsum_filter {A} (p : A -> bool) (f : A -> Q) l : qsum (map f (filter p l)) == qsum (map (fun x => b2q (p x) * f x) l).
Proof. induction l as [|a l IH]; simpl; [reflexivity|]. destruct (p a); simpl; rewrite IH; ring. Qed.
Theorem zshell_bound_average (A : Type) (X : list A) (L : A -> Q) b later : filter b X <> [] ->
  zshell A X L b later == (qn (length (filter b X)) / qn (length X)) * avg A (filter b X) (fun x => b2q (in_shell A b later x) * L x).
Proof.
  intros HB. unfold zshell, avg. rewrite qsum_filter.
  rewrite (qsum_ext (fun x => b2q (b x) * (b2q (in_shell A b later x) * L x)) (fun x => b2q (in_shell A b later x) * L x)).
  - assert (HX : X <> []) by (intros E; rewrite E in HB; apply HB; reflexivity).
    field. split.
    + destruct (filter b X); [contradiction|]. unfold qn. intros H. unfold Qeq in H. simpl in H. lia.
    + destruct X; [contradiction|]. unfold qn. intros H. unfold Qeq in H. simpl in H. lia.
  - intros x _. unfold in_shell. destruct (b x); simpl; ring.
Qed.
