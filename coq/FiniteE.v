From Coq Require Import QArith List Lia Field Bool Arith.
Import ListNotations.
Require Import NV.Finite.
Open Scope Q_scope.

Section Exp.
Variable A : Type.
Variable B : list A.                         (* the cells of one bound; proposals are uniform on it *)
Hypothesis Bne : B <> [].

Definition avg (f : A -> Q) : Q := qsum (map f B) / qn (length B).

(* expectation of F over all k-tuples of independent uniform draws from B *)
Fixpoint E (k : nat) (F : list A -> Q) : Q :=
  match k with O => F [] | S k' => avg (fun x => E k' (fun xs => F (x :: xs))) end.

Lemma lenB : ~ qn (length B) == 0.
Proof. destruct B; [contradiction|]. unfold qn. intros H. unfold Qeq in H. simpl in H. lia. Qed.

Lemma avg_ext f g : (forall x, f x == g x) -> avg f == avg g.
Proof. intros H. unfold avg. rewrite (qsum_ext f g); [reflexivity|auto]. Qed.
Lemma avg_const c : avg (fun _ => c) == c.
Proof.
  unfold avg. assert (H : forall l : list A, qsum (map (fun _ => c) l) == qn (length l) * c).
  { induction l; simpl; [unfold qn; simpl; ring|]. rewrite IHl. unfold qn. rewrite Nat2Z.inj_succ, <- Z.add_1_l, inject_Z_plus. ring. }
  rewrite H. field. apply lenB.
Qed.
Lemma avg_plus f g : avg (fun x => f x + g x) == avg f + avg g.
Proof.
  unfold avg. assert (H : forall l : list A, qsum (map (fun x => f x + g x) l) == qsum (map f l) + qsum (map g l)).
  { induction l; simpl; [ring|rewrite IHl; ring]. }
  rewrite H. field. apply lenB.
Qed.

Lemma E_ext k : forall F G, (forall xs, F xs == G xs) -> E k F == E k G.
Proof. induction k; simpl; intros F G H; [apply H|]. apply avg_ext. intros x. apply IHk. intros xs. apply H. Qed.
Lemma E_const k c : E k (fun _ => c) == c.
Proof. induction k; simpl; [reflexivity|]. rewrite (avg_ext _ (fun _ => c)); [apply avg_const|]. intros x. apply IHk. Qed.
Lemma E_plus k : forall F G, E k (fun xs => F xs + G xs) == E k F + E k G.
Proof.
  induction k; simpl; intros F G; [reflexivity|].
  rewrite (avg_ext _ (fun x => E k (fun xs => F (x :: xs)) + E k (fun xs => G (x :: xs)))).
  - apply avg_plus.
  - intros x. apply IHk.
Qed.

(* linearity: the expected sum over k draws of g is k times the mean of g *)
Theorem E_sum k g : E k (fun xs => qsum (map g xs)) == qn k * avg g.
Proof.
  induction k; simpl.
  - unfold qn. simpl. ring.
  - rewrite (avg_ext _ (fun x => g x + qn k * avg g)).
    + rewrite avg_plus, avg_const. unfold qn. rewrite Nat2Z.inj_succ, <- Z.add_1_l, inject_Z_plus. ring.
    + intros x. rewrite E_plus, E_const, IHk. reflexivity.
Qed.

(* the shell estimator  Zhat = (vol B / ns) * sum_j 1[x_j in S] L(x_j)  is unbiased for  vol B * mean_B (1_S L) *)
Variable inS : A -> bool.  Variable L : A -> Q.  Variable volB : Q.
Theorem C04_shell_unbiased ns : (0 < ns)%nat ->
  E ns (fun xs => volB / qn ns * qsum (map (fun x => b2q (inS x) * L x) xs)) == volB * avg (fun x => b2q (inS x) * L x).
Proof.
  intros Hns.
  assert (Hs : forall k F c, E k (fun xs => c * F xs) == c * E k F).
  { induction k; simpl; intros F c; [reflexivity|].
    rewrite (avg_ext _ (fun x => c * E k (fun xs => F (x :: xs)))); [|intros x; apply IHk].
    unfold avg. assert (H : forall l : list A, qsum (map (fun x => c * E k (fun xs => F (x :: xs))) l) == c * qsum (map (fun x => E k (fun xs => F (x :: xs))) l)).
    { induction l; simpl; [ring|rewrite IHl; ring]. }
    rewrite H. field. apply lenB. }
  rewrite Hs, E_sum. field. unfold qn. intros H. unfold Qeq in H. simpl in H. lia.
Qed.
End Exp.
