From Coq Require Import ZArith Reals Floats Lra Psatz Bool.
From Flocq Require Import Core BinarySingleNaN.
Require Import Flocq.IEEE754.PrimFloat.
Open Scope R_scope.

Notation pfloat := Coq.Floats.PrimFloat.float.

(* ---------- executable binary64 model of PhaseShift.transform (one coordinate) ---------- *)
(* numpy's  s % 1  (npy_divmod) for -1 < s < 2: fmod(s,1) is exact there; a negative remainder gets +1 (rounded!),
   a zero remainder becomes +0.0 *)
Definition fmod1 (s : pfloat) : pfloat :=
  if (s <? 0)%float then (s + 1)%float else if (1 <=? s)%float then (s - 1)%float else if (s =? 0)%float then 0%float else s.
Definition shift_asis (c x : pfloat) : pfloat := fmod1 (x + (0.5 - c))%float.          (* before the repair *)
Definition unshift_asis (c x : pfloat) : pfloat := fmod1 (x + - (0.5 - c))%float.
(* `points_t[points_t[:, dim] >= 1, dim] -= 1` *)
Definition fold1 (r : pfloat) : pfloat := if (1 <=? r)%float then (r - 1)%float else r.
(* PhaseShift.transform on one periodic coordinate, offset d = +-(0.5 - c) *)
Definition tr (d x : pfloat) : pfloat := fold1 (fmod1 (x + d)%float).
Definition shift (c x : pfloat) : pfloat := tr (0.5 - c)%float x.
Definition unshift (c x : pfloat) : pfloat := tr (- (0.5 - c))%float x.

(* the defect of the unrepaired code: 0.3 with centre 0.8 is mapped to exactly 1.0 *)
Example float_asis_refuted :
  exists c x : pfloat, (0 <=? x)%float = true /\ (x <? 1)%float = true /\ (0 <=? c)%float = true /\ (c <? 1)%float = true /\
                       (shift_asis c x =? 1)%float = true.
Proof. exists 0x1.999999999999ap-1%float, 0x1.3333333333333p-2%float. vm_compute. repeat split. Qed.

(* ---------- bridge to Flocq ---------- *)
Definition FR (x : pfloat) : R := B2R (Prim2B x).
Definition fin (x : pfloat) : Prop := is_finite (Prim2B x) = true.
Notation fexp := (FLT_exp (3 - emax - prec) prec).
Notation rnd := (round radix2 fexp ZnearestE).
Local Instance Hp : Prec_gt_0 prec. Proof. unfold Prec_gt_0, prec; lia. Qed.

Lemma fmt_pow2 (e : Z) : (-1000 <= e <= 1000)%Z -> generic_format radix2 fexp (bpow radix2 e).
Proof. intros H. apply generic_format_bpow. unfold FLT_exp, emax, prec. lia. Qed.

Lemma fmt_4 : generic_format radix2 fexp 4.
Proof. replace 4 with (bpow radix2 2) by (simpl; lra). apply fmt_pow2; lia. Qed.
Lemma fmt_1 : generic_format radix2 fexp 1.
Proof. replace 1 with (bpow radix2 0) by (simpl; lra). apply fmt_pow2; lia. Qed.
Lemma fmt_half : generic_format radix2 fexp (/2).
Proof. replace (/2) with (bpow radix2 (-1)) by (simpl; lra). apply fmt_pow2; lia. Qed.
Lemma fmt_0 : generic_format radix2 fexp 0.
Proof. apply generic_format_0. Qed.

Lemma rnd_between a b r : generic_format radix2 fexp a -> generic_format radix2 fexp b ->
  a <= r <= b -> a <= rnd r <= b.
Proof.
  intros Ga Gb [H1 H2]. split.
  - apply round_ge_generic; [typeclasses eauto | typeclasses eauto | exact Ga | exact H1].
  - apply round_le_generic; [typeclasses eauto | typeclasses eauto | exact Gb | exact H2].
Qed.

Lemma rnd_abs4 r : Rabs r <= 4 -> Rabs (rnd r) < bpow radix2 emax.
Proof.
  intros H. apply Rle_lt_trans with (bpow radix2 2).
  - replace (bpow radix2 2) with 4 by (simpl; lra). apply Rabs_le. apply Rabs_le_inv in H.
    apply rnd_between; auto using fmt_4. apply generic_format_opp, fmt_4.
  - apply bpow_lt. unfold emax. lia.
Qed.

Lemma add_small (x y : pfloat) : fin x -> fin y -> Rabs (FR x + FR y) <= 4 ->
  fin (x + y)%float /\ FR (x + y)%float = rnd (FR x + FR y).
Proof.
  unfold fin, FR. intros Fx Fy Hb. rewrite add_equiv.
  pose proof (Bplus_correct prec emax eq_refl eq_refl mode_NE (Prim2B x) (Prim2B y) Fx Fy) as H.
  rewrite Rlt_bool_true in H by (apply rnd_abs4; exact Hb). destruct H as (H1 & H2 & _). split; auto.
Qed.

Lemma sub_small (x y : pfloat) : fin x -> fin y -> Rabs (FR x - FR y) <= 4 ->
  fin (x - y)%float /\ FR (x - y)%float = rnd (FR x - FR y).
Proof.
  unfold fin, FR. intros Fx Fy Hb. rewrite sub_equiv.
  pose proof (Bminus_correct prec emax eq_refl eq_refl mode_NE (Prim2B x) (Prim2B y) Fx Fy) as H.
  rewrite Rlt_bool_true in H by (apply rnd_abs4; exact Hb). destruct H as (H1 & H2 & _). split; auto.
Qed.

Lemma ltb_R (x y : pfloat) : fin x -> fin y -> (x <? y)%float = Rlt_bool (FR x) (FR y).
Proof. intros. rewrite ltb_equiv. now apply Bltb_correct. Qed.
Lemma leb_R (x y : pfloat) : fin x -> fin y -> (x <=? y)%float = Rle_bool (FR x) (FR y).
Proof. intros. rewrite leb_equiv. now apply Bleb_correct. Qed.

Lemma FR_0 : FR 0%float = 0 /\ fin 0%float.
Proof. unfold FR, fin. change 0%float with zero. rewrite zero_equiv, Prim2B_B2Prim. simpl. auto. Qed.
Lemma FR_1 : FR 1%float = 1 /\ fin 1%float.
Proof.
  unfold FR, fin. change 1%float with one. rewrite one_equiv, Prim2B_B2Prim. split.
  - apply Bone_correct.
  - apply is_finite_Bone.
Qed.

Lemma FR_half : FR 0.5%float = /2 /\ fin 0.5%float.
Proof.
  unfold FR, fin, Prim2B. rewrite B2R_SF2B, is_finite_SF2B.
  set (s := Prim2SF 0.5%float). vm_compute in s. subst s. split; [|reflexivity].
  unfold SF2R, F2R. simpl Fnum. simpl Fexp.
  change (bpow radix2 (-53)) with (/ IZR (Z.pow_pos 2 53)).
  replace (Z.pow_pos 2 53) with 9007199254740992%Z by reflexivity.
  lra.
Qed.

Lemma fmt_2 : generic_format radix2 fexp 2.
Proof. replace 2 with (bpow radix2 1) by (simpl; lra). apply fmt_pow2; lia. Qed.
Lemma fmt_mhalf : generic_format radix2 fexp (-/2).
Proof. apply generic_format_opp, fmt_half. Qed.

Lemma fmod1_spec (s : pfloat) : fin s -> -/2 <= FR s <= 2 ->
  fin (fmod1 s) /\ 0 <= FR (fmod1 s) <= 1.
Proof.
  intros Fs [Hlo Hhi]. destruct FR_0 as [R0 F0]. destruct FR_1 as [R1 F1]. unfold fmod1.
  rewrite (ltb_R s 0%float Fs F0), R0. destruct (Rlt_bool_spec (FR s) 0) as [Hneg|Hnn].
  - destruct (add_small s 1%float Fs F1) as [Fa Ra]; [rewrite R1; apply Rabs_le; lra|].
    split; auto. rewrite Ra, R1. 
    assert (B : /2 <= rnd (FR s + 1) <= 1) by (apply rnd_between; auto using fmt_half, fmt_1; lra). lra.
  - rewrite (leb_R 1%float s F1 Fs), R1. destruct (Rle_bool_spec 1 (FR s)) as [Hge|Hlt].
    + destruct (sub_small s 1%float Fs F1) as [Fa Ra]; [rewrite R1; apply Rabs_le; lra|].
      split; auto. rewrite Ra, R1. apply rnd_between; auto using fmt_0, fmt_1; lra.
    + destruct (s =? 0)%float; [destruct FR_0 as [Z0 Fz]; split; [exact Fz|rewrite Z0; lra]|].
      split; [assumption | lra].
Qed.

Lemma fold1_spec (r : pfloat) : fin r -> 0 <= FR r <= 1 -> fin (fold1 r) /\ 0 <= FR (fold1 r) < 1.
Proof.
  intros Fr [Hlo Hhi]. destruct FR_1 as [R1 F1]. unfold fold1.
  rewrite (leb_R 1%float r F1 Fr), R1. destruct (Rle_bool_spec 1 (FR r)) as [Hge|Hlt].
  - destruct (sub_small r 1%float Fr F1) as [Fa Ra]; [rewrite R1; apply Rabs_le; lra|].
    split; auto. rewrite Ra, R1. replace (FR r - 1) with 0 by lra. rewrite round_0; [lra|typeclasses eauto].
  - split; [assumption | lra].
Qed.

Lemma opp_R (y : pfloat) : fin y -> fin (- y)%float /\ FR (- y)%float = - FR y.
Proof.
  unfold fin, FR. intros Fy. rewrite opp_equiv. rewrite is_finite_Bopp, B2R_Bopp. auto.
Qed.

Lemma tr_range (d x : pfloat) : fin x -> fin d -> 0 <= FR x < 1 -> -/2 <= FR d <= /2 ->
  fin (tr d x) /\ 0 <= FR (tr d x) < 1.
Proof.
  intros Fx Fd Hx Hd. unfold tr.
  destruct (add_small x d Fx Fd) as [Fs Rs]; [apply Rabs_le; lra|].
  assert (Bs : -/2 <= FR (x + d)%float <= 2).
  { rewrite Rs. apply rnd_between; auto using fmt_2, fmt_mhalf; lra. }
  destruct (fmod1_spec _ Fs Bs) as [Fr Br].
  apply fold1_spec; auto.
Qed.

Lemma offset_range (c : pfloat) : fin c -> 0 <= FR c < 1 -> fin (0.5 - c)%float /\ -/2 <= FR (0.5 - c)%float <= /2.
Proof.
  intros Fc Hc. destruct FR_half as [Rh Fh].
  destruct (sub_small 0.5%float c Fh Fc) as [Fd Rd]; [rewrite Rh; apply Rabs_le; lra|].
  split; auto. rewrite Rd, Rh. apply rnd_between; auto using fmt_half, fmt_mhalf; lra.
Qed.

(* C16 at binary64 level: the transform maps [0,1) into [0,1), for every centre in [0,1), in both directions *)
Theorem float_range (c x : pfloat) :
  fin x -> fin c -> 0 <= FR x < 1 -> 0 <= FR c < 1 ->
  (fin (shift c x) /\ 0 <= FR (shift c x) < 1) /\ (fin (unshift c x) /\ 0 <= FR (unshift c x) < 1).
Proof.
  intros Fx Fc Hx Hc. destruct (offset_range c Fc Hc) as [Fd Bd]. split.
  - apply tr_range; auto.
  - destruct (opp_R _ Fd) as [Fo Ro]. apply tr_range; auto. rewrite Ro. lra.
Qed.
