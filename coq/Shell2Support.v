(* C10, support clause: every point a batch evaluates is a proposal that passed the unit-cube test and the shell's own
   bound, was never evaluated or stored before, and the likelihood values recorded for the batch are those of exactly
   these points. *)
From Coq Require Import List Arith Bool Lia PeanoNat Permutation.
Import ListNotations.
Require Import NV.Base NV.Shell2 NV.Shell2Inv NV.Shell2Uniq.

Section Support.
Variable contains : bid -> pid -> bool.
Variable in_cube : pid -> bool.
Variable lik blob : pid -> vid.
Variable n_batch : nat.
Notation step := (step contains in_cube lik blob n_batch).

Definition good_pt (known : list pid) (b : bid) (p : pid) : Prop :=
  in_cube p = true /\ contains b p = true /\ memb p known = false.

Lemma filter_Forall {A} (P : A -> Prop) f (l : list A) : Forall P l -> Forall P (filter f l).
Proof. induction 1 as [|x l Hx Hl IH]; simpl; [constructor|]. destruct (f x); [constructor|]; auto. Qed.

Lemma do_rounds_support known b later prov tmode : forall rounds a a',
  do_rounds contains in_cube n_batch known b later prov tmode rounds a = Some a' ->
  Forall (good_pt known b) (a_kept a) -> Forall (good_pt known b) (a_kept a').
Proof.
  induction rounds as [|r rs IH]; simpl; intros a a' E Ha.
  - destruct (Nat.eqb (length (a_kept a)) n_batch); inversion E; subst; exact Ha.
  - destruct (Nat.eqb (n_batch - length (a_kept a)) 0); [discriminate|].
    destruct (negb (Nat.eqb (length (r_props r)) (n_batch - length (a_kept a)))); [discriminate|].
    destruct (negb (forallb (fun p => in_cube p && contains b p) (r_props r))) eqn:Hc; [discriminate|].
    destruct (negb (nodupb (r_props r) && forallb (fun p => negb (memb p known) && negb (memb p (a_kept a))) (r_props r))) eqn:Hn;
      [discriminate|].
    match type of E with (match ?o with _ => _ end) = _ => destruct o as [from'|]; [|discriminate] end.
    match type of E with (if ?c then None else _) = _ => destruct c; [discriminate|] end.
    eapply IH; [exact E|]. simpl. apply Forall_app; split; [exact Ha|].
    apply filter_Forall, filter_Forall.
    apply negb_false_iff in Hc. apply negb_false_iff, andb_true_iff in Hn. destruct Hn as [_ Hn].
    rewrite forallb_forall in Hc, Hn. apply Forall_forall. intros p Hp.
    specialize (Hc p Hp). specialize (Hn p Hp). apply andb_true_iff in Hc, Hn. destruct Hc as [C1 C2]. destruct Hn as [N1 _].
    apply negb_true_iff in N1. repeat split; assumption.
Qed.

Theorem batch_support s idx rounds vals s' :
  step s (EvAddSamples idx rounds vals) = Some s' ->
  exists kept b, vals = map (fun p => (lik p, blob p)) kept /\ length kept = n_batch /\
    Forall (fun p => in_cube p = true /\ contains b p = true /\ memb p (all_pts s ++ t_pts s) = false) kept /\
    exists i sh, nth_error (shells s) i = Some sh /\ bnd sh = b.
Proof.
  simpl. unfold add_samples. brk. brk. brk. brk. brk.
  match goal with H : negb (vals_eqb vals _) = false |- _ => apply negb_false_iff, vals_eqb_eq in H; rename H into Ev end.
  match goal with H : do_rounds _ _ _ _ _ _ _ _ _ _ = Some _ |- _ => rename H into Ed end.
  match goal with H : nth_error (shells s) _ = Some _ |- _ => rename H into En end.
  intros _. eexists; eexists. split; [exact Ev|]. split; [eapply do_rounds_kept; exact Ed|]. split.
  - eapply (do_rounds_support _ _ _ _ _ _ _ _ Ed). constructor.
  - eexists; eexists; split; [exact En|reflexivity].
Qed.

(* outside transfer mode the candidate list is not touched *)
Lemma do_rounds_from known b later prov : forall rounds a a',
  do_rounds contains in_cube n_batch known b later prov false rounds a = Some a' -> a_from a' = a_from a.
Proof.
  induction rounds as [|r rs IH]; simpl; intros a a' E.
  - destruct (Nat.eqb (length (a_kept a)) n_batch); inversion E; subst; reflexivity.
  - repeat match type of E with (if ?c then None else _) = _ => destruct c; [discriminate|] end.
    destruct (r_used r); [|discriminate]. destruct (r_replaced r); [|discriminate].
    match type of E with (if ?c then None else _) = _ => destruct c; [discriminate|] end.
    apply IH in E. exact E.
Qed.

(* after exploration every likelihood call yields exactly one stored sample: a batch appends its n_batch evaluated points
   to one shell and nothing else changes the stored set, so "calls minus stored samples" is constant from then on *)
Theorem batch_stored s idx rounds vals s' :
  explored s = true -> step s (EvAddSamples idx rounds vals) = Some s' ->
  length (all_pts s') = length (all_pts s) + n_batch /\ n_like s' = n_like s + n_batch /\
  t_pts s' = t_pts s /\ t_from s' = t_from s.
Proof.
  intros Hx. simpl. unfold add_samples. brk. rewrite Hx. destruct idx as [i|]; simpl; [|discriminate].
  brk. brk. brk.
  match goal with H : do_rounds _ _ _ _ _ _ _ _ _ _ = Some _ |- _ => rename H into Ed end.
  match goal with H : nth_error (shells s) _ = Some _ |- _ => rename H into En end.
  pose proof Ed as Hk. apply do_rounds_kept in Hk.
  pose proof Ed as Hf. apply do_rounds_from in Hf. simpl in Hf.
  match goal with |- context [a_used ?a] => destruct (a_used a) eqn:Hu end; [|discriminate].
  intros E; inversion E; subst; clear E. unfold all_pts; simpl. repeat split; try lia.
  - match goal with |- context [upd_nth i ?f _] =>
      pose proof (cat_upd i (a_kept a) f (fun x => eq_refl) (shells s) _ En) as Hp end.
    apply Permutation_length in Hp. unfold cat in Hp. rewrite Hp, app_length. lia.
  - exact Hf.
Qed.

(* the same during exploration as long as no candidates are pending (first bound; or every candidate list empty):
   nothing is taken from the candidate store, so the batch is exactly the n_batch newly evaluated points *)
Lemma do_rounds_used known b later prov : forall rounds a a',
  do_rounds contains in_cube n_batch known b later prov false rounds a = Some a' -> a_used a' = a_used a.
Proof.
  induction rounds as [|r rs IH]; simpl; intros a a' E.
  - destruct (Nat.eqb (length (a_kept a)) n_batch); inversion E; subst; reflexivity.
  - repeat match type of E with (if ?c then None else _) = _ => destruct c; [discriminate|] end.
    destruct (r_used r); [|discriminate]. destruct (r_replaced r); [|discriminate].
    match type of E with (if ?c then None else _) = _ => destruct c; [discriminate|] end.
    apply IH in E. simpl in E. rewrite app_nil_r in E. exact E.
Qed.
Theorem batch_stored_nocand s rounds vals s' :
  t_from s = [] -> step s (EvAddSamples None rounds vals) = Some s' ->
  length (all_pts s') = length (all_pts s) + n_batch /\ n_like s' = n_like s + n_batch.
Proof.
  intros Hf. simpl. unfold add_samples. brk. brk. brk. rewrite Hf. simpl. brk. brk.
  match goal with H : do_rounds _ _ _ _ _ _ _ _ _ _ = Some _ |- _ => rename H into Ed end.
  match goal with H : nth_error (shells s) _ = Some _ |- _ => rename H into En end.
  pose proof Ed as Hk. apply do_rounds_kept in Hk.
  pose proof Ed as Hu. apply do_rounds_used in Hu. simpl in Hu. rewrite Hu. simpl.
  intros E; inversion E; subst; clear E. unfold all_pts; simpl. split; [|lia].
  match goal with |- context [upd_nth ?i ?f _] =>
    pose proof (cat_upd i (a_kept a) f (fun x => eq_refl) (shells s) _ En) as Hp end.
  apply Permutation_length in Hp. unfold cat in Hp. rewrite Hp, app_length. lia.
Qed.

(* lifted to every continuation of an explored state: calls and stored samples advance in lock step *)
Lemma step_lockstep s e s' : explored s = true -> step s e = Some s' ->
  explored s' = true /\ n_like s' + length (all_pts s) = n_like s + length (all_pts s') /\ t_pts s' = t_pts s.
Proof.
  intros Hx E. destruct (C12_step contains in_cube lik blob n_batch s e s' Hx E) as (Hx' & _ & Hm). split; [exact Hx'|].
  destruct e as [b| |idx rounds vals|d|d]; try contradiction.
  - destruct (batch_stored s idx rounds vals s' Hx E) as (A & B & C & _). split; [lia|exact C].
  - simpl in E. unfold set_discard in E. inversion E; subst; unfold all_pts; simpl. split; [lia|reflexivity].
Qed.
Theorem run_lockstep : forall evs s s', explored s = true -> Shell2.run contains in_cube lik blob n_batch s evs = Some s' ->
  explored s' = true /\ n_like s' + length (all_pts s) = n_like s + length (all_pts s') /\ t_pts s' = t_pts s.
Proof.
  induction evs as [|e evs IH]; simpl; intros s s' Hx E.
  - inversion E; subst. repeat split; auto.
  - destruct (step s e) as [s1|] eqn:Es; [|discriminate].
    destruct (step_lockstep s e s1 Hx Es) as (Hx1 & L1 & T1).
    destruct (IH s1 s' Hx1 E) as (Hx2 & L2 & T2). repeat split; auto; try lia. congruence.
Qed.
End Support.
