(* Property C10: likelihood calls -- exact count, one batch per step, budget and support kept; return value of run(). *)
From Coq Require Import List Arith.
Import ListNotations.
Require Import NV.Base NV.Shell2 NV.Shell2Inv NV.Shell2Support NV.Shell2Run NV.Shell2Loop NV.Shell2LoopProofs NV.Shell2LoopEE NV.Shell2SupportLoop.

Section P.
Variable contains : bid -> pid -> bool.
Variable in_cube : pid -> bool.
Variable lik blob : pid -> vid.
Variable n_batch : nat.
Notation step := (step contains in_cube lik blob n_batch).
Notation run_loop := (run_loop contains in_cube lik blob n_batch).
Notation run_call := (Shell2Loop.run_call contains in_cube lik blob n_batch).

(* every batch evaluates exactly n_batch points and advances the counter by exactly that; no other event touches it *)
Theorem C10_batch : forall s idx rounds vals s', step s (EvAddSamples idx rounds vals) = Some s' ->
  n_like s' = n_like s + n_batch /\ length vals = n_batch.
Proof. exact (Shell2Inv.C10_batch contains in_cube lik blob n_batch). Qed.
Theorem C10_counter : forall s e s', step s e = Some s' -> n_like s' = n_like s + (if is_batch e then n_batch else 0).
Proof. exact (step_nlike contains in_cube lik blob n_batch). Qed.

(* support: the points a batch evaluates (the values recorded for the batch are the likelihood and blob of exactly these)
   all passed the unit-cube test and the bound of a shell the sampler holds, and none of them was evaluated before *)
Theorem C10_support : forall s idx rounds vals s', step s (EvAddSamples idx rounds vals) = Some s' ->
  exists kept b, vals = map (fun p => (lik p, blob p)) kept /\ length kept = n_batch /\
    Forall (fun p => in_cube p = true /\ contains b p = true /\ memb p (all_pts s ++ t_pts s) = false) kept /\
    exists i sh, nth_error (shells s) i = Some sh /\ bnd sh = b.
Proof. exact (batch_support contains in_cube lik blob n_batch). Qed.

(* after exploration every likelihood call yields exactly one stored sample: the batch's n_batch evaluated points are
   appended to the stored set, the counter advances by the same number, and the candidate store is untouched *)
Theorem C10_stored : forall s idx rounds vals s', explored s = true -> step s (EvAddSamples idx rounds vals) = Some s' ->
  length (all_pts s') = length (all_pts s) + n_batch /\ n_like s' = n_like s + n_batch /\
  t_pts s' = t_pts s /\ t_from s' = t_from s.
Proof. exact (batch_stored contains in_cube lik blob n_batch). Qed.

(* ... and so over every continuation of a state whose exploration has finished: the counter and the number of stored
   samples advance in lock step (every call is a stored sample, every new stored sample is a call) *)
Theorem C10_lockstep : forall evs s s', explored s = true -> Shell2.run contains in_cube lik blob n_batch s evs = Some s' ->
  explored s' = true /\ n_like s' + length (all_pts s) = n_like s + length (all_pts s') /\ t_pts s' = t_pts s.
Proof. exact (run_lockstep contains in_cube lik blob n_batch). Qed.

(* the same during exploration while no candidates are pending (e.g. the whole phase of the first bound) *)
Theorem C10_stored_nocand : forall s rounds vals s', t_from s = [] -> step s (EvAddSamples None rounds vals) = Some s' ->
  length (all_pts s') = length (all_pts s) + n_batch /\ n_like s' = n_like s + n_batch.
Proof. exact (batch_stored_nocand contains in_cube lik blob n_batch). Qed.

(* one run() call: one batch per loop iteration *)
Theorem C10_count : forall c first its ft fn s s' ret, run_call c first its ft fn s = Some (s', ret) ->
  n_like s' = n_like s + n_batch * length its.
Proof. exact (call_count contains in_cube lik blob n_batch). Qed.

(* a run() loop entered after exploration stores exactly one sample per likelihood call: n_batch per iteration *)
Theorem C10_loop_stored : forall c its ft fn s s' ret, explored s = true -> run_loop c its ft fn s = Some (s', ret) ->
  explored s' = true /\ length (all_pts s') = length (all_pts s) + n_batch * length its /\ t_pts s' = t_pts s.
Proof. exact (loop_stored contains in_cube lik blob n_batch). Qed.

(* no batch is started at or above n_like_max: the total exceeds the limit by less than one batch; with the limit
   already reached the call evaluates nothing *)
Theorem C10_budget : forall c l first its ft fn s s' ret, rc_lim c = Some l -> run_call c first its ft fn s = Some (s', ret) ->
  (n_like s < l -> n_like s' < l + n_batch) /\ (l <= n_like s -> its = [] /\ n_like s' = n_like s).
Proof. exact (call_budget contains in_cube lik blob n_batch). Qed.

(* run() returns True exactly when exploration is finished, every shell has n_shell points (in the current view) and
   the effective-sample-size target is met; a False return means the budget or the time limit stopped it *)
Theorem C10_success : forall c its ft fn s s' ret, run_loop c its ft fn s = Some (s', ret) ->
  (ret = true <-> explored s' = true /\ Forall (fun sh => rc_nshell c <= view_n s' sh) (shells s') /\ fn = true) /\
  (ret = false -> (exists l, rc_lim c = Some l /\ l <= n_like s') \/ ft = true).
Proof. exact (loop_return contains in_cube lik blob n_batch). Qed.

(* sampling phase: the first shell with fewer than n_shell points is the one that receives the batch *)
Theorem C10_branch : forall c it s, explored s = true -> iter_shape c s (i_events it) = true ->
  exists k r v, i_events it = [EvAddSamples (Some k) r v] /\ (forall j, first_below c s 0 (shells s) = Some j -> k = j).
Proof. exact loop_branch. Qed.

(* the loop with the stopping rule of the exploration phase (verdict of `f_live <= target` as an oracle bit per iteration):
   an accepted history is an accepted history of run_call, so everything above applies to it; and an iteration that
   starts in the exploration phase ends it exactly when its verdict is set *)
Theorem C10_stop_refines : forall c first its ft fn s r, run_call_fl contains in_cube lik blob n_batch c first its ft fn s = Some r ->
  run_call c first (map fst its) ft fn s = Some r.
Proof. exact (call_fl_refines contains in_cube lik blob n_batch). Qed.
Theorem C10_stop_rule : forall c it fl rest ft fn s r, run_loop_fl contains in_cube lik blob n_batch c ((it, fl) :: rest) ft fn s = Some r ->
  explored s = false ->
  exists s1, Shell2.run contains in_cube lik blob n_batch s (i_events it) = Some s1 /\ explored s1 = fl /\
             run_loop_fl contains in_cube lik blob n_batch c rest ft fn s1 = Some r.
Proof. exact (loop_fl_ee contains in_cube lik blob n_batch). Qed.
End P.
Print Assumptions C10_batch.
Print Assumptions C10_counter.
Print Assumptions C10_support.
Print Assumptions C10_stored.
Print Assumptions C10_lockstep.
Print Assumptions C10_stored_nocand.
Print Assumptions C10_count.
Print Assumptions C10_loop_stored.
Print Assumptions C10_budget.
Print Assumptions C10_success.
Print Assumptions C10_branch.
Print Assumptions C10_stop_refines.
Print Assumptions C10_stop_rule.
