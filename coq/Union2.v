(* Model of the record bookkeeping of nautilus/bounds/union.py (class Union): split (153-229), trim (231-267),
   sample (291-327, records only).  Definitions only; proofs in UnionProofs.v, property theorems in P_C13.v.

   Four parallel per-ellipsoid lists as in the code: bounds (opaque ids), points_bounds (lists of point ids),
   log_v_all (here: exact linear volumes exp(log_v) as rationals) and block.  Everything the implementation obtains
   from GaussianMixture / the MVEE construction / the overlap test is oracle data on the operation; the step CHECKS
   the obligations that data must satisfy and returns None otherwise. *)
From Coq Require Import List Arith NArith ZArith QArith Bool.
Import ListNotations.
Require Import NV.Base.
Local Open Scope nat_scope.

Definition upid := positive. Definition ubid := positive.
Record ust := mkU { bs : list ubid; pbs : list (list upid); vols : list Q; blk : list bool }.

Fixpoint remove_nth {A} (i : nat) (l : list A) : list A :=
  match l, i with [], _ => [] | _ :: r, O => r | x :: r, S j => x :: remove_nth j r end.
Fixpoint uset_nth {A} (i : nat) (v : A) (l : list A) : list A :=
  match l, i with [], _ => [] | _ :: r, O => v :: r | x :: r, S j => x :: uset_nth j v r end.

(* one pass of split(): the attempt on the unblocked ellipsoid of largest volume *)
Inductive attempt :=
| ABlocked (idx : nat)                                  (* summed volume of the halves larger: flag set, recurse *)
| ARefused (idx : nat)                                  (* halves would overlap another ellipsoid and overlap is not allowed: return False *)
| ASuccess (idx : nat) (labels : list bool) (b0 b1 : ubid) (v0 v1 : Q).
Inductive uop := Split (allow_overlap : bool) (ats : list attempt) | Trim (decision : option nat) | Sample.

Section M.
Variable n_min : nat.      (* n_points_min *)

(* np.argmax(np.where(~block, log_v_all, -inf)): first maximum among the unblocked *)
Fixpoint argmax_go (i : nat) (vs : list Q) (bl : list bool) (best : option (nat * Q)) : option (nat * Q) :=
  match vs, bl with
  | v :: vs', b :: bl' =>
    let best' := if b then best else match best with None => Some (i, v) | Some (_, bv) => if Qlt_le_dec bv v then Some (i, v) else best end in
    argmax_go (S i) vs' bl' best'
  | _, _ => best
  end.
Definition argmax (u : ust) : option nat := option_map fst (argmax_go 0 (vols u) (blk u) None).

Fixpoint split_go (allow : bool) (ats : list attempt) (u : ust) : option (ust * bool) :=
  match argmax u with
  | None => match ats with [] => Some (u, false) | _ => None end        (* `if not np.any(~self.block): return False` *)
  | Some idx =>
    match ats with
    | [] => None
    | ABlocked i :: rest => if Nat.eqb i idx then split_go allow rest (mkU (bs u) (pbs u) (vols u) (uset_nth idx true (blk u))) else None
    | ARefused i :: rest => if Nat.eqb i idx && negb allow then (match rest with [] => Some (u, false) | _ => None end) else None
    | ASuccess i labels b0 b1 v0 v1 :: rest =>
      match nth_error (pbs u) idx, nth_error (vols u) idx, rest with
      | Some pts, Some vold, [] =>
        if negb (Nat.eqb i idx) then None else
        if negb (Nat.eqb (length labels) (length pts)) then None else
        let p1 := fmask labels pts in
        let p0 := fmask (map negb labels) pts in
        if negb (Nat.leb n_min (length p0) && Nat.leb n_min (length p1)) then None else     (* both halves keep the minimum *)
        if negb (Qle_bool (v0 + v1) vold) then None else                                    (* accepted only if the volume does not grow *)
        Some (mkU (remove_nth idx (bs u) ++ [b0; b1]) (remove_nth idx (pbs u) ++ [p0; p1])
                  (remove_nth idx (vols u) ++ [v0; v1])
                  (remove_nth idx (blk u) ++ [Nat.ltb (length p0) (2 * n_min); Nat.ltb (length p1) (2 * n_min)]), true)
      | _, _, _ => None
      end
    end
  end.

(* trim(): the decision (which ellipsoid, if any) is oracle data; the repaired code removes all four entries *)
Definition trim (dec : option nat) (u : ust) : option (ust * bool) :=
  match dec with
  | None => Some (u, false)
  | Some i =>
    if Nat.leb (length (bs u)) 1 then None else
    if negb (Nat.ltb i (length (bs u))) then None else
    Some (mkU (remove_nth i (bs u)) (remove_nth i (pbs u)) (remove_nth i (vols u)) (remove_nth i (blk u)), true)
  end.

(* the code before the repair kept the flag of the dropped ellipsoid (frozen, regression witness only) *)
Definition trim_asis (dec : option nat) (u : ust) : option (ust * bool) :=
  match dec with
  | None => Some (u, false)
  | Some i =>
    if Nat.leb (length (bs u)) 1 then None else
    if negb (Nat.ltb i (length (bs u))) then None else
    Some (mkU (remove_nth i (bs u)) (remove_nth i (pbs u)) (remove_nth i (vols u)) (blk u), true)
  end.

Definition ustep (u : ust) (o : uop) : option (ust * bool) :=
  match o with Split allow ats => split_go allow ats u | Trim d => trim d u | Sample => Some (u, true) end.

(* a whole history; the points trimmed away are accumulated *)
Fixpoint urun (u : ust) (trimmed : list upid) (ops : list uop) : option (ust * list upid) :=
  match ops with
  | [] => Some (u, trimmed)
  | o :: r =>
    match ustep u o with
    | None => None
    | Some (u', _) =>
      let tr' := match o with Trim (Some i) => nth i (pbs u) [] ++ trimmed | _ => trimmed end in
      urun u' tr' r
    end
  end.

(* Union.compute: one ellipsoid around all points *)
Definition uinit (b : ubid) (pts : list upid) (v : Q) : ust := mkU [b] [pts] [v] [Nat.ltb (length pts) (2 * n_min)].
End M.
