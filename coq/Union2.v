From Coq Require Import List Arith NArith ZArith Bool Lia.
Import ListNotations.
Require Import NV.Base.
Local Open Scope nat_scope.

Definition pid := positive. Definition bid := positive.
(* four parallel per-ellipsoid lists; volumes are order-preserving integer ranks of log_v *)
Record ust := mkU { bs : list bid; pbs : list (list pid); vols : list Z; blk : list bool }.

Fixpoint remove_nth {A} (i : nat) (l : list A) : list A :=
  match l, i with [], _ => [] | _ :: r, O => r | x :: r, S j => x :: remove_nth j r end.
Fixpoint set_nth {A} (i : nat) (v : A) (l : list A) : list A :=
  match l, i with [], _ => [] | _ :: r, O => v :: r | x :: r, S j => x :: set_nth j v r end.

Inductive attempt :=
| ABlocked (idx : nat)                                  (* new volume larger: flag set, try the next one *)
| ARefused (idx : nat)                                  (* would overlap and overlap is not allowed: stop, nothing changes *)
| ASuccess (idx : nat) (labels : list bool) (b0 b1 : bid) (v0 v1 : Z).
Inductive uop := Split (allow_overlap : bool) (ats : list attempt) | Trim (decision : option nat).

Section M.
Variable n_min : nat.
Fixpoint argmax_go (i : nat) (vs : list Z) (bl : list bool) (best : option (nat * Z)) : option (nat * Z) :=
  match vs, bl with
  | v :: vs', b :: bl' =>
    let best' := if b then best else match best with None => Some (i, v) | Some (_, bv) => if Z.ltb bv v then Some (i, v) else best end in
    argmax_go (S i) vs' bl' best'
  | _, _ => best
  end.
Definition argmax (u : ust) : option nat := option_map fst (argmax_go 0 (vols u) (blk u) None).

Fixpoint split_go (allow : bool) (ats : list attempt) (u : ust) : option (ust * bool) :=
  match argmax u with
  | None => match ats with [] => Some (u, false) | _ => None end
  | Some idx =>
    match ats with
    | [] => None
    | ABlocked i :: rest => if Nat.eqb i idx then split_go allow rest (mkU (bs u) (pbs u) (vols u) (set_nth idx true (blk u))) else None
    | ARefused i :: rest => if Nat.eqb i idx && negb allow then (match rest with [] => Some (u, false) | _ => None end) else None
    | ASuccess i labels b0 b1 v0 v1 :: rest =>
      match nth_error (pbs u) idx, rest with
      | Some pts, [] =>
        if negb (Nat.eqb i idx) then None else
        if negb (Nat.eqb (length labels) (length pts)) then None else
        let p1 := fmask labels pts in
        let p0 := fmask (map negb labels) pts in
        if negb (Nat.leb n_min (length p0) && Nat.leb n_min (length p1)) then None else
        Some (mkU (remove_nth idx (bs u) ++ [b0; b1]) (remove_nth idx (pbs u) ++ [p0; p1])
                  (remove_nth idx (vols u) ++ [v0; v1])
                  (remove_nth idx (blk u) ++ [Nat.ltb (length p0) (2 * n_min); Nat.ltb (length p1) (2 * n_min)]), true)
      | _, _ => None
      end
    end
  end.

Definition trim (dec : option nat) (u : ust) : option (ust * bool) :=
  match dec with
  | None => Some (u, false)
  | Some i =>
    if Nat.leb (length (bs u)) 1 then None else
    if negb (Nat.ltb i (length (bs u))) then None else
    Some (mkU (remove_nth i (bs u)) (remove_nth i (pbs u)) (remove_nth i (vols u)) (remove_nth i (blk u)), true)
  end.
Definition ustep (u : ust) (o : uop) : option (ust * bool) :=
  match o with Split allow ats => split_go allow ats u | Trim d => trim d u end.
End M.
