From Coq Require Import ZArith List Bool Lia ZifyBool Sorting.Mergesort Sorting.Sorted Permutation Orders RelationClasses.
Import ListNotations.
Require Import NV.PhaseGrid.
Open Scope Z_scope.

Section Grid.
Variable N : Z.
Hypothesis Npos : 0 < N.
Notation shift := (shift N). Notation unshift := (unshift N). Notation tr1 := (tr1 N).
Notation app1 := (app1 N). Notation transform := (transform N). Notation up := (up N). Notation centre := (centre N).

Lemma shift_range c x : 0 <= shift c x < 2 * N.
Proof. unfold PhaseGrid.shift. apply Z.mod_pos_bound. lia. Qed.
Lemma unshift_range c x : 0 <= unshift c x < 2 * N.
Proof. unfold PhaseGrid.unshift. apply Z.mod_pos_bound. lia. Qed.
Lemma tr1_range inv c x : 0 <= tr1 inv c x < 2 * N.
Proof. destruct inv; [apply unshift_range|apply shift_range]. Qed.

Lemma unshift_shift c x : 0 <= x < 2 * N -> unshift c (shift c x) = x.
Proof.
  unfold PhaseGrid.shift, PhaseGrid.unshift. intros H. rewrite Zminus_mod_idemp_l.
  replace (x + (N - c) - (N - c)) with x by lia. apply Z.mod_small. lia.
Qed.
Lemma shift_unshift c x : 0 <= x < 2 * N -> shift c (unshift c x) = x.
Proof.
  unfold PhaseGrid.shift, PhaseGrid.unshift. intros H. rewrite Zplus_mod_idemp_l.
  replace (x - (N - c) + (N - c)) with x by lia. apply Z.mod_small. lia.
Qed.
Lemma tr1_inverse inv c x : 0 <= x < 2 * N -> tr1 (negb inv) c (tr1 inv c x) = x.
Proof. destruct inv; simpl; [apply shift_unshift|apply unshift_shift]. Qed.
(* shifts of one coordinate commute *)
Lemma tr1_comm i1 i2 c1 c2 x : tr1 i1 c1 (tr1 i2 c2 x) = tr1 i2 c2 (tr1 i1 c1 x).
Proof.
  destruct i1, i2; unfold PhaseGrid.tr1, PhaseGrid.shift, PhaseGrid.unshift;
    rewrite ?Zminus_mod_idemp_l, ?Zplus_mod_idemp_l; f_equal; lia.
Qed.

(* ---- one coordinate through the whole periodic list ---- *)
Lemma app1_range j per cs inv x : 0 <= x < 2 * N -> 0 <= app1 j per cs inv x < 2 * N.
Proof.
  revert cs x; induction per as [|d per IH]; intros [|c cs] x H; simpl; auto.
  apply IH. destruct (Nat.eqb d j); auto. apply tr1_range.
Qed.
Lemma app1_other j per cs inv x : ~ In j per -> app1 j per cs inv x = x.
Proof.
  revert cs x; induction per as [|d per IH]; intros [|c cs] x H; simpl; auto.
  destruct (Nat.eqb_spec d j) as [->|Hne]; [exfalso; apply H; now left|]. apply IH. intros Hin; apply H; now right.
Qed.
Lemma app1_tr1_comm j per cs inv i c x : tr1 i c (app1 j per cs inv x) = app1 j per cs inv (tr1 i c x).
Proof.
  revert cs x; induction per as [|d per IH]; intros [|c0 cs] x; simpl; auto.
  rewrite IH. destruct (Nat.eqb d j); auto. now rewrite tr1_comm.
Qed.
Lemma app1_inverse j per cs inv x : 0 <= x < 2 * N -> app1 j per cs (negb inv) (app1 j per cs inv x) = x.
Proof.
  revert cs x; induction per as [|d per IH]; intros [|c cs] x H; simpl; auto.
  destruct (Nat.eqb d j).
  - rewrite app1_tr1_comm. rewrite IH by apply tr1_range. now apply tr1_inverse.
  - now apply IH.
Qed.

(* ---- points ---- *)
Lemma mapi_from_length {A B} i (f : nat -> A -> B) l : length (mapi_from i f l) = length l.
Proof. revert i; induction l; simpl; auto. Qed.
Lemma mapi_from_nth {A B} i (f : nat -> A -> B) l k : nth_error (mapi_from i f l) k = option_map (f (i + k)%nat) (nth_error l k).
Proof.
  revert i k; induction l as [|x l IH]; intros i [|k]; simpl; auto.
  - now rewrite Nat.add_0_r.
  - rewrite IH. now rewrite Nat.add_succ_r.
Qed.
Lemma mapi_from_ext {A B} i (f g : nat -> A -> B) l : (forall k x, nth_error l k = Some x -> f (i + k)%nat x = g (i + k)%nat x) ->
  mapi_from i f l = mapi_from i g l.
Proof.
  revert i; induction l as [|x l IH]; intros i H; simpl; auto. f_equal.
  - specialize (H 0%nat x eq_refl). now rewrite Nat.add_0_r in H.
  - apply IH. intros k y Hk. specialize (H (S k) y Hk). now rewrite Nat.add_succ_r in H.
Qed.
Lemma mapi_mapi {A} i (f g : nat -> A -> A) l : mapi_from i f (mapi_from i g l) = mapi_from i (fun j x => f j (g j x)) l.
Proof. revert i; induction l; intros i; simpl; auto. now rewrite IHl. Qed.
Lemma mapi_id {A} i (f : nat -> A -> A) l : (forall k x, nth_error l k = Some x -> f (i + k)%nat x = x) -> mapi_from i f l = l.
Proof.
  revert i; induction l as [|x l IH]; intros i H; simpl; auto. f_equal.
  - specialize (H 0%nat x eq_refl). now rewrite Nat.add_0_r in H.
  - apply IH. intros k y Hk. specialize (H (S k) y Hk). now rewrite Nat.add_succ_r in H.
Qed.

Definition in_cube (pt : list Z) : Prop := Forall (fun x => 0 <= x < 2 * N) pt.

Theorem transform_length per cs inv pt : length (transform per cs inv pt) = length pt.
Proof. apply mapi_from_length. Qed.
Theorem transform_range per cs inv pt : in_cube pt -> in_cube (transform per cs inv pt).
Proof.
  unfold in_cube, PhaseGrid.transform. generalize 0%nat. induction pt as [|x pt IH]; intros i H; simpl; constructor.
  - apply app1_range. now inversion H.
  - apply IH. now inversion H.
Qed.
Theorem transform_others per cs inv pt j : ~ In j per -> nth_error (transform per cs inv pt) j = nth_error pt j.
Proof.
  intros H. unfold PhaseGrid.transform. rewrite mapi_from_nth. simpl. destruct (nth_error pt j); simpl; auto.
  now rewrite app1_other.
Qed.
Theorem transform_inverse per cs inv pt : in_cube pt -> transform per cs (negb inv) (transform per cs inv pt) = pt.
Proof.
  intros H. unfold PhaseGrid.transform. rewrite mapi_mapi. apply mapi_id. intros k x Hk. simpl.
  apply app1_inverse. unfold in_cube in H. rewrite Forall_forall in H. apply H. eapply nth_error_In; eauto.
Qed.

(* ---- the gap ---- *)
Lemma shift_centre a g x : shift (centre a g) x = (up a x - g / 2) mod (2 * N).
Proof.
  unfold PhaseGrid.shift, PhaseGrid.centre, PhaseGrid.up.
  replace (x + (N - (a + g / 2 + N) mod (2 * N))) with ((x + N) - (a + g / 2 + N) mod (2 * N)) by lia.
  rewrite Zminus_mod_idemp_r, Zminus_mod_idemp_l. f_equal. lia.
Qed.

Lemma gap_straddles a g x :
  0 <= a < 2 * N -> 0 <= x < 2 * N -> 0 <= g <= 2 * N -> g mod 2 = 0 ->
  (up a x = 0 \/ g <= up a x) ->
  g / 2 <= shift (centre a g) x <= 2 * N - g / 2.
Proof.
  intros Ha Hx Hg He Hout. rewrite shift_centre.
  assert (Hu : 0 <= up a x < 2 * N) by (unfold PhaseGrid.up; apply Z.mod_pos_bound; lia).
  assert (Hg2 : 0 <= g / 2 /\ 2 * (g / 2) = g) by (split; [apply Z.div_pos; lia | pose proof (Z.div_mod g 2); lia]).
  destruct Hg2 as [Hh0 Hh]. set (h := g / 2) in *. clearbody h.
  destruct Hout as [H0|Hge].
  - rewrite H0. destruct (Z.eq_dec h 0) as [E0|Hn].
    + rewrite E0. rewrite Z.mod_0_l by lia. lia.
    + assert (E : (0 - h) mod (2 * N) = 2 * N - h).
      { symmetry. apply (Z.mod_unique _ _ (-1)); lia. }
      rewrite E. lia.
  - rewrite Z.mod_small by lia. lia.
Qed.

Lemma up_ge a x : a <= x < a + 2 * N -> up a x = x - a.
Proof. intros H. unfold PhaseGrid.up. apply Z.mod_small. lia. Qed.
Lemma up_lt a x : a - 2 * N <= x < a -> up a x = x - a + 2 * N.
Proof. intros H. unfold PhaseGrid.up. symmetry. apply (Z.mod_unique _ _ (-1)); lia. Qed.

(* gaps with the first element remembered *)
Fixpoint gaps_from (f : Z) (xs : list Z) : list Z :=
  match xs with
  | [] => []
  | a :: r => match r with [] => [f - (a - 2 * N)] | b :: _ => (b - a) :: gaps_from f r end
  end.
Lemma diffs_gaps_from f a xs : diffs (a :: xs) ++ [f - (last (a :: xs) 0 - 2 * N)] = gaps_from f (a :: xs).
Proof.
  revert a; induction xs as [|b xs IH]; intros a; [reflexivity|].
  change (diffs (a :: b :: xs)) with ((b - a) :: diffs (b :: xs)).
  change (last (a :: b :: xs) 0) with (last (b :: xs) 0).
  change (gaps_from f (a :: b :: xs)) with ((b - a) :: gaps_from f (b :: xs)).
  rewrite <- IH. reflexivity.
Qed.
Lemma gaps_eq xs : gaps N xs = match xs with [] => [0 - (0 - 2 * N)] | a :: _ => gaps_from a xs end.
Proof. destruct xs as [|a xs]; [reflexivity|]. unfold gaps. simpl hd. apply diffs_gaps_from. Qed.

Lemma SS_app_le l1 l2 : StronglySorted Z.le (l1 ++ l2) -> forall x y, In x l1 -> In y l2 -> x <= y.
Proof.
  induction l1 as [|a l1 IH]; simpl; intros H x y Hx Hy; [contradiction|].
  apply StronglySorted_inv in H. destruct H as [H1 H2]. destruct Hx as [->|Hx].
  - rewrite Forall_forall in H2. apply H2. apply in_or_app. now right.
  - now apply IH.
Qed.
Lemma SS_app_r l1 l2 : StronglySorted Z.le (l1 ++ l2) -> StronglySorted Z.le l2.
Proof. induction l1; simpl; auto. intros H. apply StronglySorted_inv in H. tauto. Qed.

(* every (start, gap) pair of a sorted list is free of points strictly inside *)
Lemma pair_gap_free pre xs f a g :
  StronglySorted Z.le (pre ++ xs) -> Forall (fun x => 0 <= x < 2 * N) (pre ++ xs) ->
  (forall x, In x (pre ++ xs) -> f <= x) ->
  In (a, g) (combine xs (gaps_from f xs)) ->
  In a xs /\ (In f (pre ++ xs) -> 0 <= g <= 2 * N) /\ forall x, In x (pre ++ xs) -> up a x = 0 \/ g <= up a x.
Proof.
  revert pre; induction xs as [|a0 r IH]; intros pre HS HR Hf Hin; [destruct Hin|].
  rewrite Forall_forall in HR.
  destruct r as [|b r'].
  - (* last element: the wrap-around gap *)
    cbn [combine gaps_from In] in Hin. destruct Hin as [E|[]]. apply pair_equal_spec in E. destruct E as [<- <-].
    split; [now left|]. split.
    + intros Hfin. pose proof (HR _ Hfin). assert (Ha : In a0 (pre ++ [a0])) by (apply in_or_app; right; now left).
      pose proof (HR _ Ha). pose proof (Hf _ Ha). lia.
    + intros x Hx. assert (Ha : In a0 (pre ++ [a0])) by (apply in_or_app; right; now left).
      pose proof (HR _ Hx) as Rx. pose proof (HR _ Ha) as Ra. pose proof (Hf _ Hx) as Fx.
      assert (Hle : x <= a0).
      { apply in_app_or in Hx. destruct Hx as [Hx|[->|[]]]; [|lia]. eapply SS_app_le; eauto. now left. }
      destruct (Z.eq_dec x a0) as [->|Hne].
      * left. unfold PhaseGrid.up. rewrite Z.sub_diag. apply Z.mod_0_l. lia.
      * right. rewrite up_lt by lia. lia.
  - change (combine (a0 :: b :: r') (gaps_from f (a0 :: b :: r'))) with ((a0, b - a0) :: combine (b :: r') (gaps_from f (b :: r'))) in Hin.
    destruct Hin as [E|Hin].
    + apply pair_equal_spec in E. destruct E as [<- <-]. split; [now left|].
      assert (Ha : In a0 (pre ++ a0 :: b :: r')) by (apply in_or_app; right; now left).
      assert (Hb : In b (pre ++ a0 :: b :: r')) by (apply in_or_app; right; right; now left).
      assert (Hab : a0 <= b).
      { apply SS_app_r in HS. apply StronglySorted_inv in HS. destruct HS as [_ HF]. rewrite Forall_forall in HF. apply HF. now left. }
      split; [intros _; pose proof (HR _ Ha); pose proof (HR _ Hb); lia|].
      intros x Hx. pose proof (HR _ Hx) as Rx. pose proof (HR _ Ha) as Ra. pose proof (HR _ Hb) as Rb.
      apply in_app_or in Hx. destruct Hx as [Hx|[->|Hx]].
      * assert (x <= a0) by (eapply SS_app_le; eauto; now left).
        destruct (Z.eq_dec x a0) as [->|Hne].
        -- left. unfold PhaseGrid.up. rewrite Z.sub_diag. apply Z.mod_0_l. lia.
        -- right. rewrite up_lt by lia. lia.
      * left. unfold PhaseGrid.up. rewrite Z.sub_diag. apply Z.mod_0_l. lia.
      * assert (b <= x).
        { destruct Hx as [->|Hx]; [lia|]. apply SS_app_r in HS. apply StronglySorted_inv in HS. destruct HS as [HS _].
          apply StronglySorted_inv in HS. destruct HS as [_ HF]. rewrite Forall_forall in HF. now apply HF. }
        right. rewrite up_ge by lia. lia.
    + specialize (IH (pre ++ [a0])). rewrite <- app_assoc in IH. simpl in IH.
      destruct (IH HS) as (I1 & I2 & I3); auto.
      * now apply Forall_forall.
      * split; [now right|]. split; auto.
Qed.

(* first maximum of a non-empty list *)
Lemma argmax_go_spec l i best bv : let '(k, v) := argmax_go i best bv l in
  (v = bv /\ k = best \/ In v l) /\ bv <= v /\ Forall (fun w => w <= v) l /\
  ((k = best /\ v = bv) \/ (i <= k < i + length l)%nat /\ nth_error l (k - i) = Some v).
Proof.
  revert i best bv; induction l as [|w l IH]; intros i best bv; simpl.
  - repeat split; auto; lia.
  - destruct (Z.ltb_spec bv w) as [Hlt|Hge].
    + specialize (IH (S i) i w). destruct (argmax_go (S i) i w l) as [k v]. destruct IH as (H1 & H2 & H3 & H4).
      repeat split.
      * right. destruct H1 as [[-> _]|H1]; auto.
      * lia.
      * constructor; auto.
      * right. destruct H4 as [[-> ->]|[H4 H5]].
        -- split; [lia|]. now rewrite Nat.sub_diag.
        -- split; [lia|]. replace (k - i)%nat with (S (k - S i)) by lia. exact H5.
    + specialize (IH (S i) best bv). destruct (argmax_go (S i) best bv l) as [k v]. destruct IH as (H1 & H2 & H3 & H4).
      repeat split.
      * destruct H1 as [H1|H1]; auto.
      * lia.
      * constructor; auto. lia.
      * destruct H4 as [H4|[H4 H5]]; auto. right.
        split; [lia|]. replace (k - i)%nat with (S (k - S i)) by lia. exact H5.
Qed.
Lemma argmax_spec l : l <> [] -> let '(k, v) := argmax l in nth_error l k = Some v /\ Forall (fun w => w <= v) l.
Proof.
  destruct l as [|v0 l]; [congruence|]. intros _. unfold argmax.
  pose proof (argmax_go_spec l 1 0 v0) as H. destruct (argmax_go 1 0 v0 l) as [k v].
  destruct H as (H1 & H2 & H3 & H4). split.
  - destruct H4 as [[-> ->]|[H4 H5]]; [reflexivity|]. destruct k as [|k]; [lia|]. replace (S k - 1)%nat with k in H5 by lia. exact H5.
  - constructor; auto.
Qed.

Lemma nth_combine {A B} (l1 : list A) (l2 : list B) k a b :
  nth_error l1 k = Some a -> nth_error l2 k = Some b -> In (a, b) (combine l1 l2).
Proof.
  revert l2 k; induction l1 as [|x l1 IH]; intros [|y l2] [|k]; simpl; intros H1 H2; try discriminate.
  - inversion H1; inversion H2; subst. now left.
  - right. eauto.
Qed.
Lemma gaps_from_length f xs : length (gaps_from f xs) = length xs.
Proof. induction xs as [|a [|b r] IH]; simpl in *; auto. Qed.

(* the centre computed from a sorted non-empty list puts every point at least g/2 away from both ends,
   where g is the largest circular gap *)
Theorem centre_sorted_gap xs : xs <> [] -> StronglySorted Z.le xs -> Forall (fun x => 0 <= x < 2 * N) xs ->
  Forall (fun x => x mod 2 = 0) xs ->
  exists g, Forall (fun w => w <= g) (gaps N xs) /\ In g (gaps N xs) /\ 0 <= g <= 2 * N /\
    forall x, In x xs -> g / 2 <= shift (centre_sorted N xs) x <= 2 * N - g / 2.
Proof.
  intros Hne HS HR HE. unfold centre_sorted.
  assert (Hg : gaps N xs <> []) by (unfold gaps; intros E; apply app_eq_nil in E; destruct E; discriminate).
  pose proof (argmax_spec (gaps N xs) Hg) as HA. destruct (argmax (gaps N xs)) as [k g]. destruct HA as [Hk Hmax].
  destruct xs as [|a0 xs']; [congruence|]. set (xs := a0 :: xs') in *.
  assert (Hgf : gaps N xs = gaps_from a0 xs) by (rewrite gaps_eq; reflexivity).
  assert (Hlen : (k < length xs)%nat).
  { rewrite <- (gaps_from_length a0 xs), <- Hgf. apply nth_error_Some. congruence. }
  destruct (nth_error xs k) as [a|] eqn:Ha; [|apply nth_error_None in Ha; lia].
  assert (Hnth : nth k xs 0 = a) by (now apply nth_error_nth).
  rewrite Hnth.
  assert (Hpair : In (a, g) (combine xs (gaps_from a0 xs))) by (rewrite Hgf in Hk; eapply nth_combine; eauto).
  assert (Hmin : forall x, In x ([] ++ xs) -> a0 <= x).
  { simpl. intros x [->|Hx]; [lia|]. apply StronglySorted_inv in HS. destruct HS as [_ HF]. rewrite Forall_forall in HF. now apply HF. }
  destruct (pair_gap_free [] xs a0 a g HS HR Hmin Hpair) as (Hin & Hrange & Hfree).
  assert (Hr : 0 <= g <= 2 * N) by (apply Hrange; now left).
  exists g. split; auto. split; [eapply nth_error_In; eauto|]. split; auto.
  intros x Hx. rewrite Forall_forall in HR, HE.
  apply gap_straddles; auto.
  - (* g even: difference of even numbers, or wrap gap *)
    assert (Ev : forall l f, (forall x, In x l -> x mod 2 = 0) -> f mod 2 = 0 -> forall w, In w (gaps_from f l) -> w mod 2 = 0).
    { induction l as [|u [|v r] IHl]; intros f Hl Hf w Hw; cbn [gaps_from In] in Hw.
      - destruct Hw.
      - destruct Hw as [<-|[]]. pose proof (Hl u (or_introl eq_refl)). lia.
      - destruct Hw as [<-|Hw].
        + pose proof (Hl u (or_introl eq_refl)). pose proof (Hl v (or_intror (or_introl eq_refl))). lia.
        + apply (IHl f); auto. intros y Hy. apply Hl. now right. }
    apply (Ev xs a0); auto. apply HE. now left. rewrite <- Hgf. eapply nth_error_In; eauto.
Qed.

Lemma Sorted_StronglySorted_le l : Sorted (fun x y => is_true (x <=? y)) l -> StronglySorted Z.le l.
Proof.
  intros H. assert (T : Transitive (fun x y => is_true (x <=? y))) by (intros x y z; unfold is_true; lia).
  apply Sorted_StronglySorted in H; auto. induction H; constructor; auto.
  eapply Forall_impl; [|exact H0]. intros b Hb. unfold is_true in Hb. lia.
Qed.

Theorem compute_centre_gap vals : vals <> [] -> Forall (fun x => 0 <= x < 2 * N) vals -> Forall (fun x => x mod 2 = 0) vals ->
  exists g, 0 <= g <= 2 * N /\ In g (gaps N (ZSort.sort vals)) /\ Forall (fun w => w <= g) (gaps N (ZSort.sort vals)) /\
    forall x, In x vals -> g / 2 <= shift (compute_centre N vals) x <= 2 * N - g / 2.
Proof.
  intros Hne HR HE. pose proof (ZSort.Permuted_sort vals) as HP.
  assert (Hne' : ZSort.sort vals <> []).
  { intros E. rewrite E in HP. apply Permutation_sym, Permutation_nil in HP. contradiction. }
  assert (HS : StronglySorted Z.le (ZSort.sort vals)) by (apply Sorted_StronglySorted_le, ZSort.Sorted_sort).
  destruct (centre_sorted_gap (ZSort.sort vals) Hne' HS) as (g & H1 & H2 & H3 & H4).
  - eapply Permutation_Forall; eauto.
  - eapply Permutation_Forall; eauto.
  - exists g. repeat split; auto; try lia; apply H4; eapply Permutation_in; eauto.
Qed.
End Grid.
