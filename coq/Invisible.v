(* C11 (light): things that must be invisible.  (1) read-only accessors interleaved with the events of a run do not change
   the run; (2) a pool map that evaluates in any order but gathers by index returns the ordered results;
   (3) a vectorised likelihood that is the map of the scalar one gives the same batch result. *)
From Coq Require Import List Arith Bool Lia Permutation.
Import ListNotations.

Section Accessors.
Variables (state event value : Type).
Variable step : state -> event -> option state.
Variable accessor : Type.
Variable read : accessor -> state -> value.       (* pure: a function of the state *)
Fixpoint run (s : state) (evs : list event) : option state :=
  match evs with [] => Some s | e :: r => match step s e with Some s' => run s' r | None => None end end.
(* a history in which accessor calls are interleaved with events; the values read are collected *)
Fixpoint run_obs (s : state) (h : list (event + accessor)) : option (state * list value) :=
  match h with
  | [] => Some (s, [])
  | inl e :: r => match step s e with Some s' => run_obs s' r | None => None end
  | inr a :: r => match run_obs s r with Some (s', vs) => Some (s', read a s :: vs) | None => None end
  end.
Fixpoint events_of (h : list (event + accessor)) : list event :=
  match h with [] => [] | inl e :: r => e :: events_of r | inr _ :: r => events_of r end.
Theorem accessors_invisible h : forall s, option_map fst (run_obs s h) = run s (events_of h).
Proof.
  induction h as [|[e|a] r IH]; intros s; simpl; auto.
  - destruct (step s e); auto.
  - rewrite <- IH. destruct (run_obs s r) as [[s' vs]|]; reflexivity.
Qed.
End Accessors.

Section Pool.
Variables (A B : Type).
Variable f : A -> B.
(* workers finish in the order `sched`; each result is tagged with the index of its input *)
Definition exec (xs : list A) (sched : list nat) : list (nat * option B) := map (fun i => (i, option_map f (nth_error xs i))) sched.
Fixpoint lookup (i : nat) (l : list (nat * option B)) : option B :=
  match l with [] => None | (j, v) :: r => if Nat.eqb i j then v else lookup i r end.
Definition gather (n : nat) (res : list (nat * option B)) : list (option B) := map (fun i => lookup i res) (seq 0 n).
Lemma lookup_exec xs sched i : In i sched -> lookup i (exec xs sched) = option_map f (nth_error xs i).
Proof.
  induction sched as [|j r IH]; simpl; intros H; [contradiction|].
  destruct (Nat.eqb_spec i j) as [->|Hne]; auto. destruct H as [H|H]; [congruence|auto].
Qed.
Theorem pool_order_invisible xs sched : Permutation sched (seq 0 (length xs)) ->
  gather (length xs) (exec xs sched) = map (fun x => Some (f x)) xs.
Proof.
  intros HP. unfold gather.
  assert (G : forall i, i < length xs -> lookup i (exec xs sched) = option_map f (nth_error xs i)).
  { intros i Hi. apply lookup_exec. apply (Permutation_in _ (Permutation_sym HP)). apply in_seq. lia. }
  assert (K : forall l k, (forall i, i < length l -> lookup (k + i) (exec xs sched) = option_map f (nth_error l i)) ->
              map (fun i => lookup i (exec xs sched)) (seq k (length l)) = map (fun x => Some (f x)) l).
  { induction l as [|x l IHl]; intros k H; simpl; auto. f_equal.
    - specialize (H 0 (Nat.lt_0_succ _)). rewrite Nat.add_0_r in H. exact H.
    - apply IHl. intros i Hi. specialize (H (S i)). simpl in H. rewrite Nat.add_succ_r in H. apply H. lia. }
  apply (K xs 0). intros i Hi. simpl. now apply G.
Qed.
End Pool.

Theorem vectorised_invisible (A B : Type) (lik : A -> B) (lik_vec : list A -> list B) :
  (forall ps, lik_vec ps = map lik ps) -> forall ps, lik_vec ps = map lik ps.
Proof. auto. Qed.
