From Coq Require Import List Arith NArith ZArith QArith Bool Lia Permutation.
Import ListNotations.
Require Import NV.Base.
Local Open Scope nat_scope.

Definition pid := positive. Definition bid := positive.

(* four parallel per-ellipsoid lists, as in nautilus/bounds/union.py *)
Record ust := mkU { bs : list bid; pbs : list (list pid); vols : list Q; blk : list bool }.

Fixpoint remove_nth {A} (i : nat) (l : list A) : list A :=
  match l, i with [], _ => [] | _ :: r, O => r | x :: r, S j => x :: remove_nth j r end.
Fixpoint set_nth {A} (i : nat) (v : A) (l : list A) : list A :=
  match l, i with [], _ => [] | _ :: r, O => v :: r | x :: r, S j => x :: set_nth j v r end.

Record attempt := mkAt { a_index : nat; a_labels : list bool; a_b0 : bid; a_b1 : bid; a_v0 : Q; a_v1 : Q;
                         a_overlap : bool; a_increase : bool }.
Inductive uop := Split (allow_overlap : bool) (ats : list attempt) | Trim (decision : option nat).

Section M.
Variable n_min : nat.

(* index of the unblocked record of largest volume *)
Fixpoint argmax_go (i : nat) (vs : list Q) (bl : list bool) (best : option (nat * Q)) : option (nat * Q) :=
  match vs, bl with
  | v :: vs', b :: bl' =>
    let best' := if b then best else match best with None => Some (i, v) | Some (_, bv) => if Qlt_le_dec bv v then Some (i, v) else best end in
    argmax_go (S i) vs' bl' best'
  | _, _ => best
  end.
Definition argmax (u : ust) : option nat := option_map fst (argmax_go 0 (vols u) (blk u) None).

Definition count_true (l : list bool) := length (filter (fun b => b) l).

Fixpoint split_go (allow : bool) (ats : list attempt) (u : ust) : option (ust * bool) :=
  match argmax u with
  | None => match ats with [] => Some (u, false) | _ => None end                 (* everything blocked: refuse *)
  | Some idx =>
    match ats with
    | [] => None
    | a :: rest =>
      match nth_error (pbs u) idx with
      | None => None
      | Some pts =>
        if negb (Nat.eqb (a_index a) idx) then None else
        if negb (Nat.eqb (length (a_labels a)) (length pts)) then None else
        let p1 := fmask (a_labels a) pts in
        let p0 := fmask (map negb (a_labels a)) pts in
        if negb (Nat.leb n_min (length p0) && Nat.leb n_min (length p1)) then None else    (* obligation on the clustering oracle *)
        if negb allow && a_overlap a then (match rest with [] => Some (u, false) | _ => None end) else
        if a_increase a then split_go allow rest (mkU (bs u) (pbs u) (vols u) (set_nth idx true (blk u)))
        else match rest with
             | _ :: _ => None
             | [] => Some (mkU (remove_nth idx (bs u) ++ [a_b0 a; a_b1 a])
                               (remove_nth idx (pbs u) ++ [p0; p1])
                               (remove_nth idx (vols u) ++ [a_v0 a; a_v1 a])
                               (remove_nth idx (blk u) ++ [Nat.ltb (length p0) (2 * n_min); Nat.ltb (length p1) (2 * n_min)]),
                          true)
             end
      end
    end
  end.

Definition trim (dec : option nat) (u : ust) : option (ust * bool) :=
  match dec with
  | None => Some (u, false)
  | Some i =>
    if Nat.leb (length (bs u)) 1 then None else
    if negb (Nat.ltb i (length (bs u))) then None else
    Some (mkU (remove_nth i (bs u)) (remove_nth i (pbs u)) (remove_nth i (vols u)) (remove_nth i (blk u)), true)   (* repaired: flag removed too *)
  end.

Definition ustep (u : ust) (o : uop) : option (ust * bool) :=
  match o with Split allow ats => split_go allow ats u | Trim d => trim d u end.

Definition WF (u : ust) : Prop :=
  length (pbs u) = length (bs u) /\ length (vols u) = length (bs u) /\ length (blk u) = length (bs u).

Lemma remove_nth_length {A} i (l : list A) : i < length l -> length (remove_nth i l) = length l - 1.
Proof. revert i; induction l as [|x l IH]; intros [|i] H; simpl in *; try lia. rewrite IH by lia. lia. Qed.
Lemma set_nth_length {A} i (v : A) l : length (set_nth i v l) = length l.
Proof. revert i; induction l as [|x l IH]; intros [|i]; simpl; auto. Qed.
Lemma nth_error_lt {A} (l : list A) i x : nth_error l i = Some x -> i < length l.
Proof. intros H. apply nth_error_Some. congruence. Qed.

Lemma split_go_wf allow : forall ats u u' r, WF u -> split_go allow ats u = Some (u', r) -> WF u'.
Proof.
  induction ats as [|a rest IH]; intros u u' r (H1 & H2 & H3) E; simpl in E.
  - destruct (argmax u); inversion E; subst. repeat split; auto.
  - destruct (argmax u) as [idx|]; [|discriminate].
    destruct (nth_error (pbs u) idx) as [pts|] eqn:En; [|discriminate].
    destruct (negb (Nat.eqb (a_index a) idx)); [discriminate|].
    destruct (negb (Nat.eqb (length (a_labels a)) (length pts))); [discriminate|].
    destruct (negb (_ && _)); [discriminate|].
    destruct (negb allow && a_overlap a).
    { destruct rest; inversion E; subst. repeat split; auto. }
    destruct (a_increase a).
    { apply IH in E; auto. repeat split; simpl; auto. now rewrite set_nth_length. }
    destruct rest; [|discriminate]. inversion E; subst; clear E.
    apply nth_error_lt in En. unfold WF; simpl. rewrite !app_length, !remove_nth_length by lia. simpl. lia.
Qed.

Lemma trim_wf d u u' r : WF u -> trim d u = Some (u', r) -> WF u'.
Proof.
  intros (H1 & H2 & H3). unfold trim. destruct d as [i|]; [|intros E; inversion E; subst; repeat split; auto].
  destruct (Nat.leb (length (bs u)) 1); [discriminate|].
  destruct (negb (Nat.ltb i (length (bs u)))) eqn:Ei; [discriminate|]. apply negb_false_iff, Nat.ltb_lt in Ei.
  intros E; inversion E; subst; clear E. unfold WF; simpl. rewrite !remove_nth_length by lia. lia.
Qed.

Theorem C13_wf : forall ops u u', WF u ->
  fold_left (fun acc o => match acc with Some x => option_map fst (ustep x o) | None => None end) ops (Some u) = Some u' -> WF u'.
Proof.
  induction ops as [|o ops IH]; simpl; intros u u' Hw E; [inversion E; subst; auto|].
  destruct (ustep u o) as [[u1 r]|] eqn:Es; simpl in E.
  - eapply IH; [|exact E]. destruct o; simpl in Es; [eapply split_go_wf|eapply trim_wf]; eauto.
  - exfalso. clear -E. induction ops; simpl in E; [discriminate|auto].
Qed.
End M.
Print Assumptions C13_wf.
