(* C08, real analysis: the radius law of Ellipsoid.sample (basic.py 376-381).  A point is direction * u^(1/d) with u
   uniform on (0,1]: the event "radius <= t" is the event "u <= t^d", whose probability t^d is the volume of the ball of
   radius t relative to the unit ball (homogeneity of degree d of the volume).  Also: the radius never exceeds 1. *)
From Coq Require Import Reals Lra Lia.
Open Scope R_scope.

Lemma Rpower_inv_le u t (d : nat) : (1 <= d)%nat -> 0 < u -> 0 < t -> (Rpower u (/ INR d) <= t <-> u <= t ^ d).
Proof.
  intros Hd Hu Ht.
  assert (Hd0 : 0 < INR d) by (apply lt_0_INR; lia).
  rewrite <- (Rpower_pow d t Ht).
  split; intros H.
  - (* u = (u^(1/d))^d <= t^d *)
    replace u with (Rpower (Rpower u (/ INR d)) (INR d)).
    + apply Rle_Rpower_l; [lra|]. split; [apply exp_pos|exact H].
    + rewrite Rpower_mult. replace (/ INR d * INR d) with 1 by (field; lra). now apply Rpower_1.
  - replace t with (Rpower (Rpower t (INR d)) (/ INR d)).
    + apply Rle_Rpower_l; [apply Rlt_le, Rinv_0_lt_compat; exact Hd0|]. split; [exact Hu|exact H].
    + rewrite Rpower_mult. replace (INR d * / INR d) with 1 by (field; lra). now apply Rpower_1.
Qed.

Theorem radial_law u t (d : nat) : (1 <= d)%nat -> 0 < u <= 1 -> 0 <= t ->
  (Rpower u (/ INR d) <= t <-> u <= t ^ d).
Proof.
  intros Hd [Hu Hu1] Ht. destruct (Rle_lt_or_eq_dec 0 t Ht) as [Hpos|<-].
  - now apply Rpower_inv_le.
  - rewrite pow_i by lia. split; intros H; [|lra]. pose proof (exp_pos (/ INR d * ln u)). unfold Rpower in H. lra.
Qed.

Theorem radius_in_ball u (d : nat) : (1 <= d)%nat -> 0 < u <= 1 -> 0 < Rpower u (/ INR d) <= 1.
Proof.
  intros Hd [Hu Hu1]. split; [apply exp_pos|].
  apply (proj2 (radial_law u 1 d Hd (conj Hu Hu1) Rle_0_1)). rewrite pow1. exact Hu1.
Qed.
