(* The list of bounds of the sampler in the checkpoint (sampler.py, resume branch of __init__): group bound_i holds a unit
   cube or a nautilus bound.  The repaired reader chooses the class by the stored `type` attribute; the reader as found read
   bound_0 as a unit cube and every other group as a nautilus bound -- wrong once the first shell (the unit cube) has been
   removed as empty at the end of exploration: a nautilus group read by UnitCube.read silently yields the whole cube. *)
From Coq Require Import List Arith PArith Bool Lia.
Import ListNotations.
Require Import NV.Codec NV.Codec2 NV.Codec2Proofs.

Inductive sbound := SCube (c : cube) | SNaut (b : nautilus).
Definition w_sbound (s : sbound) : h5 := match s with SCube c => w_cube c | SNaut b => w_naut b end.

Section Read.
Variables (any_cube all_cube : tok -> bool) (alen : tok -> nat) (tnat : tok -> nat) (nlayers : list (positive * tok) -> nat).
Notation r_naut := (r_naut any_cube all_cube alen tnat nlayers).
Definition r_sbound (g : h5) : option sbound :=
  match attr (Nm T_type) g with
  | Some t => if Pos.eqb t V_Cube then option_map SCube (r_cube g) else option_map SNaut (r_naut g)
  | None => None
  end.
(* as found: position decides *)
Definition r_sbound_asis (i : nat) (g : h5) : option sbound :=
  match i with O => option_map SCube (r_cube g) | S _ => option_map SNaut (r_naut g) end.
Fixpoint r_bounds (gs : list h5) : option (list sbound) :=
  match gs with [] => Some [] | g :: r => match r_sbound g, r_bounds r with Some b, Some l => Some (b :: l) | _, _ => None end end.

Definition persisted_sbound (s : sbound) : sbound := match s with SCube c => SCube c | SNaut b => SNaut (persisted_naut b) end.
Definition wf_sbound (s : sbound) : Prop := match s with SCube _ => True | SNaut b => wf_naut any_cube all_cube alen tnat nlayers b end.

Theorem r_w_sbound s : wf_sbound s -> r_sbound (w_sbound s) = Some (persisted_sbound s).
Proof.
  destruct s as [c|b]; intros W; unfold r_sbound.
  - cbn [w_sbound]. change (attr (Nm T_type) (w_cube c)) with (Some V_Cube). change (Pos.eqb V_Cube V_Cube) with true. cbv iota. now rewrite r_w_cube.
  - cbn [w_sbound]. change (attr (Nm T_type) (w_naut b)) with (Some V_Naut). change (Pos.eqb V_Naut V_Cube) with false. cbv iota.
    now rewrite (r_w_naut any_cube all_cube alen tnat nlayers b W).
Qed.
(* any list of bounds, in any order (in particular with a nautilus bound first), is read back entry by entry *)
Theorem r_w_bounds : forall l, Forall wf_sbound l -> r_bounds (map w_sbound l) = Some (map persisted_sbound l).
Proof.
  induction l as [|s l IH]; intros H; cbn [map r_bounds]; [reflexivity|]. inversion H; subst.
  rewrite r_w_sbound by assumption. now rewrite IH.
Qed.
(* the reader as found turns a nautilus bound in first position into a unit cube *)
Theorem r_sbound_asis_refuted : forall b, exists c, r_sbound_asis 0 (w_sbound (SNaut b)) = Some (SCube c).
Proof. intros b. exists (mkCube (na_ndim b)). reflexivity. Qed.
End Read.
