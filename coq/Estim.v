From Coq Require Import QArith List Lia Lra Lqa Field.
Import ListNotations.
Open Scope Q_scope.

Definition qsum (l : list Q) : Q := fold_right Qplus 0 l.
Definition sq (x : Q) := x * x.

(* one shell in a given view: bound volume bv, proposals ns, likelihoods L (linear domain) *)
Record shell := mk { bv : Q; ns : Q; L : list Q }.
Definition n (s : shell) : Q := inject_Z (Z.of_nat (length (L s))).
Definition vol (s : shell) : Q := bv s * n s / ns s.                       (* exp(shell_log_v) *)
Definition meanL (s : shell) : Q := qsum (L s) / n s.                      (* exp(shell_log_l) *)
Definition neff_sh (s : shell) : Q := sq (qsum (L s)) / qsum (map sq (L s)). (* shell_n_eff *)
Definition zsh (s : shell) : Q := vol s * meanL s.
Definition wts (s : shell) : list Q := map (fun l => l * (vol s / n s)) (L s).   (* per-sample unnormalised weights *)

Lemma qsum_app a b : qsum (a ++ b) == qsum a + qsum b.
Proof. induction a; simpl; [ring|rewrite IHa; ring]. Qed.
Lemma qsum_scale c l : qsum (map (fun x => x * c) l) == qsum l * c.
Proof. induction l; simpl; [ring|rewrite IHl; ring]. Qed.
Lemma qsum_sq_scale c l : qsum (map sq (map (fun x => x * c) l)) == qsum (map sq l) * sq c.
Proof. induction l; simpl; [ring|rewrite IHl; unfold sq; ring]. Qed.

(* evidence: per-shell volume x mean likelihood = sum of per-sample weights *)
Lemma zsh_samples s : ~ n s == 0 -> zsh s == qsum (wts s).
Proof. intros Hn. unfold zsh, wts, meanL. rewrite qsum_scale. field. exact Hn. Qed.

(* Kish: Z_i^2 / neff_i = sum of squared per-sample weights *)
Lemma kish_shell s : ~ n s == 0 -> ~ qsum (L s) == 0 -> ~ qsum (map sq (L s)) == 0 ->
  sq (zsh s) / neff_sh s == qsum (map sq (wts s)).
Proof.
  intros Hn H1 H2. unfold zsh, neff_sh, wts, meanL. rewrite qsum_sq_scale. unfold sq. field. repeat split; auto.
Qed.

(* all shells together *)
Definition Zall (ss : list shell) : Q := qsum (map zsh ss).
Definition Wall (ss : list shell) : list Q := flat_map wts ss.
Definition good (s : shell) : Prop := ~ n s == 0 /\ ~ qsum (L s) == 0 /\ ~ qsum (map sq (L s)) == 0.

Lemma Zall_samples ss : Forall (fun s => ~ n s == 0) ss -> Zall ss == qsum (Wall ss).
Proof.
  induction 1 as [|s ss Hs _ IH]; simpl; [reflexivity|].
  unfold Zall in *. simpl. rewrite qsum_app, IH, zsh_samples by auto. reflexivity.
Qed.

Theorem C02_kish ss : Forall good ss ->
  qsum (map (fun s => sq (zsh s) / neff_sh s) ss) == qsum (map sq (Wall ss)).
Proof.
  induction 1 as [|s ss (Hn & H1 & H2) _ IH]; simpl; [reflexivity|].
  rewrite map_app, qsum_app, IH, kish_shell by auto. reflexivity.
Qed.

(* hence the code's  n_eff = (sum Z_i)^2 / sum (Z_i^2 / neff_i)  is  (sum w)^2 / sum w^2 *)
Theorem C02_neff ss : Forall good ss ->
  sq (Zall ss) / qsum (map (fun s => sq (zsh s) / neff_sh s) ss) == sq (qsum (Wall ss)) / qsum (map sq (Wall ss)).
Proof.
  intros H. rewrite C02_kish by auto.
  assert (Hn : Forall (fun s => ~ n s == 0) ss) by (eapply Forall_impl; [|exact H]; intros s (Hn & _); exact Hn).
  unfold sq at 1 3. rewrite (Zall_samples ss Hn). reflexivity.
Qed.

(* normalised weights sum to one *)
Theorem C02_norm ss : Forall (fun s => ~ n s == 0) ss -> ~ Zall ss == 0 ->
  qsum (map (fun w => w / Zall ss) (Wall ss)) == 1.
Proof.
  intros H Hz. 
  assert (E : forall l c, ~ c == 0 -> qsum (map (fun w => w / c) l) == qsum l / c).
  { intros l c Hc. induction l; simpl; [field; auto|rewrite IHl; field; auto]. }
  rewrite E by auto. rewrite <- Zall_samples by auto. field. auto.
Qed.

(* the shell volume never exceeds the bound volume: the kept fraction is at most one *)
Theorem vol_le_bound s : 0 <= bv s -> 0 < ns s -> n s <= ns s -> vol s <= bv s.
Proof.
  intros Hb Hns Hn. unfold vol. apply Qle_shift_div_r; auto.
  rewrite (Qmult_comm (bv s) (n s)), (Qmult_comm (bv s) (ns s)). now apply Qmult_le_compat_r.
Qed.
