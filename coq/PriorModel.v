(* Model of nautilus/prior.py (class Prior) -- definitions only, no proofs.
   Mirrors: add_parameter (prior.py 27-76), dimensionality (78-88), unit_to_physical (90-122),
   physical_to_dictionary (124-161), unit_to_dictionary (163-181).

   Python objects are abstracted as follows (the harness canonicalises, see harness/c15.py):
     key  : None | a string ("x_<n>" is Auto n, any other string Named p) | anything else (KBad)
     dist : tuple (lo,hi) | object with .isf (FDist id) | number | string (link) | anything else (RBad)
   The inverse survival function of a free parameter is an oracle `isf` (Section variable). *)
From Coq Require Import List Arith NArith ZArith QArith Bool.
Import ListNotations.

Inductive kid := Auto (n : nat) | Named (p : positive).
Definition kid_eqb (a b : kid) : bool :=
  match a, b with Auto n, Auto m => Nat.eqb n m | Named p, Named q => Pos.eqb p q | _, _ => false end.

Inductive rawkey := KNone | KStr (k : kid) | KBad.
Inductive free := FUniform (lo hi : Q) | FDist (d : positive).
Inductive rawdist := RFree (f : free) | RFixed (v : Q) | RLink (k : kid) | RBad.
Inductive dist := DFree (f : free) | DFixed (v : Q) | DLink (k : kid).
Record prior := mkP { keys : list kid; dists : list dist }.
Inductive err := TypeErr | ValueErr | IndexErr.   (* IndexErr only arises in the as-is model (PriorAsIs.v) *)
(* The Python object is mutable: an exception leaves *some* prior behind.  Both outcomes carry the state after. *)
Inductive res := Ok (p : prior) | Err (p : prior) (e : err).
Definition state_of (r : res) : prior := match r with Ok p => p | Err p _ => p end.

Definition memk (k : kid) (l : list kid) : bool := existsb (kid_eqb k) l.
Fixpoint lookup (k : kid) (ks : list kid) (ds : list dist) : option dist :=
  match ks, ds with
  | k' :: ks', d :: ds' => if kid_eqb k k' then Some d else lookup k ks' ds'
  | _, _ => None
  end.

(* add_parameter as it is in the repaired tree: validate key, validate dist, then append both *)
Definition add_parameter (p : prior) (rk : rawkey) (rd : rawdist) : res :=
  match (match rk with KNone => inl (Auto (length (keys p))) | KStr k => inl k | KBad => inr TypeErr end) with
  | inr e => Err p e
  | inl k =>
    if memk k (keys p) then Err p ValueErr else
    match rd with
    | RBad => Err p TypeErr
    | RFree f => Ok (mkP (keys p ++ [k]) (dists p ++ [DFree f]))
    | RFixed v => Ok (mkP (keys p ++ [k]) (dists p ++ [DFixed v]))
    | RLink t =>
      match lookup t (keys p) (dists p) with
      | None => Err p ValueErr                     (* undeclared target; the key itself is not yet declared, so a self link lands here *)
      | Some (DLink t') => Ok (mkP (keys p ++ [k]) (dists p ++ [DLink t']))   (* chains are resolved at declaration *)
      | Some _ => Ok (mkP (keys p ++ [k]) (dists p ++ [DLink t]))
      end
    end
  end.

Definition empty : prior := mkP [] [].
Definition decl := (rawkey * rawdist)%type.
Definition declare (p : prior) (d : decl) : prior := state_of (add_parameter p (fst d) (snd d)).
Definition run_decls (ds : list decl) : prior := fold_left declare ds empty.

Definition is_free (d : dist) : bool := match d with DFree _ => true | _ => false end.
Definition dimensionality (p : prior) : nat := length (filter is_free (dists p)).
Fixpoint frees (ds : list dist) : list free :=
  match ds with [] => [] | DFree f :: r => f :: frees r | _ :: r => frees r end.

Section Sem.
Variable isf : free -> Q -> Q.      (* inverse survival function, oracle *)

(* unit_to_physical on one point; None is the ValueError for a dimensionality mismatch *)
Fixpoint u2p_go (ds : list dist) (u : list Q) : list Q :=
  match ds with
  | [] => []
  | DFree f :: ds' => match u with x :: u' => isf f (1 - x) :: u2p_go ds' u' | [] => [] end
  | _ :: ds' => u2p_go ds' u
  end.
Definition unit_to_physical (p : prior) (u : list Q) : option (list Q) :=
  if Nat.eqb (dimensionality p) (length u) then Some (u2p_go (dists p) u) else None.
(* an (n,d) array is transformed row by row *)
Fixpoint mapM {A B} (f : A -> option B) (l : list A) : option (list B) :=
  match l with [] => Some [] | x :: r =>
    match f x, mapM f r with Some y, Some ys => Some (y :: ys) | _, _ => None end end.
Definition unit_to_physical_rows (p : prior) (us : list (list Q)) : option (list (list Q)) :=
  mapM (unit_to_physical p) us.

(* physical_to_dictionary: first pass free/fixed, second pass links; None in pass 2 is a KeyError *)
Fixpoint pass1 (ks : list kid) (ds : list dist) (ph : list Q) : list (kid * Q) :=
  match ks, ds with
  | k :: ks', DFree _ :: ds' => match ph with x :: ph' => (k, x) :: pass1 ks' ds' ph' | [] => [] end
  | k :: ks', DFixed v :: ds' => (k, v) :: pass1 ks' ds' ph
  | _ :: ks', DLink _ :: ds' => pass1 ks' ds' ph
  | _, _ => []
  end.
Fixpoint dget (k : kid) (d : list (kid * Q)) : option Q :=
  match d with [] => None | (k', v) :: d' => if kid_eqb k k' then Some v else dget k d' end.
Fixpoint pass2 (ks : list kid) (ds : list dist) (d1 : list (kid * Q)) : option (list (kid * Q)) :=
  match ks, ds with
  | k :: ks', DLink t :: ds' =>
      match dget t d1, pass2 ks' ds' d1 with Some v, Some r => Some ((k, v) :: r) | _, _ => None end
  | _ :: ks', _ :: ds' => pass2 ks' ds' d1
  | _, _ => Some []
  end.
(* `np.ones(phys_points[..., 0].shape) * dist` indexes coordinate 0: with no free parameter at all a fixed
   parameter makes the implementation raise IndexError.  The model returns the error too (None); the property
   theorem C15_dict is stated for priors with at least one free parameter (the sampler needs two). *)
Definition is_fixed (d : dist) : bool := match d with DFixed _ => true | _ => false end.
Definition physical_to_dictionary (p : prior) (ph : list Q) : option (list (kid * Q)) :=
  if Nat.eqb (dimensionality p) (length ph) then
    if Nat.eqb (dimensionality p) 0 && existsb is_fixed (dists p) then None else
    let d1 := pass1 (keys p) (dists p) ph in
    match pass2 (keys p) (dists p) d1 with Some d2 => Some (d1 ++ d2) | None => None end
  else None.
Definition unit_to_dictionary (p : prior) (u : list Q) : option (list (kid * Q)) :=
  match unit_to_physical p u with Some ph => physical_to_dictionary p ph | None => None end.
End Sem.
