From Coq Require Import List Arith NArith ZArith QArith Bool Lia.
Import ListNotations.

(* keys: Auto n is the string "x_<n>", Named p any other string (harness canonicalises) *)
Inductive kid := Auto (n : nat) | Named (p : positive).
Definition kid_eqb (a b : kid) : bool :=
  match a, b with Auto n, Auto m => Nat.eqb n m | Named p, Named q => Pos.eqb p q | _, _ => false end.
Lemma kid_eqb_eq a b : kid_eqb a b = true <-> a = b.
Proof.
  destruct a, b; simpl; split; intros H; try discriminate; try (inversion H; subst).
  - apply Nat.eqb_eq in H. now subst.
  - apply Nat.eqb_refl.
  - apply Pos.eqb_eq in H. now subst.
  - apply Pos.eqb_refl.
Qed.

Inductive rawkey := KNone | KStr (k : kid) | KBad.
Inductive free := FUniform (lo hi : Q) | FDist (d : positive).
Inductive rawdist := RFree (f : free) | RFixed (v : Q) | RLink (k : kid) | RBad.
Inductive dist := DFree (f : free) | DFixed (v : Q) | DLink (k : kid).
Record prior := mkP { keys : list kid; dists : list dist }.
Inductive err := TypeErr | ValueErr | IndexErr.   (* IndexErr only arises in the as-is model *)
Inductive res := Ok (p : prior) | Err (e : err).

Definition memk (k : kid) (l : list kid) : bool := existsb (kid_eqb k) l.
Fixpoint lookup (k : kid) (ks : list kid) (ds : list dist) : option dist :=
  match ks, ds with
  | k' :: ks', d :: ds' => if kid_eqb k k' then Some d else lookup k ks' ds'
  | _, _ => None
  end.

(* the repaired add_parameter: validate everything, then append *)
Definition add_parameter (p : prior) (rk : rawkey) (rd : rawdist) : res :=
  match (match rk with KNone => inl (Auto (length (keys p))) | KStr k => inl k | KBad => inr TypeErr end) with
  | inr e => Err e
  | inl k =>
    if memk k (keys p) then Err ValueErr else
    match rd with
    | RBad => Err TypeErr
    | RFree f => Ok (mkP (keys p ++ [k]) (dists p ++ [DFree f]))
    | RFixed v => Ok (mkP (keys p ++ [k]) (dists p ++ [DFixed v]))
    | RLink t =>
      match lookup t (keys p) (dists p) with
      | None => Err ValueErr                       (* undeclared target (this includes a link to itself) *)
      | Some (DLink t') => Ok (mkP (keys p ++ [k]) (dists p ++ [DLink t']))   (* chains resolved at declaration *)
      | Some _ => Ok (mkP (keys p ++ [k]) (dists p ++ [DLink t]))
      end
    end
  end.

Definition is_free (d : dist) : bool := match d with DFree _ => true | _ => false end.
Definition dimensionality (p : prior) : nat := length (filter is_free (dists p)).

Section Sem.
Variable isf : free -> Q -> Q.      (* inverse survival function, oracle *)

(* unit_to_physical on one point *)
Fixpoint u2p (ds : list dist) (u : list Q) : list Q :=
  match ds with
  | [] => []
  | DFree f :: ds' => match u with x :: u' => isf f (1 - x) :: u2p ds' u' | [] => [] end
  | _ :: ds' => u2p ds' u
  end.

(* physical_to_dictionary: first pass free/fixed, second pass links *)
Fixpoint pass1 (ks : list kid) (ds : list dist) (ph : list Q) : list (kid * Q) :=
  match ks, ds with
  | k :: ks', DFree _ :: ds' => match ph with x :: ph' => (k, x) :: pass1 ks' ds' ph' | [] => [] end
  | k :: ks', DFixed v :: ds' => (k, v) :: pass1 ks' ds' ph
  | _ :: ks', DLink _ :: ds' => pass1 ks' ds' ph
  | _, _ => []
  end.
Fixpoint dget (k : kid) (d : list (kid * Q)) : option Q :=
  match d with [] => None | (k', v) :: d' => if kid_eqb k k' then Some v else dget k d' end.
Fixpoint pass2 (ks : list kid) (ds : list dist) (d1 : list (kid * Q)) : option (list (kid * Q)) :=
  match ks, ds with
  | k :: ks', DLink t :: ds' =>
      match dget t d1, pass2 ks' ds' d1 with Some v, Some r => Some ((k, v) :: r) | _, _ => None end
  | _ :: ks', _ :: ds' => pass2 ks' ds' d1
  | _, _ => Some []
  end.
End Sem.

(* ---- invariants ---- *)
Definition nonlink_target (p : prior) (d : dist) : Prop :=
  match d with DLink t => exists d', lookup t (keys p) (dists p) = Some d' /\ (forall t', d' <> DLink t') | _ => True end.
Definition WF (p : prior) : Prop :=
  length (keys p) = length (dists p) /\ NoDup (keys p) /\ Forall (nonlink_target p) (dists p).

Definition empty : prior := mkP [] [].
Lemma WF_empty : WF empty.
Proof. repeat split; simpl; constructor. Qed.

Lemma memk_In k l : memk k l = true <-> In k l.
Proof.
  unfold memk. rewrite existsb_exists. split.
  - intros (x & Hx & He). apply kid_eqb_eq in He. now subst.
  - intros H. exists k. split; auto. now apply kid_eqb_eq.
Qed.

Lemma lookup_app_old t ks ds k d dd : length ks = length ds ->
  lookup t ks ds = Some dd -> lookup t (ks ++ [k]) (ds ++ [d]) = Some dd.
Proof.
  revert ds. induction ks as [|k0 ks IH]; intros [|d0 ds] HL H; simpl in *; try discriminate.
  destruct (kid_eqb t k0); auto.
Qed.

Theorem C15_reject p rk rd e : add_parameter p rk rd = Err e -> True.   (* the prior is a value: rejection returns no new prior at all *)
Proof. trivial. Qed.

Theorem C15_inv p rk rd p' : WF p -> add_parameter p rk rd = Ok p' -> WF p'.
Proof.
  intros (HL & HN & HT). unfold add_parameter.
  destruct (match rk with KNone => inl (Auto (length (keys p))) | KStr k => inl k | KBad => inr TypeErr end) as [k|e]; [|discriminate].
  destruct (memk k (keys p)) eqn:Hm; [discriminate|].
  assert (Hnk : ~ In k (keys p)) by (intros Hin; apply memk_In in Hin; congruence).
  assert (HN' : NoDup (keys p ++ [k])).
  { apply NoDup_app_iff' || idtac. 
    rewrite <- (rev_involutive (keys p ++ [k])). apply NoDup_rev. rewrite rev_app_distr. simpl.
    constructor; [rewrite <- in_rev; auto|apply NoDup_rev; auto]. }
  assert (Hold : forall d0, nonlink_target p d0 -> forall dn, nonlink_target (mkP (keys p ++ [k]) (dists p ++ [dn])) d0).
  { intros [f|v|t] H dn; simpl in *; auto. destruct H as (d' & Hl & Hn). exists d'. split; auto. now apply lookup_app_old. }
  destruct rd as [f|v|t|]; try discriminate.
  - intros E; inversion E; subst; clear E. repeat split; simpl; auto.
    + rewrite !app_length; simpl; lia.
    + apply Forall_app; split; [|repeat constructor]. eapply Forall_impl; [|exact HT]. intros a Ha. now apply Hold.
  - intros E; inversion E; subst; clear E. repeat split; simpl; auto.
    + rewrite !app_length; simpl; lia.
    + apply Forall_app; split; [|repeat constructor]. eapply Forall_impl; [|exact HT]. intros a Ha. now apply Hold.
  - destruct (lookup t (keys p) (dists p)) as [dt|] eqn:Hl; [|discriminate].
    assert (Hin : forall ks ds tt dd, lookup tt ks ds = Some dd -> In dd ds).
    { induction ks as [|k0 ks IH]; intros [|d0 ds] tt dd H; simpl in *; try discriminate.
      destruct (kid_eqb tt k0); [inversion H; auto|right; eapply IH; eauto]. }
    destruct dt as [f|v|t'].
    + intros E; inversion E; subst; clear E. repeat split; simpl; auto.
      * rewrite !app_length; simpl; lia.
      * apply Forall_app; split.
        -- eapply Forall_impl; [|exact HT]. intros a Ha. now apply Hold.
        -- constructor; [|constructor]. simpl. exists (DFree f). split; [now apply lookup_app_old|discriminate].
    + intros E; inversion E; subst; clear E. repeat split; simpl; auto.
      * rewrite !app_length; simpl; lia.
      * apply Forall_app; split.
        -- eapply Forall_impl; [|exact HT]. intros a Ha. now apply Hold.
        -- constructor; [|constructor]. simpl. exists (DFixed v). split; [now apply lookup_app_old|discriminate].
    + intros E; inversion E; subst; clear E.
      pose proof (Hin _ _ _ _ Hl) as Hd. pose proof HT as HT0. rewrite Forall_forall in HT. specialize (HT _ Hd). simpl in HT.
      destruct HT as (d' & Hl' & Hn'). repeat split; simpl; auto.
      * rewrite !app_length; simpl; lia.
      * apply Forall_app; split.
        -- eapply Forall_impl; [|exact HT0]. intros a Ha. now apply Hold.
        -- constructor; [|constructor]. simpl. exists d'. split; [now apply lookup_app_old|auto].
Qed.
Print Assumptions C15_inv.
