From Coq Require Import List Arith Lia Relations Morphisms.
Import ListNotations.

Section Resume.
Variables (state file result : Type).
Variable step : state -> state.                 (* one batch (deterministic given the state, which includes the generator) *)
Variable save : state -> file.                  (* what the checkpoint protocol leaves on disk at a batch boundary *)
Variable load : file -> state.                  (* Sampler(..., resume=True) *)
Variable equiv : state -> state -> Prop.        (* agreement on every field a later batch or accessor reads *)
Variable obs : state -> result.                 (* posterior, log_z, n_eff, n_like *)

Hypothesis equiv_refl : forall s, equiv s s.
Hypothesis equiv_trans : forall a b c, equiv a b -> equiv b c -> equiv a c.
Hypothesis step_respects : forall a b, equiv a b -> equiv (step a) (step b).
Hypothesis obs_respects : forall a b, equiv a b -> obs a = obs b.

Fixpoint iter (n : nat) (s : state) : state := match n with O => s | S k => iter k (step s) end.

Variable s0 : state.
Definition reachable (s : state) : Prop := exists n, equiv s (iter n s0).
Hypothesis roundtrip : forall s, reachable s -> equiv (load (save s)) s.

Inductive cut := Slice (n : nat) | Reload.      (* run() limited to n more batches | new object from the file *)
Fixpoint run_history (h : list cut) (s : state) : state :=
  match h with
  | [] => s
  | Slice n :: r => run_history r (iter n s)
  | Reload :: r => run_history r (load (save s))
  end.
Fixpoint batches (h : list cut) : nat :=
  match h with [] => 0 | Slice n :: r => n + batches r | Reload :: r => batches r end.

Lemma iter_respects n : forall a b, equiv a b -> equiv (iter n a) (iter n b).
Proof. induction n; simpl; intros a b H; auto. Qed.
Lemma iter_add n m s : iter (n + m) s = iter m (iter n s).
Proof. revert s; induction n; simpl; intros s; auto. Qed.

Lemma history_equiv h : forall s k, equiv s (iter k s0) -> equiv (run_history h s) (iter (k + batches h) s0).
Proof.
  induction h as [|c h IH]; simpl; intros s k H.
  - now rewrite Nat.add_0_r.
  - destruct c as [n|].
    + rewrite Nat.add_assoc. apply IH. rewrite iter_add. now apply iter_respects.
    + apply IH. eapply equiv_trans; [|exact H]. apply roundtrip. now exists k.
Qed.

Theorem C05_any_history h : obs (run_history h s0) = obs (iter (batches h) s0).
Proof. apply obs_respects. apply (history_equiv h s0 0). apply equiv_refl. Qed.
End Resume.
