From Coq Require Import List Arith PArith Bool Lia.
Import ListNotations.
Require Import NV.Codec NV.Codec2 NV.Codec2Proofs NV.SamplerCodec.

(* replacing entry j of an indexed list *)
Fixpoint replace_nth {A} (j : nat) (v : A) (l : list A) : list A :=
  match l, j with [], _ => [] | _ :: r, O => v :: r | x :: r, S k => x :: replace_nth k v r end.

Lemma same_except_replace {A} j (a b : list A) v : same_except j a b -> nth_error b j = Some v -> replace_nth j v a = b.
Proof.
  revert j b; induction a as [|x a IH]; intros j [|y b] H Hn; try (simpl in H; contradiction).
  - destruct j; discriminate.
  - destruct j as [|j].
    + cbn [same_except] in H. cbn [nth_error] in Hn. injection Hn as Hy. rewrite Hy. cbn [replace_nth]. f_equal. exact H.
    + cbn [same_except] in H. destruct H as [Hx H]. subst y. cbn [replace_nth]. f_equal. apply IH; auto.
Qed.
Lemma same_except_length {A} j (a b : list A) : same_except j a b -> length a = length b.
Proof.
  revert j b; induction a as [|x a IH]; intros j [|y b] H; try (simpl in H; contradiction); auto.
  destruct j as [|j]; cbn [same_except] in H; cbn [length]; f_equal.
  - now rewrite H.
  - destruct H. eauto.
Qed.

Lemma set_assoc_indexed_hit (T : positive) tl : forall (l : list tok) k j v, j < length l ->
  set_assoc (NmI T (k + j)) v (indexed (fun i x => (NmI T i, x)) k l ++ tl) = indexed (fun i x => (NmI T i, x)) k (replace_nth j v l) ++ tl.
Proof.
  induction l as [|x l IH]; intros k j v H; simpl in *; [lia|].
  rewrite Pos.eqb_refl. destruct j as [|j]; simpl.
  - now rewrite Nat.add_0_r, Nat.eqb_refl.
  - replace (Nat.eqb (k + S j) k) with false by (symmetry; apply Nat.eqb_neq; lia). simpl.
    replace (k + S j) with (S k + j) by lia. rewrite IH by lia. reflexivity.
Qed.
Lemma set_assoc_skip_prefix {V} nm (v : V) (a b : list (name * V)) : (forall k' x, In (k', x) a -> name_eqb nm k' = false) ->
  set_assoc nm v (a ++ b) = a ++ set_assoc nm v b.
Proof.
  induction a as [|[k x] a IH]; simpl; intros H; auto. rewrite (H k x) by auto. f_equal. apply IH. intros; eapply H; eauto.
Qed.
Lemma indexed_names_other (T T' : positive) (l : list tok) k nm : (forall i, name_eqb nm (NmI T i) = false) ->
  forall k' x, In (k', x) (indexed (fun i v => (NmI T i, v)) k l) -> name_eqb nm k' = false.
Proof.
  intros H k' x Hin. apply in_indexed_name in Hin. destruct Hin as (i & ->). apply H.
Qed.

(* ---- attributes ---- *)
Lemma upd_attrs_spec s0 s1 : sf_static s0 = sf_static s1 -> sf_explored s0 = sf_explored s1 -> sf_nse s0 = sf_nse s1 -> sf_ee s0 = sf_ee s1 ->
  upd_attrs s1 (sampler_attrs s0) = sampler_attrs s1.
Proof.
  intros E1 E2 E3 E4. unfold upd_attrs, sampler_attrs. destruct (sf_rng s1) as [[[r1 r2] r3] r4] eqn:R1.
  destruct (sf_rng s0) as [[[q1 q2] q3] q4]. rewrite E1, E2, E3, E4. cbn [fold_left fst snd rng_attrs].
  set (P := indexed (fun i v => (NmI T_static i, v)) 0 (sf_static s1)).
  assert (S : forall nm v tl, (forall i, name_eqb nm (NmI T_static i) = false) -> set_assoc nm v (P ++ tl) = P ++ set_assoc nm v tl).
  { intros nm v tl H. apply set_assoc_skip_prefix. intros k' x Hin. eapply (indexed_names_other T_static T_static); eauto. }
  repeat (rewrite S by (intros; reflexivity)). f_equal.
Qed.

(* ---- datasets ---- *)
Lemma upd_dsets_spec shell s0 s1 : shell < length (sf_points s1) ->
  same_except shell (sf_points s0) (sf_points s1) -> same_except shell (sf_logl s0) (sf_logl s1) ->
  (match sf_blobs s0, sf_blobs s1 with Some a, Some b => same_except shell a b /\ length b = length (sf_points s1) | None, None => True | _, _ => False end) ->
  (match sf_blobst s0, sf_blobst s1 with Some _, Some _ | None, None => True | _, _ => False end) ->
  length (sf_logl s1) = length (sf_points s1) ->
  upd_dsets s1 shell (sampler_dsets s0) = sampler_dsets s1.
Proof.
  intros Hlt HP HL HB HT HLL. unfold upd_dsets, sampler_dsets.
  destruct (nth_error (sf_points s1) shell) as [vp|] eqn:EP; [|apply nth_error_None in EP; lia].
  destruct (nth_error (sf_logl s1) shell) as [vl|] eqn:EL; [|apply nth_error_None in EL; lia].
  pose proof (same_except_length _ _ _ HP) as LP. pose proof (same_except_length _ _ _ HL) as LL.
  cbn [opt_set].
  (* points *)
  rewrite (set_assoc_indexed_hit T_pts _ (sf_points s0) 0 shell vp) by lia. rewrite (same_except_replace _ _ _ _ HP EP).
  (* log_l: skip the points, hit the log_l list *)
  rewrite set_assoc_skip_prefix by (intros k' x Hin; apply in_indexed_name in Hin; destruct Hin as (i & ->); reflexivity).
  rewrite (set_assoc_indexed_hit T_logl _ (sf_logl s0) 0 shell vl) by lia. rewrite (same_except_replace _ _ _ _ HL EL).
  destruct (sf_blobs s0) as [b0|], (sf_blobs s1) as [b1|]; try contradiction.
  - destruct HB as [HB HBL]. destruct (nth_error b1 shell) as [vb|] eqn:EB; [|apply nth_error_None in EB; lia]. cbn [opt_set].
    pose proof (same_except_length _ _ _ HB) as LB.
    assert (K : set_assoc (NmI T_blobs shell) vb (indexed (fun i v => (NmI T_pts i, v)) 0 (sf_points s1) ++ indexed (fun i v => (NmI T_logl i, v)) 0 (sf_logl s1) ++
                 indexed (fun i v => (NmI T_blobs i, v)) 0 b0 ++ [(Nm T_ptst, sf_ptst s0); (Nm T_sht, sf_sht s0); (Nm T_loglt, sf_loglt s0)] ++
                 match sf_blobst s0 with Some b => [(Nm T_blobst, b)] | None => [] end) =
               indexed (fun i v => (NmI T_pts i, v)) 0 (sf_points s1) ++ indexed (fun i v => (NmI T_logl i, v)) 0 (sf_logl s1) ++
                 indexed (fun i v => (NmI T_blobs i, v)) 0 b1 ++ [(Nm T_ptst, sf_ptst s0); (Nm T_sht, sf_sht s0); (Nm T_loglt, sf_loglt s0)] ++
                 match sf_blobst s0 with Some b => [(Nm T_blobst, b)] | None => [] end).
    { rewrite set_assoc_skip_prefix by (intros k' x Hin; apply in_indexed_name in Hin; destruct Hin as (i & ->); reflexivity).
      rewrite set_assoc_skip_prefix by (intros k' x Hin; apply in_indexed_name in Hin; destruct Hin as (i & ->); reflexivity).
      rewrite (set_assoc_indexed_hit T_blobs _ b0 0 shell vb) by lia. now rewrite (same_except_replace _ _ _ _ HB EB). }
    rewrite K. clear K.
    destruct (sf_blobst s0) as [t0|], (sf_blobst s1) as [t1|]; try contradiction; cbn [opt_set];
      repeat (rewrite set_assoc_skip_prefix by (intros k' x Hin; apply in_indexed_name in Hin; destruct Hin as (i & ->); reflexivity));
      reflexivity.
  - destruct (sf_blobst s0) as [t0|], (sf_blobst s1) as [t1|]; try contradiction; cbn [opt_set];
      repeat (rewrite set_assoc_skip_prefix by (intros k' x Hin; apply in_indexed_name in Hin; destruct Hin as (i & ->); reflexivity));
      reflexivity.
Qed.

(* ---- the whole file: an incremental update after any number of batches on `shell` and discard toggles gives exactly
        the file a full write of the newer state would give ---- *)
Lemma upd_kid_indexed_hit (T : positive) tl : forall (l : list h5) k j gnew, j < length l ->
  upd_kid (NmI T (k + j)) (fun _ => gnew) (indexed (fun i g => (NmI T i, g)) k l ++ tl) = indexed (fun i g => (NmI T i, g)) k (replace_nth j gnew l) ++ tl.
Proof.
  induction l as [|x l IH]; intros k j gnew H; simpl in *; [lia|].
  rewrite Pos.eqb_refl. destruct j as [|j]; simpl.
  - now rewrite Nat.add_0_r, Nat.eqb_refl.
  - replace (Nat.eqb (k + S j) k) with false by (symmetry; apply Nat.eqb_neq; lia). simpl.
    replace (k + S j) with (S k + j) by lia. rewrite IH by lia. reflexivity.
Qed.
Lemma upd_kid_ext nm (f g : h5 -> h5) l : (forall x, f x = g x) -> upd_kid nm f l = upd_kid nm g l.
Proof. intros H. induction l as [|[k v] l IH]; simpl; auto. destruct (name_eqb nm k); [now rewrite H|now rewrite IH]. Qed.

Definition wf_file (s : sfile) : Prop :=
  length (sf_logl s) = length (sf_points s) /\ length (sf_bounds s) = length (sf_points s) /\
  match sf_blobs s with Some b => length b = length (sf_points s) | None => True end.

Theorem update_is_full_write shell s0 s1 : wf_file s1 -> shell < length (sf_points s1) -> batch_frame shell s0 s1 ->
  upd_file (write_file s0) s1 shell = write_file s1.
Proof.
  intros (W1 & W2 & W3) Hlt (F1 & F2 & F3 & F4 & F5 & F6 & F7 & F8 & F9).
  unfold upd_file, write_file. f_equal.
  cbn [upd_kid]. rewrite name_eqb_refl.
  rewrite (upd_attrs_spec s0 s1 F1 F2 F3 F4).
  rewrite (upd_dsets_spec shell s0 s1 Hlt F5 F6).
  - cbn [upd_kid]. change (name_eqb (NmI T_bnd shell) (Nm T_sampler)) with false. cbv iota. f_equal.
    destruct (nth_error (sf_bounds s1) shell) as [gnew|] eqn:EB; [|apply nth_error_None in EB; lia].
    pose proof (same_except_length _ _ _ F9) as LB.
    assert (Hs : shell < length (sf_bounds s0)) by lia.
    pose proof (upd_kid_indexed_hit T_bnd [] (sf_bounds s0) 0 shell gnew Hs) as K. rewrite !app_nil_r in K. simpl in K.
    rewrite K. now rewrite (same_except_replace _ _ _ _ F9 EB).
  - destruct (sf_blobs s0), (sf_blobs s1); auto.
  - exact F8.
  - exact W1.
Qed.

(* ---- resume reads back exactly what a full write stored ---- *)
Lemma r_indexed_spec {V} (T : positive) (L : list (name * V)) : forall (l0 : list V) k,
  (forall j x, nth_error l0 j = Some x -> assoc (NmI T (k + j)) L = Some x) -> r_indexed T L k (length l0) = Some l0.
Proof.
  induction l0 as [|x l IH]; intros k H; cbn [length r_indexed]; auto.
  pose proof (H 0 x eq_refl) as H0. rewrite Nat.add_0_r in H0. rewrite H0.
  rewrite IH; auto. intros j y Hj. replace (S k + j) with (k + S j) by lia. now apply H.
Qed.
Lemma r_blobs_some d : forall rest i pre, 0 < i ->
  (forall j x, nth_error rest j = Some x -> assoc (NmI T_blobs (i + j)) d = Some x) ->
  r_blobs d i (length rest) (Some pre) = Some (Some (pre ++ rest)).
Proof.
  induction rest as [|x rest IH]; intros i pre Hi H; cbn [length r_blobs]; [now rewrite app_nil_r|].
  pose proof (H 0 x eq_refl) as H0. rewrite Nat.add_0_r in H0. rewrite H0.
  destruct i as [|i']; [lia|]. rewrite IH; [now rewrite <- app_assoc|lia|].
  intros j y Hj. replace (S (S i') + j) with (S i' + S j) by lia. now apply H.
Qed.
Lemma r_blobs_none d : forall n i, (forall j, assoc (NmI T_blobs j) d = None) -> r_blobs d i n None = Some None.
Proof. induction n as [|n IH]; intros i H; cbn [r_blobs]; auto. rewrite H. now apply IH. Qed.

Lemma nm_skip_indexed {V} (T : positive) (t : positive) k (l : list V) : forall k' x, In (k', x) (indexed (fun i v => (NmI T i, v)) k l) -> name_eqb (Nm t) k' = false.
Proof. intros k' x Hin. apply in_indexed_name in Hin. destruct Hin as (i & ->). reflexivity. Qed.
Lemma nmi_skip_indexed {V} (T T' : positive) j k (l : list V) : Pos.eqb T' T = false -> forall k' x, In (k', x) (indexed (fun i v => (NmI T i, v)) k l) -> name_eqb (NmI T' j) k' = false.
Proof. intros Hne k' x Hin. apply in_indexed_name in Hin. destruct Hin as (i & ->). cbn [name_eqb]. now rewrite Hne. Qed.

Lemma attr_read s (t : positive) : assoc (Nm t) (sampler_attrs s) =
  assoc (Nm t) ([(Nm T_nlike, sf_nlike s); (Nm T_explored, sf_explored s); (Nm T_discard, sf_discard s); (Nm T_shn, sf_shn s); (Nm T_shns, sf_shns s);
   (Nm T_shneff, sf_shneff s); (Nm T_shlmin, sf_shlmin s); (Nm T_shll, sf_shll s); (Nm T_shlv, sf_shlv s); (Nm T_nse, sf_nse s);
   (Nm T_ee, sf_ee s); (Nm T_nui, sf_nui s); (Nm T_nli, sf_nli s)] ++ rng_attrs (sf_rng s)).
Proof. unfold sampler_attrs. apply assoc_app_skip. apply nm_skip_indexed. Qed.

(* the fixed datasets after the per-shell ones *)
Definition dsets_tail (s : sfile) : list (name * tok) :=
  [(Nm T_ptst, sf_ptst s); (Nm T_sht, sf_sht s); (Nm T_loglt, sf_loglt s)] ++ (match sf_blobst s with Some b => [(Nm T_blobst, b)] | None => [] end).
Lemma dset_read s (t : positive) : assoc (Nm t) (sampler_dsets s) = assoc (Nm t) (dsets_tail s).
Proof.
  unfold sampler_dsets, dsets_tail. rewrite assoc_app_skip by apply nm_skip_indexed. rewrite assoc_app_skip by apply nm_skip_indexed.
  destruct (sf_blobs s); [rewrite assoc_app_skip by apply nm_skip_indexed|]; reflexivity.
Qed.
Lemma dset_pts s j x : nth_error (sf_points s) j = Some x -> assoc (NmI T_pts (0 + j)) (sampler_dsets s) = Some x.
Proof. intros H. unfold sampler_dsets. exact (assoc_indexed T_pts (fun v : tok => v) _ _ 0 j x H). Qed.
Lemma dset_logl s j x : nth_error (sf_logl s) j = Some x -> assoc (NmI T_logl (0 + j)) (sampler_dsets s) = Some x.
Proof.
  intros H. unfold sampler_dsets. rewrite assoc_app_skip by (apply nmi_skip_indexed; reflexivity).
  exact (assoc_indexed T_logl (fun v : tok => v) _ _ 0 j x H).
Qed.
Lemma dset_blobs_some s bl j x : sf_blobs s = Some bl -> nth_error bl j = Some x -> assoc (NmI T_blobs (0 + j)) (sampler_dsets s) = Some x.
Proof.
  intros E H. unfold sampler_dsets. rewrite E. rewrite assoc_app_skip by (apply nmi_skip_indexed; reflexivity).
  rewrite assoc_app_skip by (apply nmi_skip_indexed; reflexivity).
  exact (assoc_indexed T_blobs (fun v : tok => v) _ _ 0 j x H).
Qed.
Lemma dset_blobs_none s j : sf_blobs s = None -> assoc (NmI T_blobs j) (sampler_dsets s) = None.
Proof.
  intros E. unfold sampler_dsets. rewrite E. rewrite assoc_app_skip by (apply nmi_skip_indexed; reflexivity).
  rewrite assoc_app_skip by (apply nmi_skip_indexed; reflexivity). cbn [app]. destruct (sf_blobst s); reflexivity.
Qed.

Ltac av := intros s; rewrite attr_read; destruct (sf_rng s) as [[[? ?] ?] ?]; reflexivity.
Lemma av_rng1 s : assoc (Nm T_rng1) (sampler_attrs s) = Some (fst (fst (fst (sf_rng s)))). Proof. revert s; av. Qed.
Lemma av_rng2 s : assoc (Nm T_rng2) (sampler_attrs s) = Some (snd (fst (fst (sf_rng s)))). Proof. revert s; av. Qed.
Lemma av_rng3 s : assoc (Nm T_rng3) (sampler_attrs s) = Some (snd (fst (sf_rng s))). Proof. revert s; av. Qed.
Lemma av_rng4 s : assoc (Nm T_rng4) (sampler_attrs s) = Some (snd (sf_rng s)). Proof. revert s; av. Qed.
Lemma av_nlike s : assoc (Nm T_nlike) (sampler_attrs s) = Some (sf_nlike s). Proof. revert s; av. Qed.
Lemma av_explored s : assoc (Nm T_explored) (sampler_attrs s) = Some (sf_explored s). Proof. revert s; av. Qed.
Lemma av_discard s : assoc (Nm T_discard) (sampler_attrs s) = Some (sf_discard s). Proof. revert s; av. Qed.
Lemma av_shn s : assoc (Nm T_shn) (sampler_attrs s) = Some (sf_shn s). Proof. revert s; av. Qed.
Lemma av_shns s : assoc (Nm T_shns) (sampler_attrs s) = Some (sf_shns s). Proof. revert s; av. Qed.
Lemma av_shneff s : assoc (Nm T_shneff) (sampler_attrs s) = Some (sf_shneff s). Proof. revert s; av. Qed.
Lemma av_shlmin s : assoc (Nm T_shlmin) (sampler_attrs s) = Some (sf_shlmin s). Proof. revert s; av. Qed.
Lemma av_shll s : assoc (Nm T_shll) (sampler_attrs s) = Some (sf_shll s). Proof. revert s; av. Qed.
Lemma av_shlv s : assoc (Nm T_shlv) (sampler_attrs s) = Some (sf_shlv s). Proof. revert s; av. Qed.
Lemma av_nse s : assoc (Nm T_nse) (sampler_attrs s) = Some (sf_nse s). Proof. revert s; av. Qed.
Lemma av_ee s : assoc (Nm T_ee) (sampler_attrs s) = Some (sf_ee s). Proof. revert s; av. Qed.
Lemma av_nui s : assoc (Nm T_nui) (sampler_attrs s) = Some (sf_nui s). Proof. revert s; av. Qed.
Lemma av_nli s : assoc (Nm T_nli) (sampler_attrs s) = Some (sf_nli s). Proof. revert s; av. Qed.
Ltac dv := intros s; rewrite dset_read; unfold dsets_tail; destruct (sf_blobst s); reflexivity.
Lemma dv_ptst s : assoc (Nm T_ptst) (sampler_dsets s) = Some (sf_ptst s). Proof. revert s; dv. Qed.
Lemma dv_sht s : assoc (Nm T_sht) (sampler_dsets s) = Some (sf_sht s). Proof. revert s; dv. Qed.
Lemma dv_loglt s : assoc (Nm T_loglt) (sampler_dsets s) = Some (sf_loglt s). Proof. revert s; dv. Qed.
Lemma dv_blobst s : assoc (Nm T_blobst) (sampler_dsets s) = sf_blobst s. Proof. revert s; dv. Qed.

Theorem read_write s dflt : wf_file s -> 0 < length (sf_points s) ->
  read_file (sf_static s) (length (sf_points s)) dflt (write_file s) = Some s.
Proof.
  intros (W1 & W2 & W3) Hpos. unfold read_file, write_file, kid. cbn [kids_of assoc name_eqb]. rewrite Pos.eqb_refl. cbn [attrs_of dsets_of].
  rewrite av_rng1, av_rng2, av_rng3, av_rng4, av_nlike, av_explored, av_discard, av_shn, av_shns, av_shneff, av_shlmin, av_shll, av_shlv, av_nse, av_ee, av_nui, av_nli.
  rewrite (r_indexed_spec T_pts (sampler_dsets s) (sf_points s) 0) by (intros j x Hj; now apply dset_pts).
  rewrite <- W1. rewrite (r_indexed_spec T_logl (sampler_dsets s) (sf_logl s) 0) by (intros j x Hj; now apply dset_logl).
  assert (RB : r_blobs (sampler_dsets s) 0 (length (sf_logl s)) None = Some (sf_blobs s)).
  { destruct (sf_blobs s) as [bl|] eqn:EB.
    - rewrite W1, <- W3. destruct bl as [|b0 bl]; [cbn [length] in W3; lia|]. cbn [length r_blobs].
      pose proof (dset_blobs_some s (b0 :: bl) 0 b0 EB eq_refl) as H0. cbn [Nat.add] in H0. rewrite H0.
      rewrite (r_blobs_some (sampler_dsets s) bl 1 [b0]); [reflexivity|lia|].
      intros j x Hj. exact (dset_blobs_some s (b0 :: bl) (S j) x EB Hj).
    - apply r_blobs_none. intros j. now apply dset_blobs_none. }
  rewrite RB. rewrite W1, <- W2.
  assert (RK : r_indexed T_bnd ((Nm T_sampler, Grp (sampler_attrs s) (sampler_dsets s) []) :: indexed (fun i g => (NmI T_bnd i, g)) 0 (sf_bounds s)) 0 (length (sf_bounds s)) = Some (sf_bounds s)).
  { apply r_indexed_spec. intros j x Hj. cbn [assoc name_eqb].
    pose proof (assoc_indexed T_bnd (fun g : h5 => g) [] (sf_bounds s) 0 j x Hj) as Ha. rewrite app_nil_r in Ha. exact Ha. }
  rewrite RK. destruct dflt as [[d1 d2] d3].
  rewrite dv_ptst, dv_sht, dv_loglt, dv_blobst. cbn [opt_or].
  destruct s as [st nl ex di a1 a2 a3 a4 a5 a6 a7 a8 a9 a10 pts ll bls pt sh lt bst bnds [[[q1 q2] q3] q4]]. reflexivity.
Qed.

(* and therefore what the incremental protocol leaves on disk is read back as the newer state *)
Theorem read_update shell s0 s1 dflt : wf_file s1 -> shell < length (sf_points s1) -> batch_frame shell s0 s1 ->
  read_file (sf_static s1) (length (sf_points s1)) dflt (upd_file (write_file s0) s1 shell) = Some s1.
Proof. intros W Hlt F. rewrite (update_is_full_write shell s0 s1 W Hlt F). apply read_write; [exact W|lia]. Qed.
