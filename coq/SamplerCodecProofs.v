From Coq Require Import List Arith PArith Bool Lia.
Import ListNotations.
Require Import NV.Codec NV.Codec2 NV.Codec2Proofs NV.SamplerCodec.

(* replacing entry j of an indexed list *)
Fixpoint replace_nth {A} (j : nat) (v : A) (l : list A) : list A :=
  match l, j with [], _ => [] | _ :: r, O => v :: r | x :: r, S k => x :: replace_nth k v r end.

Lemma same_except_replace {A} j (a b : list A) v : same_except j a b -> nth_error b j = Some v -> replace_nth j v a = b.
Proof.
  revert j b; induction a as [|x a IH]; intros j [|y b] H Hn; try (simpl in H; contradiction).
  - destruct j; discriminate.
  - destruct j as [|j].
    + cbn [same_except] in H. cbn [nth_error] in Hn. injection Hn as Hy. rewrite Hy. cbn [replace_nth]. f_equal. exact H.
    + cbn [same_except] in H. destruct H as [Hx H]. subst y. cbn [replace_nth]. f_equal. apply IH; auto.
Qed.
Lemma same_except_length {A} j (a b : list A) : same_except j a b -> length a = length b.
Proof.
  revert j b; induction a as [|x a IH]; intros j [|y b] H; try (simpl in H; contradiction); auto.
  destruct j as [|j]; cbn [same_except] in H; cbn [length]; f_equal.
  - now rewrite H.
  - destruct H. eauto.
Qed.

Lemma set_assoc_indexed_hit (T : positive) tl : forall (l : list tok) k j v, j < length l ->
  set_assoc (NmI T (k + j)) v (indexed (fun i x => (NmI T i, x)) k l ++ tl) = indexed (fun i x => (NmI T i, x)) k (replace_nth j v l) ++ tl.
Proof.
  induction l as [|x l IH]; intros k j v H; simpl in *; [lia|].
  rewrite Pos.eqb_refl. destruct j as [|j]; simpl.
  - now rewrite Nat.add_0_r, Nat.eqb_refl.
  - replace (Nat.eqb (k + S j) k) with false by (symmetry; apply Nat.eqb_neq; lia). simpl.
    replace (k + S j) with (S k + j) by lia. rewrite IH by lia. reflexivity.
Qed.
Lemma set_assoc_skip_prefix {V} nm (v : V) (a b : list (name * V)) : (forall k' x, In (k', x) a -> name_eqb nm k' = false) ->
  set_assoc nm v (a ++ b) = a ++ set_assoc nm v b.
Proof.
  induction a as [|[k x] a IH]; simpl; intros H; auto. rewrite (H k x) by auto. f_equal. apply IH. intros; eapply H; eauto.
Qed.
Lemma indexed_names_other (T T' : positive) (l : list tok) k nm : (forall i, name_eqb nm (NmI T i) = false) ->
  forall k' x, In (k', x) (indexed (fun i v => (NmI T i, v)) k l) -> name_eqb nm k' = false.
Proof.
  intros H k' x Hin. apply in_indexed_name in Hin. destruct Hin as (i & ->). apply H.
Qed.

(* ---- attributes ---- *)
Lemma upd_attrs_spec s0 s1 : sf_static s0 = sf_static s1 -> sf_explored s0 = sf_explored s1 -> sf_nse s0 = sf_nse s1 -> sf_ee s0 = sf_ee s1 ->
  upd_attrs s1 (sampler_attrs s0) = sampler_attrs s1.
Proof.
  intros E1 E2 E3 E4. unfold upd_attrs, sampler_attrs. destruct (sf_rng s1) as [[[r1 r2] r3] r4] eqn:R1.
  destruct (sf_rng s0) as [[[q1 q2] q3] q4]. rewrite E1, E2, E3, E4. cbn [fold_left fst snd rng_attrs].
  set (P := indexed (fun i v => (NmI T_static i, v)) 0 (sf_static s1)).
  assert (S : forall nm v tl, (forall i, name_eqb nm (NmI T_static i) = false) -> set_assoc nm v (P ++ tl) = P ++ set_assoc nm v tl).
  { intros nm v tl H. apply set_assoc_skip_prefix. intros k' x Hin. eapply (indexed_names_other T_static T_static); eauto. }
  repeat (rewrite S by (intros; reflexivity)). f_equal.
Qed.

(* ---- datasets ---- *)
Lemma upd_dsets_spec shell s0 s1 : shell < length (sf_points s1) ->
  same_except shell (sf_points s0) (sf_points s1) -> same_except shell (sf_logl s0) (sf_logl s1) ->
  (match sf_blobs s0, sf_blobs s1 with Some a, Some b => same_except shell a b /\ length b = length (sf_points s1) | None, None => True | _, _ => False end) ->
  (match sf_blobst s0, sf_blobst s1 with Some _, Some _ | None, None => True | _, _ => False end) ->
  length (sf_logl s1) = length (sf_points s1) ->
  upd_dsets s1 shell (sampler_dsets s0) = sampler_dsets s1.
Proof.
  intros Hlt HP HL HB HT HLL. unfold upd_dsets, sampler_dsets.
  destruct (nth_error (sf_points s1) shell) as [vp|] eqn:EP; [|apply nth_error_None in EP; lia].
  destruct (nth_error (sf_logl s1) shell) as [vl|] eqn:EL; [|apply nth_error_None in EL; lia].
  pose proof (same_except_length _ _ _ HP) as LP. pose proof (same_except_length _ _ _ HL) as LL.
  cbn [opt_set].
  (* points *)
  rewrite (set_assoc_indexed_hit T_pts _ (sf_points s0) 0 shell vp) by lia. rewrite (same_except_replace _ _ _ _ HP EP).
  (* log_l: skip the points, hit the log_l list *)
  rewrite set_assoc_skip_prefix by (intros k' x Hin; apply in_indexed_name in Hin; destruct Hin as (i & ->); reflexivity).
  rewrite (set_assoc_indexed_hit T_logl _ (sf_logl s0) 0 shell vl) by lia. rewrite (same_except_replace _ _ _ _ HL EL).
  destruct (sf_blobs s0) as [b0|], (sf_blobs s1) as [b1|]; try contradiction.
  - destruct HB as [HB HBL]. destruct (nth_error b1 shell) as [vb|] eqn:EB; [|apply nth_error_None in EB; lia]. cbn [opt_set].
    pose proof (same_except_length _ _ _ HB) as LB.
    assert (K : set_assoc (NmI T_blobs shell) vb (indexed (fun i v => (NmI T_pts i, v)) 0 (sf_points s1) ++ indexed (fun i v => (NmI T_logl i, v)) 0 (sf_logl s1) ++
                 indexed (fun i v => (NmI T_blobs i, v)) 0 b0 ++ [(Nm T_ptst, sf_ptst s0); (Nm T_sht, sf_sht s0); (Nm T_loglt, sf_loglt s0)] ++
                 match sf_blobst s0 with Some b => [(Nm T_blobst, b)] | None => [] end) =
               indexed (fun i v => (NmI T_pts i, v)) 0 (sf_points s1) ++ indexed (fun i v => (NmI T_logl i, v)) 0 (sf_logl s1) ++
                 indexed (fun i v => (NmI T_blobs i, v)) 0 b1 ++ [(Nm T_ptst, sf_ptst s0); (Nm T_sht, sf_sht s0); (Nm T_loglt, sf_loglt s0)] ++
                 match sf_blobst s0 with Some b => [(Nm T_blobst, b)] | None => [] end).
    { rewrite set_assoc_skip_prefix by (intros k' x Hin; apply in_indexed_name in Hin; destruct Hin as (i & ->); reflexivity).
      rewrite set_assoc_skip_prefix by (intros k' x Hin; apply in_indexed_name in Hin; destruct Hin as (i & ->); reflexivity).
      rewrite (set_assoc_indexed_hit T_blobs _ b0 0 shell vb) by lia. now rewrite (same_except_replace _ _ _ _ HB EB). }
    rewrite K. clear K.
    destruct (sf_blobst s0) as [t0|], (sf_blobst s1) as [t1|]; try contradiction; cbn [opt_set];
      repeat (rewrite set_assoc_skip_prefix by (intros k' x Hin; apply in_indexed_name in Hin; destruct Hin as (i & ->); reflexivity));
      reflexivity.
  - destruct (sf_blobst s0) as [t0|], (sf_blobst s1) as [t1|]; try contradiction; cbn [opt_set];
      repeat (rewrite set_assoc_skip_prefix by (intros k' x Hin; apply in_indexed_name in Hin; destruct Hin as (i & ->); reflexivity));
      reflexivity.
Qed.

(* ---- the whole file: an incremental update after any number of batches on `shell` and discard toggles gives exactly
        the file a full write of the newer state would give ---- *)
Lemma upd_kid_indexed_hit (T : positive) tl : forall (l : list h5) k j gnew, j < length l ->
  upd_kid (NmI T (k + j)) (fun _ => gnew) (indexed (fun i g => (NmI T i, g)) k l ++ tl) = indexed (fun i g => (NmI T i, g)) k (replace_nth j gnew l) ++ tl.
Proof.
  induction l as [|x l IH]; intros k j gnew H; simpl in *; [lia|].
  rewrite Pos.eqb_refl. destruct j as [|j]; simpl.
  - now rewrite Nat.add_0_r, Nat.eqb_refl.
  - replace (Nat.eqb (k + S j) k) with false by (symmetry; apply Nat.eqb_neq; lia). simpl.
    replace (k + S j) with (S k + j) by lia. rewrite IH by lia. reflexivity.
Qed.
Lemma upd_kid_ext nm (f g : h5 -> h5) l : (forall x, f x = g x) -> upd_kid nm f l = upd_kid nm g l.
Proof. intros H. induction l as [|[k v] l IH]; simpl; auto. destruct (name_eqb nm k); [now rewrite H|now rewrite IH]. Qed.

Definition wf_file (s : sfile) : Prop :=
  length (sf_logl s) = length (sf_points s) /\ length (sf_bounds s) = length (sf_points s) /\
  match sf_blobs s with Some b => length b = length (sf_points s) | None => True end.

Theorem update_is_full_write shell s0 s1 : wf_file s1 -> shell < length (sf_points s1) -> batch_frame shell s0 s1 ->
  upd_file (write_file s0) s1 shell = write_file s1.
Proof.
  intros (W1 & W2 & W3) Hlt (F1 & F2 & F3 & F4 & F5 & F6 & F7 & F8 & F9).
  unfold upd_file, write_file. f_equal.
  cbn [upd_kid]. rewrite name_eqb_refl.
  rewrite (upd_attrs_spec s0 s1 F1 F2 F3 F4).
  rewrite (upd_dsets_spec shell s0 s1 Hlt F5 F6).
  - cbn [upd_kid]. change (name_eqb (NmI T_bnd shell) (Nm T_sampler)) with false. cbv iota. f_equal.
    destruct (nth_error (sf_bounds s1) shell) as [gnew|] eqn:EB; [|apply nth_error_None in EB; lia].
    pose proof (same_except_length _ _ _ F9) as LB.
    assert (Hs : shell < length (sf_bounds s0)) by lia.
    pose proof (upd_kid_indexed_hit T_bnd [] (sf_bounds s0) 0 shell gnew Hs) as K. rewrite !app_nil_r in K. simpl in K.
    rewrite K. now rewrite (same_except_replace _ _ _ _ F9 EB).
  - destruct (sf_blobs s0), (sf_blobs s1); auto.
  - exact F8.
  - exact W1.
Qed.
