From Coq Require Import List Arith NArith ZArith Bool Lia PeanoNat Permutation.
Import ListNotations.
Require Import NV.Base NV.Shell2.

Ltac brk := match goal with
  | |- (if ?c then _ else _) = Some _ -> _ => destruct c eqn:?; try (intros; discriminate)
  | |- (match ?o with _ => _ end) = Some _ -> _ => destruct o eqn:?; try (intros; discriminate)
  end.

Lemma memb_In p l : memb p l = true <-> In p l.
Proof.
  unfold memb. rewrite existsb_exists. split.
  - intros (x & Hx & He). apply Pos.eqb_eq in He. now subst.
  - intros H. exists p. split; auto. apply Pos.eqb_refl.
Qed.
Lemma nodupb_NoDup l : nodupb l = true -> NoDup l.
Proof.
  induction l as [|x l IH]; simpl; intros H; [constructor|]. apply andb_true_iff in H. destruct H as [H1 H2].
  constructor; auto. intros Hin. apply memb_In in Hin. rewrite Hin in H1. discriminate.
Qed.
Lemma fmask_perm {A} (m : list bool) (l : list A) : length m = length l ->
  Permutation l (fmask (map negb m) l ++ fmask m l).
Proof.
  revert l; induction m as [|b m IH]; intros [|x l] H; simpl in *; try discriminate; auto.
  destruct b; simpl.
  - apply Permutation_cons_app. apply IH. lia.
  - constructor. apply IH. lia.
Qed.

Section Inv.
Variable contains : bid -> pid -> bool.
Variable in_cube : pid -> bool.
Variable lik blob : pid -> vid.
Variable n_batch : nat.
Notation step := (step contains in_cube lik blob n_batch).
Notation run := (run contains in_cube lik blob n_batch).

Definition cat (shs : list shell) : list pid := concat (map pts shs).

Definition Uniq (s : st) : Prop :=
  NoDup (cat (shells s)) /\ NoDup (t_pts s) /\ length (t_from s) = length (t_pts s) /\
  (forall i p, nth_error (t_pts s) i = Some p -> In p (cat (shells s)) -> nth_error (t_from s) i = Some None).

Lemma ab_go_perm b : forall shs i shs' ps ls bs fs,
  ab_go contains b i shs = (shs', (ps, ls, bs, fs)) ->
  Permutation (cat shs) (cat shs' ++ ps) /\ length fs = length ps.
Proof.
  induction shs as [|sh r IH]; simpl; intros i shs' ps ls bs fs E.
  - inversion E; subst. simpl. split; auto.
  - destruct (ab_go contains b (S i) r) as [r' [[[ps0 ls0] bs0] fs0]] eqn:Er. inversion E; subst; clear E.
    destruct (IH _ _ _ _ _ _ Er) as [P L]. split.
    + unfold cat in *. simpl. 
      rewrite (fmask_perm (map (contains b) (pts sh)) (pts sh)) at 1 by now rewrite map_length.
      rewrite P. rewrite <- !app_assoc. apply Permutation_app_head.
      rewrite !app_assoc. apply Permutation_app_tail. apply Permutation_app_comm.
    + rewrite !app_length, repeat_length. lia.
Qed.

Lemma cat_upd i extra (f : shell -> shell) : (forall x, pts (f x) = pts x ++ extra) ->
  forall l sh, nth_error l i = Some sh -> Permutation (cat (upd_nth i f l)) (cat l ++ extra).
Proof.
  intros Hp. induction i as [|i IH]; intros [|x l] sh En; simpl in *; try discriminate; unfold cat in *; simpl.
  - inversion En; subst. rewrite Hp. rewrite <- !app_assoc. apply Permutation_app_head. apply Permutation_app_comm.
  - rewrite <- app_assoc. apply Permutation_app_head. eapply IH; eauto.
Qed.

(* what the rounds guarantee about kept points and used candidate indices *)
Definition live (from : list (option nat)) (i : nat) : Prop := exists s, nth_error from i = Some (Some s).
Lemma set_nth_other {A} i j (v : A) l : i <> j -> nth_error (set_nth i v l) j = nth_error l j.
Proof. revert i j; induction l as [|x l IH]; intros [|i] [|j] H; simpl; auto; try lia; apply IH; lia. Qed.
Lemma set_nth_same {A} i (v : A) l : i < length l -> nth_error (set_nth i v l) i = Some v.
Proof. revert i; induction l as [|x l IH]; intros [|i] H; simpl in *; try lia; auto; apply IH; lia. Qed.
Lemma set_nth_len {A} i (v : A) l : length (set_nth i v l) = length l.
Proof. revert i; induction l as [|x l IH]; intros [|i]; simpl; auto. Qed.

Lemma mark_spec : forall used (from : list (option nat)), 
  let from' := fold_left (fun f i => set_nth i None f) used from in
  length from' = length from /\
  (forall j, ~ In j used -> nth_error from' j = nth_error from j) /\
  (forall j, In j used -> j < length from -> nth_error from' j = Some None).
Proof.
  induction used as [|i used IH]; simpl; intros from; [repeat split; auto; intros j []|].
  destruct (IH (set_nth i None from)) as (L & H1 & H2). rewrite set_nth_len in *. repeat split; auto.
  - intros j Hn. rewrite H1 by tauto. apply set_nth_other. tauto.
  - intros j [->|Hj] Hl.
    + destruct (in_dec Nat.eq_dec j used) as [Hin|Hnin].
      * apply H2; assumption.
      * rewrite H1 by auto. now apply set_nth_same.
    + apply H2; assumption.
Qed.

Lemma nodupb_nat_NoDup l : nodupb_nat l = true -> NoDup l.
Proof.
  induction l as [|x l IH]; simpl; intros H; [constructor|]. apply andb_true_iff in H. destruct H as [H1 H2].
  constructor; auto. intros Hin. apply negb_true_iff in H1. 
  assert (existsb (Nat.eqb x) l = true) by (apply existsb_exists; exists x; split; auto; apply Nat.eqb_refl). congruence.
Qed.
Lemma is_some_nth (from : list (option nat)) i : i < length from -> is_some (nth i from None) = true -> live from i.
Proof.
  revert i; induction from as [|o from IH]; intros [|i] Hl H; simpl in *; try lia.
  - destruct o; [eexists; reflexivity|discriminate].
  - apply IH; auto. lia.
Qed.

(* loop invariant of the rounds on the candidate bookkeeping *)
Definition J (from0 : list (option nat)) (a : acc) : Prop :=
  NoDup (a_used a) /\ length (a_from a) = length from0 /\
  (forall j, In j (a_used a) -> nth_error (a_from a) j = Some None /\ live from0 j) /\
  (forall j, ~ In j (a_used a) -> nth_error (a_from a) j = nth_error from0 j).

Lemma check_transfer_J from0 prov insh r a from' : J from0 a ->
  check_transfer contains prov (a_from a) insh r = Some from' ->
  J from0 (mkAcc (a_kept a) from' (a_used a ++ r_used r) (a_nbound a)).
Proof.
  intros (J1 & J2 & J3 & J4). unfold check_transfer.
  destruct (_ && _) eqn:Hc; [|discriminate]. intros E; inversion E; subst from'; clear E.
  repeat (apply andb_true_iff in Hc; destruct Hc as [Hc ?]).
  match goal with H : nodupb_nat (r_used r) = true |- _ => apply nodupb_nat_NoDup in H; rename H into Hnd end.
  match goal with H : forallb _ (r_used r) = true |- _ => rename H into Hlive end.
  rewrite forallb_forall in Hlive.
  assert (Hl : forall j, In j (r_used r) -> j < length (a_from a) /\ live (a_from a) j).
  { intros j Hj. specialize (Hlive j Hj). apply andb_true_iff in Hlive. destruct Hlive as [A B].
    apply Nat.ltb_lt in A. split; auto. now apply is_some_nth. }
  destruct (mark_spec (r_used r) (a_from a)) as (L & M1 & M2).
  unfold J; simpl. split; [|split; [|split]].
  - clear -J1 Hnd J3 Hl. revert J1. induction (a_used a) as [|u us IH]; simpl; intros H; auto.
    inversion H; subst. constructor.
    + intros Hin. apply in_app_or in Hin. destruct Hin as [Hin|Hin]; [contradiction|].
      destruct (J3 u (or_introl eq_refl)) as [Hn _]. destruct (Hl u Hin) as [_ (s0 & Hs)]. congruence.
    + apply IH; auto. intros j Hj. apply J3. now right.
  - lia.
  - intros j Hin. apply in_app_or in Hin. split.
    + destruct Hin as [Hj|Hj].
      * destruct (in_dec Nat.eq_dec j (r_used r)) as [Hi|Hni].
        -- apply M2; auto. now apply Hl.
        -- rewrite M1 by auto. now apply J3.
      * apply M2; auto. now apply Hl.
    + destruct Hin as [Hj|Hj]; [now apply J3|].
      destruct (Hl j Hj) as [_ (s0 & Hs)]. exists s0. rewrite <- J4; auto.
      intros Hi. destruct (J3 j Hi) as [Hn _]. congruence.
  - intros j Hn. rewrite M1 by (intros Hi; apply Hn; apply in_or_app; now right). apply J4. intros Hi. apply Hn. apply in_or_app. now left.
Qed.

Lemma NoDup_filter {A} (f : A -> bool) l : NoDup l -> NoDup (filter f l).
Proof. induction 1 as [|x l Hx H IH]; simpl; [constructor|]. destruct (f x); auto. constructor; auto. intros Hin. apply filter_In in Hin. tauto. Qed.

Lemma do_rounds_uniq known b later prov tmode from0 : forall rounds a a',
  do_rounds contains in_cube n_batch known b later prov tmode rounds a = Some a' ->
  J from0 a -> NoDup (a_kept a) -> (forall p, In p (a_kept a) -> ~ In p known) ->
  J from0 a' /\ NoDup (a_kept a') /\ (forall p, In p (a_kept a') -> ~ In p known).
Proof.
  induction rounds as [|r rs IH]; simpl; intros a a' E HJ HN HK.
  - destruct (Nat.eqb _ _); inversion E; subst; auto.
  - revert E. brk. brk. brk.
    destruct (nodupb (r_props r) && forallb (fun p => negb (memb p known) && negb (memb p (a_kept a))) (r_props r)) eqn:Hf; simpl; [|intros; discriminate].
    apply andb_true_iff in Hf. destruct Hf as [Hnd Hfr]. apply nodupb_NoDup in Hnd. rewrite forallb_forall in Hfr.
    assert (Hfresh : forall p, In p (r_props r) -> ~ In p known /\ ~ In p (a_kept a)).
    { intros p Hp. specialize (Hfr p Hp). apply andb_true_iff in Hfr. destruct Hfr as [A B].
      apply negb_true_iff in A, B. split; intros Hin; apply memb_In in Hin; congruence. }
    match goal with |- (match ?o with _ => _ end) = _ -> _ => destruct o as [from'|] eqn:Eo end; [|intros; discriminate].
    brk. intros E. eapply IH; [exact E| | |]; simpl.
    + destruct tmode.
      * pose proof (check_transfer_J from0 _ _ _ _ _ HJ Eo) as HJ'. unfold J in *; simpl in *. exact HJ'.
      * destruct (r_used r), (r_replaced r); inversion Eo; subst. unfold J in *; simpl in *. rewrite app_nil_r. exact HJ.
    + apply NoDup_app_iff' || idtac.
      assert (Hk : NoDup (filter (fun p => negb (memb p (r_replaced r))) (filter (later_free contains later) (r_props r)))) by (apply NoDup_filter, NoDup_filter; exact Hnd).
      clear -HN Hk Hfresh. induction (a_kept a) as [|x l IHl]; simpl; auto. inversion HN; subst. constructor.
      * intros Hin. apply in_app_or in Hin. destruct Hin as [Hin|Hin]; [contradiction|].
        apply filter_In in Hin. destruct Hin as [Hin _]. apply filter_In in Hin. destruct Hin as [Hin _].
        destruct (Hfresh x Hin) as [_ Hc]. apply Hc. now left.
      * apply IHl; auto. intros p Hp. destruct (Hfresh p Hp) as [A B]. split; auto. intros Hc. apply B. now right.
    + intros p Hp. apply in_app_or in Hp. destruct Hp as [Hp|Hp]; [now apply HK|].
      apply filter_In in Hp. destruct Hp as [Hp _]. apply filter_In in Hp. destruct Hp as [Hp _]. now destruct (Hfresh p Hp).
Qed.

Lemma NoDup_app_disj {A} (a b : list A) x : NoDup (a ++ b) -> In x a -> In x b -> False.
Proof.
  induction a as [|y a IH]; simpl; intros H Ha Hb; [contradiction|]. inversion H; subst.
  destruct Ha as [->|Ha]; [apply H2; apply in_or_app; now right|eapply IH; eauto].
Qed.
Lemma NoDup_app_l {A} (a b : list A) : NoDup (a ++ b) -> NoDup a.
Proof. induction a as [|y a IH]; simpl; intros H; [constructor|]. inversion H; subst. constructor; auto. intros Hin. apply H2. apply in_or_app. now left. Qed.
Lemma NoDup_app_r {A} (a b : list A) : NoDup (a ++ b) -> NoDup b.
Proof. induction a as [|y a IH]; simpl; intros H; auto. inversion H; subst. auto. Qed.
Lemma cat_app a b : cat (a ++ b) = cat a ++ cat b.
Proof. unfold cat. now rewrite map_app, concat_app. Qed.
Lemma cat_end_exp shs :
  cat (map (fun sh => mkShell (bnd sh) (pts sh) (lls sh) (bls sh) (nsample sh) (nsample sh) (length (pts sh)))
           (filter (fun sh => negb (Nat.eqb (length (pts sh)) 0)) shs)) = cat shs.
Proof.
  unfold cat. induction shs as [|sh r IH]; simpl; auto. destruct (pts sh) as [|p l] eqn:Ep; simpl.
  - exact IH.
  - rewrite Ep. simpl. now rewrite IH.
Qed.
Lemma mapM_nth_spec {A} (l : list A) idx out : mapM (fun j => nth_error l j) idx = Some out ->
  Forall2 (fun j x => nth_error l j = Some x) idx out.
Proof.
  revert out; induction idx as [|j idx IH]; simpl; intros out E; [inversion E; constructor|].
  destruct (nth_error l j) eqn:En; [|discriminate]. destruct (mapM _ idx) eqn:Em; [|discriminate]. inversion E; subst.
  constructor; auto.
Qed.
Lemma Forall2_in_r {A B} (R : A -> B -> Prop) la lb y : Forall2 R la lb -> In y lb -> exists x, In x la /\ R x y.
Proof.
  induction 1 as [|a b la lb Hab HF IH]; intros Hin; [contradiction|]. destruct Hin as [->|Hin].
  - exists a. split; auto. now left.
  - destruct (IH Hin) as (x & Hx & Hr). exists x. split; auto. now right.
Qed.
Lemma NoDup_select {A} (l : list A) idx out : NoDup l -> NoDup idx -> Forall2 (fun j x => nth_error l j = Some x) idx out -> NoDup out.
Proof.
  intros Hl Hi HF. induction HF as [|j x idx out Hjx HF IH]; [constructor|]. inversion Hi as [|? ? Hnin Hi']; subst.
  constructor; [|now apply IH]. intros Hin. destruct (Forall2_in_r _ _ _ _ HF Hin) as (j' & Hj' & Hx').
  assert (j = j').
  { apply (proj1 (NoDup_nth_error l) Hl); [apply nth_error_Some; congruence|congruence]. }
  subst. contradiction.
Qed.

Lemma NoDup_app3 {A} (l ext : list A) : NoDup l -> NoDup ext -> (forall x, In x ext -> ~ In x l) -> NoDup (l ++ ext).
Proof.
  induction l as [|y l IH]; simpl; intros Hl He Hd; auto. inversion Hl; subst. constructor.
  - intros Hin. apply in_app_or in Hin. destruct Hin as [Hin|Hin]; [contradiction|]. apply (Hd y Hin). now left.
  - apply IH; auto. intros x Hx Hc. apply (Hd x Hx). now right.
Qed.

Lemma step_uniq s e s' : Uniq s -> step s e = Some s' -> Uniq s'.
Proof.
  intros (U1 & U2 & U3 & U4). destruct e as [b| |idx rounds vals|d|d]; simpl.
  - unfold add_bound. brk. brk. destruct (shells s) as [|sh0 r0] eqn:Es.
    + intros E; inversion E; subst; simpl. repeat split; simpl; auto; try constructor. intros i p H. destruct i; discriminate.
    + rewrite <- Es in *. destruct (ab_go contains b 0 (shells s)) as [shs' [[[ps ls] bs] fs]] eqn:Eg.
      intros E; inversion E; subst; clear E. destruct (ab_go_perm _ _ _ _ _ _ _ _ Eg) as [P L].
      assert (N : NoDup (cat shs' ++ ps)) by (eapply Permutation_NoDup; eauto).
      unfold Uniq; simpl. rewrite cat_app. unfold cat at 2; simpl. rewrite app_nil_r. repeat split.
      * eapply NoDup_app_l; eauto.
      * eapply NoDup_app_r; eauto.
      * exact L.
      * intros i p Hp Hin. exfalso. apply in_app_or in Hin. destruct Hin as [Hin|Hin]; [|inversion Hin].
        apply (NoDup_app_disj (cat shs') ps p N Hin). eapply nth_error_In; exact Hp.
  - brk. intros E; inversion E; subst. repeat split; auto.
  - unfold add_samples. brk. brk. brk.
    match goal with H : nth_error (shells s) _ = Some _ |- _ => rename H into En end.
    match goal with |- (match ?o with _ => _ end) = _ -> _ => destruct o as [a|] eqn:Ed end; [|discriminate].
    brk. match goal with |- (match ?o with _ => _ end) = _ -> _ => destruct o as [[[tp tl] tb]|] eqn:Etr end; [|discriminate].
    intros E; inversion E; subst s'; clear E.
    destruct (do_rounds_uniq _ _ _ _ _ (t_from s) _ _ _ Ed) as ((J1 & J2 & J3 & J4) & K1 & K2); simpl.
    { split; [constructor|split; [reflexivity|split; [intros j []|intros j _; reflexivity]]]. } { constructor. } { intros p []. }
    simpl in *.
    (* the transferred points: distinct, live candidates, hence not stored anywhere yet *)
    assert (Htp : NoDup tp /\ (forall p, In p tp -> In p (t_pts s) /\ ~ In p (cat (shells s))) /\
                  (forall j p, nth_error (t_pts s) j = Some p -> In p tp -> In j (a_used a))).
    { destruct idx.
      - destruct (a_used a); inversion Etr; subst. split; [constructor|split; [intros p []|intros j p _ []]].
      - destruct (mapM (fun j => nth_error (t_pts s) j) (a_used a)) as [tp0|] eqn:E1; [|discriminate].
        destruct (mapM (fun j => nth_error (t_lls s) j) (a_used a)); [|discriminate].
        destruct (mapM (fun j => nth_error (t_bls s) j) (a_used a)); [|discriminate]. inversion Etr; subst.
        pose proof (mapM_nth_spec _ _ _ E1) as HF. split; [exact (NoDup_select (t_pts s) (a_used a) _ U2 J1 HF)|split].
        + intros p Hp. destruct (Forall2_in_r _ _ _ _ HF Hp) as (j & Hj & Hjp). split.
          * eapply nth_error_In; eauto.
          * intros Hc. pose proof (U4 j p Hjp Hc) as Hn. destruct (J3 j Hj) as [_ (sv & Hs)]. congruence.
        + intros j p Hp Hin. destruct (Forall2_in_r _ _ _ _ HF Hin) as (j' & Hj' & Hp').
          assert (j = j') by (apply (proj1 (NoDup_nth_error (t_pts s)) U2); [apply nth_error_Some; congruence|congruence]).
          now subst. }
    destruct Htp as (T1 & T2 & T3).
    match goal with |- context [upd_nth ?i ?f (shells s)] =>
      pose proof (cat_upd i (tp ++ a_kept a) f (fun x => eq_refl) (shells s) _ En) as P end.
    unfold Uniq; simpl. repeat split; auto.
    + eapply Permutation_NoDup; [apply Permutation_sym; exact P|].
      assert (N2 : NoDup (tp ++ a_kept a)).
      { clear -T1 K1 K2 T2. induction tp as [|x tp IH]; simpl; auto. inversion T1; subst. constructor.
        - intros Hin. apply in_app_or in Hin. destruct Hin as [Hin|Hin]; [contradiction|].
          apply (K2 x Hin). apply in_or_app. right. apply T2. now left.
        - apply IH; auto. intros p Hp. apply T2. now right. }
      apply NoDup_app3; auto. intros x Hx Hc. apply in_app_or in Hx. destruct Hx as [Hx|Hx].
      * now destruct (T2 x Hx).
      * apply (K2 x Hx). apply in_or_app. left. exact Hc.
    + lia.
    + intros j p Hp Hin. apply (Permutation_in _ P) in Hin. apply in_app_or in Hin. destruct Hin as [Hin|Hin].
      * destruct (in_dec Nat.eq_dec j (a_used a)) as [Hj|Hnj]; [exact (proj1 (J3 j Hj))|]. rewrite J4 by auto. exact (U4 j p Hp Hin).
      * apply in_app_or in Hin. destruct Hin as [Hin|Hin].
        -- exact (proj1 (J3 j (T3 j p Hp Hin))).
        -- exfalso. apply (K2 p Hin). apply in_or_app. right. eapply nth_error_In; eauto.
  - unfold end_exploration. brk. intros E; inversion E; subst; clear E. unfold Uniq; simpl. rewrite cat_end_exp. repeat split; auto.
  - intros E; inversion E; subst. repeat split; auto.
Qed.

Theorem C03_once : forall evs s, run init evs = Some s -> NoDup (concat (map pts (shells s))).
Proof.
  assert (G : forall evs s0 s, Uniq s0 -> run s0 evs = Some s -> Uniq s).
  { induction evs as [|e evs IH]; simpl; intros s0 s H E; [inversion E; subst; auto|].
    destruct (step s0 e) eqn:Es; [|discriminate]. eapply IH; [|eauto]. eapply step_uniq; eauto. }
  intros evs s E. assert (U : Uniq s) by (eapply G; [|exact E]; repeat split; simpl; auto; try constructor; intros i p H; destruct i; discriminate).
  apply U.
Qed.
End Inv.
