From Coq Require Import List Arith Bool Lia.
Import ListNotations.
Require Import NV.Crash.

Lemma exec_P_unchanged f o f' : touches_P_badly o = false -> (forall x, o <> Rename T x \/ x <> P) ->
  exec f o = Some f' -> fP f' = fP f.
Proof.
  intros Hb Hr E. destruct o as [p|p|p|p t|p|p|a b|]; try destruct p; try destruct a; try destruct b; simpl in *; try discriminate;
    repeat match type of E with
    | (match ?x with _ => _ end) = _ => destruct x eqn:?; try discriminate
    | (if ?x then _ else _) = _ => destruct x eqn:?; try discriminate
    end; inversion E; subst; simpl; auto.
  destruct (Hr P) as [H|H]; congruence.
Qed.

Lemma completed_cons f o r f1 : exec f o = Some f1 ->
  completed f (o :: r) = match o, fP f1 with Rename T P, Some c => c :: completed f1 r | _, _ => completed f1 r end.
Proof. intros E. cbn [completed]. rewrite E. reflexivity. Qed.

(* crash = any prefix.  Under an atomic trace, whatever prefix survives, P holds its initial content or one of the completed ones *)
Theorem C06_atomic : forall tr topen f k f',
  atomic_go topen tr = true -> run f (firstn k tr) = Some f' ->
  fP f' = fP f \/ exists c, fP f' = Some c /\ In c (completed f tr).
Proof.
  induction tr as [|o r IH]; intros topen f k f' Ha Hr.
  - rewrite firstn_nil in Hr. inversion Hr; subst. now left.
  - destruct k as [|k]; [inversion Hr; subst; now left|].
    simpl in Hr. destruct (exec f o) as [f1|] eqn:E; [|discriminate].
    simpl in Ha. destruct (touches_P_badly o) eqn:Hb; [discriminate|].
    assert (Hcase : (exists b, o = Rename T P /\ atomic_go b r = true) \/
                    ((forall x, o <> Rename T x \/ x <> P) /\ exists b, atomic_go b r = true)).
    { destruct o as [p|p|p|p t|p|p|a b|]; try destruct p; try destruct a; try destruct b; simpl in *; try discriminate;
        try (right; split; [intros x; left; discriminate|eexists; eassumption]).
      left. destruct topen; [discriminate|]. eexists; split; eauto. }
    rewrite (completed_cons _ _ r _ E).
    destruct Hcase as [(b & -> & Hb')|(Hn & b & Hb')].
    + destruct (fP f1) as [c1|] eqn:E1.
      * destruct (IH _ _ _ _ Hb' Hr) as [H|(c & H1 & H2)].
        -- right. exists c1. split; [congruence|now left].
        -- right. exists c. split; auto. now right.
      * exfalso. cbn in E. destruct (fT f); [inversion E; subst; discriminate|discriminate].
    + pose proof (exec_P_unchanged _ _ _ Hb Hn E) as HP.
      assert (Hsame : match o, fP f1 with Rename T P, Some c => c :: completed f1 r | _, _ => completed f1 r end = completed f1 r).
      { destruct o as [p|p|p|p t|p|p|a b0|]; auto. destruct a, b0; auto. destruct (Hn P) as [H|H]; congruence. }
      rewrite Hsame.
      destruct (IH _ _ _ _ Hb' Hr) as [H|(c & H1 & H2)].
      * left. congruence.
      * right. exists c. split; auto.
Qed.

(* the protocol of the unchanged code is not atomic: after unlink the checkpoint is gone *)
(* a crash can only ever expose states that were complete when they became visible: every content in `completed`
   is what T held at a rename, and T was closed at that moment *)
Theorem restart_any_state : forall tr, atomic_trace tr = true -> forall f k f',
  run f (firstn k tr) = Some f' -> fP f' = fP f \/ exists c, fP f' = Some c /\ In c (completed f tr).
Proof. intros tr H f k f'. unfold atomic_trace in H. eapply C06_atomic; eauto. Qed.

Example C06_inplace_refuted : exists tr k f', 
  run (mkFs (Some [1]) None false false) (firstn k tr) = Some f' /\ fP f' = None /\
  tr = [Unlink P; CreatExcl P; Write P 2; Close P].
Proof. exists [Unlink P; CreatExcl P; Write P 2; Close P], 1, (mkFs None None false false). repeat split. Qed.
Example C06_update_refuted : exists tr k f',
  run (mkFs (Some [1]) None false false) (firstn k tr) = Some f' /\ fP f' = Some [1; 2] /\
  tr = [OpenRW P; Write P 2; Write P 3; Close P].      (* neither the old [1] nor the new [1;2;3] *)
Proof. exists [OpenRW P; Write P 2; Write P 3; Close P], 2, (mkFs (Some [1; 2]) None true false). repeat split. Qed.
