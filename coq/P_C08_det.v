(* Property C08, volume side (mathcomp part): the closed-form ellipsoid volume uses |det B|; contains() is defined by A with
   A^-1 = B B^T.  det(A^-1) = det(B)^2, so the reported volume is that of the region contains() accepts
   (any real field, any dimension). *)
From mathcomp Require Import all_ssreflect all_algebra.
Require Import NV.Geom2.
Import GRing.Theory Num.Theory.
Local Open Scope ring_scope.
Theorem C08_det : forall (F : realFieldType) (d : nat) (B Ainv : 'M[F]_d), Ainv = B *m B^T -> \det Ainv = (\det B) ^+ 2.
Proof. move=> F d B Ainv; exact: Geom2.C08_det. Qed.
Print Assumptions C08_det.
