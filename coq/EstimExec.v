From Coq Require Import ZArith QArith List.
Import ListNotations.
Open Scope Z_scope.

(* dyadic numbers m * 2^e: every binary64 value is one *)
Record dy := mkDy { dm : Z; de : Z }.
Definition dy0 := mkDy 0 0.
Definition dy_add (a b : dy) : dy :=
  if Z.eqb (dm a) 0 then b else if Z.eqb (dm b) 0 then a else
  let em := Z.min (de a) (de b) in mkDy (Z.shiftl (dm a) (de a - em) + Z.shiftl (dm b) (de b - em)) em.
Definition dy_mul (a b : dy) : dy := mkDy (dm a * dm b) (de a + de b).
Definition dy_sum (l : list dy) : dy := fold_left dy_add l dy0.
(* exact rational value *)
Definition dy_Q (a : dy) : Q :=
  if Z.leb 0 (de a) then inject_Z (Z.shiftl (dm a) (de a)) else Qmake (dm a) (Z.to_pos (Z.shiftl 1 (- de a))).

Record shell := mkSh { bv : dy; ns : Z; Ls : list dy }.     (* one shell in the current view *)
Definition s1 (s : shell) := dy_sum (Ls s).
Definition s2 (s : shell) := dy_sum (map (fun l => dy_mul l l) (Ls s)).
Definition nQ (s : shell) : Q := inject_Z (Z.of_nat (length (Ls s))).
(* shell volume, shell evidence, sum of squared per-sample weights (all unnormalised) *)
Definition volQ (s : shell) : Q := Qred (dy_Q (bv s) * nQ s / inject_Z (ns s)).
Definition zQ (s : shell) : Q := Qred (dy_Q (dy_mul (bv s) (s1 s)) / inject_Z (ns s)).
Definition w2Q (s : shell) : Q := Qred (dy_Q (dy_mul (dy_mul (bv s) (bv s)) (s2 s)) / inject_Z (ns s * ns s)).
(* per-shell Kish effective sample size (sum L)^2 / sum L^2; the code uses the number of points when all L are zero *)
Definition neffShQ (s : shell) : Q :=
  if Z.eqb (dm (s2 s)) 0 then nQ s else Qred (dy_Q (dy_mul (s1 s) (s1 s)) / dy_Q (s2 s)).
Definition nonempty (s : shell) : bool := match Ls s with [] => false | _ => true end.
Definition Ztot (ss : list shell) : Q := fold_left (fun acc s => Qred (acc + zQ s)) (filter nonempty ss) 0%Q.
Definition W2tot (ss : list shell) : Q := fold_left (fun acc s => Qred (acc + w2Q s)) (filter nonempty ss) 0%Q.
Definition neffQ (ss : list shell) : Q := Qred (Ztot ss * Ztot ss / W2tot ss).       (* Kish over all samples, by C02_kish *)
