(* Property C01: every stored sample belongs to exactly one shell: its own.
   Quantified over ALL event traces accepted by the shell machine, for arbitrary `contains` (any geometry: non-nested,
   periodic, neural), arbitrary likelihood/blob oracles and batch size; no bound on the number of shells or points. *)
From Coq Require Import List Arith PArith.
Import ListNotations.
Require Import NV.Base NV.Shell2 NV.Shell2Part NV.Shell2Uniq NV.Shell2Thm.

Section P.
Variable contains : bid -> pid -> bool.
Variable in_cube : pid -> bool.
Variable lik blob : pid -> vid.
Variable n_batch : nat.
Notation run := (run contains in_cube lik blob n_batch).

(* after every event: each stored point is in the cube, in its own bound, outside every later bound *)
Theorem C01_partition : forall evs s, run init evs = Some s -> forall i sh p, nth_error (shells s) i = Some sh -> In p (pts sh) ->
  in_cube p = true /\ contains (bnd sh) p = true /\
  forall k sh', i < k -> nth_error (shells s) k = Some sh' -> contains (bnd sh') p = false.
Proof. exact (partition_nth contains in_cube lik blob n_batch). Qed.

(* membership coincides with shell association (the last bound that contains the point) *)
Theorem C01_assoc : forall evs s, run init evs = Some s -> forall i sh p, nth_error (shells s) i = Some sh -> In p (pts sh) ->
  assoc contains (shells s) p = Some i.
Proof. exact (assoc_own contains in_cube lik blob n_batch). Qed.

(* no point is counted twice *)
Theorem C01_disjoint : forall evs s, run init evs = Some s -> NoDup (concat (map pts (shells s))).
Proof. exact (stored_once contains in_cube lik blob n_batch). Qed.

(* transfer candidates that are not used are in no shell; while exploring they lie in the cube and in the newest bound *)
Theorem C01_limbo : forall evs s, run init evs = Some s ->
  (forall i p sh0, nth_error (t_pts s) i = Some p -> nth_error (t_from s) i = Some (Some sh0) -> ~ In p (concat (map pts (shells s)))) /\
  (explored s = false -> forall b, lastb (shells s) = Some b -> Forall (fun p => in_cube p = true /\ contains b p = true) (t_pts s)).
Proof. exact (limbo contains in_cube lik blob n_batch). Qed.
End P.
Print Assumptions C01_partition.
Print Assumptions C01_assoc.
Print Assumptions C01_disjoint.
Print Assumptions C01_limbo.

(* non-vacuity: two bounds, a transfer, a later-bound exclusion; contains is a concrete table *)
Definition ex_contains (b : bid) (p : pid) : bool :=
  match b, p with
  | 1%positive, _ => true
  | 2%positive, (2 | 4 | 5 | 7)%positive => true
  | _, _ => false end.
Local Open Scope positive_scope.
Example C01_example :
  exists s, run ex_contains (fun _ => true) (fun p => p) (fun _ => 1) 2%nat init
    [EvAddBoundOk 1; EvAddSamples None [mkRound [1; 2] [] []] [(1, 1); (2, 1)];
     EvAddBoundOk 2;
     EvAddSamples None [mkRound [4; 5] [4] [0%nat]; mkRound [7] [] []] [(5, 1); (7, 1)];
     EvEndExploration false;
     EvAddSamples (Some 0%nat) [mkRound [8; 4] [] []; mkRound [9] [] []] [(8, 1); (9, 1)]] = Some s
  /\ map pts (shells s) = [[1; 8; 9]; [2; 5; 7]].
Proof. eexists. split; vm_compute; reflexivity. Qed.
