From Coq Require Import List Arith NArith ZArith Bool Lia PeanoNat.
Import ListNotations.
Require Import NV.Base NV.Shell2.

Ltac brk := match goal with
  | |- (if ?c then _ else _) = Some _ -> _ => destruct c eqn:?; try (intros; discriminate)
  | |- (match ?o with _ => _ end) = Some _ -> _ => destruct o eqn:?; try (intros; discriminate)
  end.

Section Inv.
Variable contains : bid -> pid -> bool.
Variable in_cube : pid -> bool.
Variable lik blob : pid -> vid.
Variable n_batch : nat.
Notation step := (step contains in_cube lik blob n_batch).
Notation run := (run contains in_cube lik blob n_batch).

Definition okp (b : bid) (later : list bid) (p : pid) : Prop :=
  in_cube p = true /\ contains b p = true /\ Forall (fun b' => contains b' p = false) later.
Fixpoint PartL (l : list shell) : Prop :=
  match l with [] => True | sh :: r => (forall p, In p (pts sh) -> okp (bnd sh) (map bnd r) p) /\ PartL r end.
Definition lastb (l : list shell) : option bid := match rev l with [] => None | sh :: _ => Some (bnd sh) end.
Definition CandOk (s : st) : Prop :=
  explored s = false -> forall b, lastb (shells s) = Some b -> Forall (fun p => in_cube p = true /\ contains b p = true) (t_pts s).
Definition InvP (s : st) : Prop := PartL (shells s) /\ CandOk s.

Lemma PartL_app_last l sh : PartL l -> pts sh = [] ->
  (forall sh0 p, In sh0 l -> In p (pts sh0) -> contains (bnd sh) p = false) -> PartL (l ++ [sh]).
Proof.
  induction l as [|a l IH]; simpl; intros HP He Hn.
  - split; [intros p Hp; rewrite He in Hp; destruct Hp|exact I].
  - destruct HP as [Ha HP]. split.
    + intros p Hp. destruct (Ha p Hp) as (H1 & H2 & H3). repeat split; auto.
      rewrite map_app. apply Forall_app; split; auto. constructor; [|constructor]. eapply Hn; eauto.
    + apply IH; auto. intros sh0 p Hin Hp. eapply Hn; eauto.
Qed.
Lemma PartL_congr l l' : map bnd l' = map bnd l -> Forall2 (fun a b => forall p, In p (pts b) -> In p (pts a)) l l' -> PartL l -> PartL l'.
Proof.
  intros Hb HF. revert Hb. induction HF as [|a b l l' Hab HF IH]; simpl; intros Hb HP; auto.
  inversion Hb as [[Hb1 Hb2]]. destruct HP as [Ha HP]. split; auto. intros p Hp. rewrite Hb1, Hb2. apply Ha. now apply Hab.
Qed.
Lemma PartL_filter f l : PartL l -> PartL (filter f l).
Proof.
  induction l as [|a l IH]; simpl; intros HP; [exact I|]. destruct HP as [Ha HP]. destruct (f a); simpl; [split|]; auto.
  intros p Hp. destruct (Ha p Hp) as (H1 & H2 & H3). repeat split; auto.
  clear -H3. induction l as [|x l IHl]; simpl in *; [constructor|]. inversion H3; subst. destruct (f x); simpl; [constructor|]; auto.
Qed.

Lemma ab_go_spec b : forall shs i shs' ps ls bs fs,
  ab_go contains b i shs = (shs', (ps, ls, bs, fs)) -> PartL shs ->
  PartL shs' /\ map bnd shs' = map bnd shs /\
  (forall sh0 p, In sh0 shs' -> In p (pts sh0) -> contains b p = false) /\
  (forall p, In p ps -> contains b p = true /\ in_cube p = true).
Proof.
  induction shs as [|sh r IH]; simpl; intros i shs' ps ls bs fs E HP.
  - inversion E; subst. repeat split; simpl; auto; intros; contradiction.
  - destruct (ab_go contains b (S i) r) as [r' [[[ps0 ls0] bs0] fs0]] eqn:Er. inversion E; subst; clear E.
    destruct HP as [Ha HP]. destruct (IH _ _ _ _ _ _ Er HP) as (P1 & P2 & P3 & P4).
    assert (Hsub : forall p, In p (fmask (map negb (map (contains b) (pts sh))) (pts sh)) -> In p (pts sh) /\ contains b p = false).
    { intros p Hp. rewrite map_map, fmask_map_filter in Hp. apply filter_In in Hp. destruct Hp as [Hp Hc]. split; auto. now apply negb_true_iff in Hc. }
    split; [|split; [|split]].
    + simpl. split; auto. intros p Hp. apply Hsub in Hp. destruct Hp as [Hp _]. rewrite P2. now apply Ha.
    + simpl. now rewrite P2.
    + intros sh0 p [Hs|Hs] Hp; [subst sh0; simpl in Hp; now apply Hsub in Hp|eapply P3; eauto].
    + intros p H. apply in_app_or in H. destruct H as [H|H]; [|now apply P4].
      rewrite fmask_map_filter in H. apply filter_In in H. destruct H as [H Hc]. split; auto. now destruct (Ha p H).
Qed.

Lemma lastb_app l sh : lastb (l ++ [sh]) = Some (bnd sh).
Proof. unfold lastb. now rewrite rev_app_distr. Qed.
Lemma lastb_map_bnd l l' : map bnd l' = map bnd l -> lastb l' = lastb l.
Proof.
  intros H. unfold lastb. assert (E : map bnd (rev l') = map bnd (rev l)) by (rewrite !map_rev; now f_equal).
  destruct (rev l'), (rev l); simpl in E; try discriminate; auto. now inversion E.
Qed.
Lemma lastb_nth l n sh : length l = S n -> nth_error l n = Some sh -> lastb l = Some (bnd sh).
Proof.
  intros HL Hn. destruct (@exists_last _ l) as (l' & a & E); [intros ->; discriminate|]. subst l.
  rewrite lastb_app. rewrite app_length in HL; simpl in HL.
  rewrite nth_error_app2 in Hn by lia. replace (n - length l') with 0 in Hn by lia. simpl in Hn. now inversion Hn.
Qed.

Lemma mapM_nth_error_In {A} (l : list A) idx out : mapM (fun j => nth_error l j) idx = Some out -> forall x, In x out -> In x l.
Proof.
  revert out; induction idx as [|j idx IH]; simpl; intros out E; [inversion E; subst; intros x []|].
  destruct (nth_error l j) eqn:En; [|discriminate]. destruct (mapM _ idx) eqn:Em; [|discriminate]. inversion E; subst.
  intros x [Hx|Hx]; [subst; eapply nth_error_In; eauto|eapply IH; eauto].
Qed.
Lemma later_free_Forall later p : later_free contains later p = true -> Forall (fun b' => contains b' p = false) (map bnd later).
Proof.
  unfold later_free. induction later as [|x l IH]; simpl; intros H; [constructor|].
  apply andb_true_iff in H. destruct H as [H1 H2]. constructor; auto. now apply negb_true_iff in H1.
Qed.

Lemma do_rounds_spec known b later prov tmode : forall rounds a a',
  do_rounds contains in_cube n_batch known b later prov tmode rounds a = Some a' ->
  (forall p, In p (a_kept a) -> okp b (map bnd later) p) -> (forall p, In p (a_kept a') -> okp b (map bnd later) p).
Proof.
  induction rounds as [|r rs IH]; simpl; intros a a' E Hk.
  - destruct (Nat.eqb _ _); inversion E; subst; auto.
  - revert E. brk. brk. destruct (forallb (fun p => in_cube p && contains b p) (r_props r)) eqn:Ef; simpl; [|discriminate].
    brk. brk. brk. intros E. eapply IH; [exact E|]. simpl. intros p Hp. apply in_app_or in Hp. destruct Hp as [Hp|Hp]; auto.
    apply filter_In in Hp. destruct Hp as [Hp _]. apply filter_In in Hp. destruct Hp as [Hp Hl].
    rewrite forallb_forall in Ef. specialize (Ef p Hp). apply andb_true_iff in Ef. destruct Ef.
    repeat split; auto. now apply later_free_Forall.
Qed.

Lemma upd_nth_bnd (f : shell -> shell) i l : (forall x, bnd (f x) = bnd x) -> map bnd (upd_nth i f l) = map bnd l.
Proof. intros Hf. revert i; induction l as [|x l IH]; intros [|i]; simpl; auto; now rewrite ?Hf, ?IH. Qed.
Lemma PartL_upd i extra (f : shell -> shell) : (forall x, bnd (f x) = bnd x) -> (forall x, pts (f x) = pts x ++ extra) ->
  forall l sh, PartL l -> nth_error l i = Some sh ->
  (forall p, In p extra -> okp (bnd sh) (map bnd (skipn (S i) l)) p) -> PartL (upd_nth i f l).
Proof.
  intros Hb Hp. induction i as [|i IH]; intros [|x l] sh HP En He; simpl in *; try discriminate.
  - inversion En; subst. destruct HP as [Ha HP]. split; auto. intros p Hin. rewrite Hb. rewrite Hp in Hin.
    apply in_app_or in Hin. destruct Hin; auto.
  - destruct HP as [Ha HP]. split; [intros p Hin; rewrite upd_nth_bnd by auto; auto|eapply IH; eauto].
Qed.

Lemma step_invP s e s' : InvP s -> step s e = Some s' -> InvP s'.
Proof.
  intros (HP & HC). destruct e as [b| |idx rounds vals|d|d]; simpl.
  - unfold add_bound. brk. brk. destruct (shells s) as [|sh0 r0] eqn:Es.
    + intros E; inversion E; subst. split; simpl; [split; [intros p []|exact I]|]. intros _ b0 _. constructor.
    + rewrite <- Es in *. destruct (ab_go contains b 0 (shells s)) as [shs' [[[ps ls] bs] fs]] eqn:Eg.
      intros E; inversion E; subst; clear E. destruct (ab_go_spec _ _ _ _ _ _ _ _ Eg HP) as (P1 & P2 & P3 & P4).
      split; [cbn [shells]; apply PartL_app_last; auto|]. unfold CandOk; cbn [shells t_pts explored]. intros _ b0 Hb. rewrite lastb_app in Hb. inversion Hb; subst; simpl.
      apply Forall_forall. intros p Hp. destruct (P4 p Hp). auto.
  - brk. intros E; inversion E; subst. split; auto.
  - unfold add_samples. destruct (length (shells s)) as [|nm1] eqn:EL; [discriminate|].
    set (i := match idx with None => nm1 | Some i0 => i0 end).
    destruct (match idx with None => explored s | Some _ => negb (explored s) end) eqn:Eg; [discriminate|].
    destruct (nth_error (shells s) i) as [sh|] eqn:En; [|discriminate].
    match goal with |- (match ?o with _ => _ end) = _ -> _ => destruct o as [a|] eqn:Ed end; [|discriminate].
    brk. match goal with |- (match ?o with _ => _ end) = _ -> _ => destruct o as [[[tp tl] tb]|] eqn:Etr end; [|discriminate].
    intros E; inversion E; subst s'; clear E.
    pose proof (do_rounds_spec _ _ _ _ _ _ _ _ Ed (fun p (H : In p []) => match H with end)) as Hk. simpl in Hk.
    assert (Htp : forall p, In p tp -> okp (bnd sh) (map bnd (skipn (S i) (shells s))) p).
    { destruct idx as [i0|].
      - destruct (a_used a); inversion Etr; subst. intros p [].
      - destruct (mapM (fun j => nth_error (t_pts s) j) (a_used a)) as [tp0|] eqn:Etp; [|discriminate].
        destruct (mapM (fun j => nth_error (t_lls s) j) (a_used a)); [|discriminate].
        destruct (mapM (fun j => nth_error (t_bls s) j) (a_used a)); [|discriminate]. inversion Etr; subst.
        intros p Hp. subst i. rewrite skipn_all2 by lia. simpl.
        specialize (HC Eg _ (lastb_nth _ _ _ EL En)). rewrite Forall_forall in HC.
        destruct (HC p (mapM_nth_error_In _ _ _ Etp p Hp)). repeat split; auto. }
    split; simpl.
    + eapply PartL_upd with (extra := tp ++ a_kept a); eauto. intros p Hp. apply in_app_or in Hp. destruct Hp; auto.
    + intros Hx b0 Hb. rewrite (lastb_map_bnd (shells s)) in Hb by (apply upd_nth_bnd; reflexivity). auto.
  - unfold end_exploration. brk. intros E; inversion E; subst; clear E. split; simpl; [|discriminate].
    eapply PartL_congr with (l := filter _ (shells s)); [| |apply PartL_filter; exact HP].
    + rewrite map_map. reflexivity.
    + clear. induction (filter _ (shells s)); simpl; constructor; auto.
  - intros E; inversion E; subst. split; auto.
Qed.

Theorem C01_partition : forall evs s, run init evs = Some s -> PartL (shells s).
Proof.
  assert (G : forall evs s0 s, InvP s0 -> run s0 evs = Some s -> InvP s).
  { induction evs as [|e evs IH]; simpl; intros s0 s H E; [inversion E; subst; auto|].
    destruct (step s0 e) eqn:Es; [|discriminate]. eapply IH; [|eauto]. eapply step_invP; eauto. }
  intros evs s E. apply (G evs init s); auto. split; simpl; auto. intros _ b H. discriminate.
Qed.
End Inv.
