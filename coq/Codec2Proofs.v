From Coq Require Import List Arith PArith Bool Lia.
Import ListNotations.
Require Import NV.Codec NV.Codec2.

Lemma r_w_shift s : r_shift (w_shift s) = Some s.
Proof. destruct s; reflexivity. Qed.

Lemma nth_error_lt' {A} (l : list A) i x : nth_error l i = Some x -> i < length l.
Proof. intros H. apply nth_error_Some. congruence. Qed.

(* ---------------- emulator ---------------- *)
Section Emu.
Variable tnat : tok -> nat.
Variable nlayers : list (positive * tok) -> nat.

Lemma net_attrs_of_app i a b : net_attrs_of i (a ++ b) = net_attrs_of i a ++ net_attrs_of i b.
Proof.
  induction a as [|[k v] a IH]; simpl; auto. destruct k as [t|t j|t j|t k j]; auto.
  destruct (Nat.eqb j i); simpl; now rewrite IH.
Qed.
Lemma net_attrs_of_own i n : net_attrs_of i (w_net_attrs i n) = nw_attrs n.
Proof.
  unfold w_net_attrs. induction (nw_attrs n) as [|[k v] l IH]; simpl; auto. now rewrite Nat.eqb_refl, IH.
Qed.
Lemma net_attrs_of_other i j n : j <> i -> net_attrs_of i (w_net_attrs j n) = [].
Proof.
  intros H. unfold w_net_attrs. induction (nw_attrs n) as [|[k v] l IH]; simpl; auto.
  replace (Nat.eqb j i) with false by (symmetry; now apply Nat.eqb_neq). exact IH.
Qed.
Lemma net_attrs_of_concat nets : forall j i n, nth_error nets i = Some n ->
  net_attrs_of (j + i) (concat (indexed w_net_attrs j nets)) = nw_attrs n.
Proof.
  induction nets as [|m nets IH]; intros j i n H; [destruct i; discriminate|].
  simpl. rewrite net_attrs_of_app. destruct i as [|i]; simpl in H.
  - inversion H; subst. rewrite Nat.add_0_r, net_attrs_of_own.
    assert (E : forall l k, j < k -> net_attrs_of j (concat (indexed w_net_attrs k l)) = []).
    { induction l as [|x l IHl]; simpl; intros k Hk; auto. rewrite net_attrs_of_app, net_attrs_of_other by lia. apply IHl. lia. }
    rewrite E by lia. now rewrite app_nil_r.
  - rewrite net_attrs_of_other by lia. simpl. replace (j + S i) with (S j + i) by lia. now apply IH.
Qed.

(* lookup of array k of network i *)
Lemma assoc_arrays_own (T : positive) i (tl : list (name * tok)) : forall (l : list tok) j k c, nth_error l k = Some c ->
  assoc (NmKI T (j + k) i) (indexed (fun k c => (NmKI T k i, c)) j l ++ tl) = Some c.
Proof.
  induction l as [|y l IH]; intros j k c H; [destruct k; discriminate|]. destruct k as [|k]; simpl in *.
  - inversion H; subst. now rewrite Nat.add_0_r, Pos.eqb_refl, !Nat.eqb_refl.
  - rewrite Pos.eqb_refl, Nat.eqb_refl. simpl. replace (Nat.eqb (j + S k) j) with false by (symmetry; apply Nat.eqb_neq; lia).
    simpl. replace (j + S k) with (S j + k) by lia. now apply IH.
Qed.
Lemma assoc_skip_arrays {V} (nm : name) (f : nat -> tok -> name * V) l j tl :
  (forall k c, name_eqb nm (fst (f k c)) = false) -> assoc nm (indexed f j l ++ tl) = assoc nm tl.
Proof.
  intros H. revert j; induction l as [|y l IH]; intros j; simpl; auto.
  specialize (H j y). destruct (f j y) as [k' v]. simpl in H. now rewrite H.
Qed.
Lemma assoc_net_dsets_other nm i n tl : (forall T k, name_eqb nm (NmKI T k i) = false) ->
  assoc nm (w_net_dsets i n ++ tl) = assoc nm tl.
Proof.
  intros H. unfold w_net_dsets. rewrite <- app_assoc.
  rewrite (assoc_skip_arrays nm) by (intros; apply H).
  rewrite (assoc_skip_arrays nm) by (intros; apply H). reflexivity.
Qed.
Lemma assoc_concat_dsets (T : positive) tl : (T = T_coefs \/ T = T_icpts) -> forall nets j i n k c, nth_error nets i = Some n ->
  nth_error (if Pos.eqb T T_coefs then nw_coefs n else nw_icpts n) k = Some c ->
  assoc (NmKI T k (j + i)) (concat (indexed w_net_dsets j nets) ++ tl) = Some c.
Proof.
  intros HT. induction nets as [|m nets IH]; intros j i n k c Hn Hk; [destruct i; discriminate|].
  simpl. rewrite <- app_assoc. destruct i as [|i]; simpl in Hn.
  - inversion Hn; subst. rewrite Nat.add_0_r. unfold w_net_dsets. rewrite <- app_assoc.
    destruct HT as [-> | ->]; simpl in Hk.
    + apply (assoc_arrays_own T_coefs j _ (nw_coefs n) 0 k c Hk).
    + rewrite (assoc_skip_arrays (NmKI T_icpts k j)) by (intros; reflexivity).
      apply (assoc_arrays_own T_icpts j _ (nw_icpts n) 0 k c Hk).
  - rewrite assoc_net_dsets_other.
    + replace (j + S i) with (S j + i) by lia. eapply IH; eauto.
    + intros T' k'. simpl. replace (Nat.eqb (j + S i) j) with false by (symmetry; apply Nat.eqb_neq; lia).
      now rewrite andb_false_r.
Qed.

Lemma r_arrays_ok (T : positive) g i : forall l k,
  (forall q c, nth_error l q = Some c -> dset (NmKI T (k + q) i) g = Some c) -> r_arrays T g i k (length l) = Some l.
Proof.
  induction l as [|c l IH]; intros k H; simpl; auto.
  rewrite <- (Nat.add_0_r k) at 1. rewrite (H 0 c eq_refl). rewrite IH; auto.
  intros q c' Hq. replace (S k + q) with (k + S q) by lia. now apply H.
Qed.

Definition wf_net (n : network) : Prop := nlayers (nw_attrs n) = length (nw_coefs n) /\ length (nw_icpts n) = length (nw_coefs n).
Definition wf_emu (e : emulator) : Prop := tnat (em_nnet e) = length (em_nets e) /\ Forall wf_net (em_nets e).

Lemma r_net_ok e i n : nth_error (em_nets e) i = Some n -> wf_net n -> r_net nlayers (w_emu e) i = Some n.
Proof.
  intros Hn (H1 & H2). unfold r_net. cbn [attrs_of w_emu].
  assert (A : net_attrs_of i ((Nm T_nnet, em_nnet e) :: concat (indexed w_net_attrs 0 (em_nets e))) = nw_attrs n).
  { simpl. apply (net_attrs_of_concat (em_nets e) 0 i n Hn). }
  rewrite A, H1.
  rewrite (r_arrays_ok T_coefs (w_emu e) i (nw_coefs n) 0).
  - rewrite <- H2. rewrite (r_arrays_ok T_icpts (w_emu e) i (nw_icpts n) 0); [destruct n; reflexivity|].
    intros q c Hq. unfold dset. cbn [dsets_of w_emu]. apply (assoc_concat_dsets T_icpts _ (or_intror eq_refl) (em_nets e) 0 i n q c Hn). exact Hq.
  - intros q c Hq. unfold dset. cbn [dsets_of w_emu]. apply (assoc_concat_dsets T_coefs _ (or_introl eq_refl) (em_nets e) 0 i n q c Hn). exact Hq.
Qed.
Lemma r_nets_ok e : Forall wf_net (em_nets e) -> forall l k, (forall q n, nth_error l q = Some n -> nth_error (em_nets e) (k + q) = Some n) ->
  r_nets nlayers (w_emu e) k (length l) = Some l.
Proof.
  intros HW. induction l as [|n l IH]; intros k H; simpl; auto.
  pose proof (H 0 n eq_refl) as H0. rewrite Nat.add_0_r in H0.
  rewrite Forall_forall in HW. rewrite (r_net_ok e k n H0 (HW n (nth_error_In _ _ H0))).
  rewrite IH; auto. intros q m Hq. replace (S k + q) with (k + S q) by lia. now apply H.
Qed.
Lemma assoc_after_nets nm (tl : list (name * tok)) nets : (forall T k i, name_eqb nm (NmKI T k i) = false) -> forall j,
  assoc nm (concat (indexed w_net_dsets j nets) ++ tl) = assoc nm tl.
Proof.
  intros H. induction nets as [|n l IH]; intros j; simpl; auto.
  rewrite <- app_assoc. rewrite assoc_net_dsets_other by (intros; apply H). apply IH.
Qed.
Theorem r_w_emu e : wf_emu e -> r_emu tnat nlayers (w_emu e) = Some e.
Proof.
  intros (H1 & H2). unfold r_emu.
  assert (A1 : attr (Nm T_nnet) (w_emu e) = Some (em_nnet e)) by reflexivity.
  assert (A2 : dset (Nm T_mean) (w_emu e) = Some (em_mean e) /\ dset (Nm T_scale) (w_emu e) = Some (em_scale e)).
  { unfold dset. cbn [dsets_of w_emu]. split; rewrite assoc_after_nets by (intros; reflexivity); reflexivity. }
  destruct A2 as [A2 A3]. rewrite A1, A2, A3, H1.
  rewrite (r_nets_ok e H2 (em_nets e) 0); [destruct e; reflexivity|]. intros q n Hq. exact Hq.
Qed.
End Emu.

(* ---------------- neural and nautilus bounds ---------------- *)
Section Naut.
Variable any_cube all_cube : tok -> bool.
Variable alen : tok -> nat.
Variable tnat : tok -> nat.
Variable nlayers : list (positive * tok) -> nat.
Notation r_neural := (r_neural tnat nlayers). Notation r_naut := (r_naut any_cube all_cube alen tnat nlayers).

Definition wf_neural (n : neural) : Prop := match nb_emu n with Some e => wf_emu tnat nlayers e | None => True end.
Theorem r_w_neural n : wf_neural n -> r_neural (w_neural n) = Some n.
Proof.
  destruct n as [nd sp o oe]. unfold wf_neural. simpl. intros H. unfold Codec2.r_neural.
  assert (A1 : attr (Nm T_ndim) (w_neural (mkNeural nd sp o oe)) = Some nd) by reflexivity.
  assert (A2 : attr (Nm T_spm) (w_neural (mkNeural nd sp o oe)) = Some sp) by reflexivity.
  assert (A3 : kid (Nm T_outer) (w_neural (mkNeural nd sp o oe)) = Some (w_ell o)) by reflexivity.
  rewrite A1, A2, A3, r_w_ell. destruct oe as [e|].
  - assert (A4 : kid (Nm T_emu) (w_neural (mkNeural nd sp o (Some e))) = Some (w_emu e)) by reflexivity.
    rewrite A4, (r_w_emu tnat nlayers e H). reflexivity.
  - reflexivity.
Qed.

Definition wf_naut (b : nautilus) : Prop := Forall wf_neural (na_neurals b) /\ wf_union any_cube all_cube alen (na_outer b).
Definition persisted_naut (b : nautilus) : nautilus :=
  mkNaut (na_ndim b) (na_shift b) (na_nneural b) (na_neurals b) (persisted (na_outer b)) (na_points b) (na_nsample b) (na_nreject b).

Lemma kid_neural_found b i n : nth_error (na_neurals b) i = Some n -> kid (NmI T_neural i) (w_naut b) = Some (w_neural n).
Proof.
  intros H. unfold kid. cbn [kids_of w_naut]. rewrite assoc_app_skip.
  - apply (assoc_indexed T_neural w_neural _ (na_neurals b) 0 i n H).
  - destruct (na_shift b); simpl; intros k' v Hin; [destruct Hin as [Hin|[]]; inversion Hin; reflexivity|contradiction].
Qed.
Lemma assoc_indexed_beyond {A V} (T : positive) (w : A -> V) tl : forall l j m, j + length l <= m ->
  assoc (NmI T m) (indexed (fun i x => (NmI T i, w x)) j l ++ tl) = assoc (NmI T m) tl.
Proof.
  induction l as [|x l IH]; intros j m H; simpl in *; auto.
  rewrite Pos.eqb_refl. replace (Nat.eqb m j) with false by (symmetry; apply Nat.eqb_neq; lia). simpl. apply IH. lia.
Qed.
Lemma kid_neural_end b : kid (NmI T_neural (length (na_neurals b))) (w_naut b) = None.
Proof.
  unfold kid. cbn [kids_of w_naut]. rewrite assoc_app_skip.
  - rewrite assoc_indexed_beyond by (simpl; lia). reflexivity.
  - destruct (na_shift b); simpl; intros k' v Hin; [destruct Hin as [Hin|[]]; inversion Hin; reflexivity|contradiction].
Qed.

Lemma r_neurals_ok b : Forall wf_neural (na_neurals b) -> forall l k fuel,
  (forall q n, nth_error l q = Some n -> nth_error (na_neurals b) (k + q) = Some n) -> k + length l = length (na_neurals b) ->
  length l < fuel -> r_neurals tnat nlayers (w_naut b) k fuel = Some l.
Proof.
  intros HW. induction l as [|n l IH]; intros k fuel H Hlen Hf; simpl in *.
  - destruct fuel as [|f]; [lia|]. simpl. rewrite Nat.add_0_r in Hlen. rewrite Hlen, kid_neural_end. reflexivity.
  - destruct fuel as [|f]; [lia|]. simpl.
    pose proof (H 0 n eq_refl) as H0. rewrite Nat.add_0_r in H0. rewrite (kid_neural_found b k n H0).
    rewrite Forall_forall in HW. rewrite (r_w_neural n (HW n (nth_error_In _ _ H0))).
    rewrite (IH (S k) f); auto; try lia. intros q m Hq. replace (S k + q) with (k + S q) by lia. now apply H.
Qed.

Lemma in_indexed_name {A V} (T : positive) (w : A -> V) : forall l j k' v, In (k', v) (indexed (fun i x => (NmI T i, w x)) j l) -> exists i, k' = NmI T i.
Proof.
  induction l as [|x l IH]; simpl; intros j k' v H; [contradiction|]. destruct H as [H|H]; [inversion H; eauto|eauto].
Qed.
Lemma indexed_length {A B} (f : nat -> A -> B) l : forall j, length (indexed f j l) = length l.
Proof. induction l; simpl; auto. Qed.
Theorem r_w_naut b : wf_naut b -> r_naut (w_naut b) = Some (persisted_naut b).
Proof.
  intros (HN & HU). unfold Codec2.r_naut.
  assert (A1 : attr (Nm T_ndim) (w_naut b) = Some (na_ndim b)) by reflexivity.
  assert (A2 : attr (Nm T_nneural) (w_naut b) = Some (na_nneural b)) by reflexivity.
  assert (A3 : attr (Nm T_nsample) (w_naut b) = Some (na_nsample b)) by reflexivity.
  assert (A4 : attr (Nm T_nreject) (w_naut b) = Some (na_nreject b)) by reflexivity.
  assert (A5 : dset (Nm T_points) (w_naut b) = Some (na_points b)) by reflexivity.
  assert (A6 : kid (Nm T_outer) (w_naut b) = Some (w_union (na_outer b))).
  { unfold kid. cbn [kids_of w_naut]. rewrite assoc_app_skip.
    - rewrite assoc_app_skip; [cbn [assoc]; now rewrite name_eqb_refl|].
      intros k' v Hin. apply in_indexed_name in Hin. destruct Hin as (i & ->). reflexivity.
    - destruct (na_shift b); simpl; intros k' v Hin; [destruct Hin as [Hin|[]]; inversion Hin; reflexivity|contradiction]. }
  assert (A7 : (match kid (Nm T_shift) (w_naut b) with Some ks => option_map Some (r_shift ks) | None => Some None end) = Some (na_shift b)).
  { unfold kid. cbn [kids_of w_naut]. destruct (na_shift b) as [[p c]|]; simpl; [reflexivity|].
    rewrite assoc_app_skip; [reflexivity|].
    intros k' v Hin. apply in_indexed_name in Hin. destruct Hin as (i & ->). reflexivity. }
  rewrite A1, A2, A3, A4, A5, A6, A7.
  rewrite (r_neurals_ok b HN (na_neurals b) 0); auto.
  - rewrite (C09_union_roundtrip any_cube all_cube alen (na_outer b) HU). reflexivity.
  - cbn [kids_of w_naut]. rewrite !app_length, indexed_length. simpl. lia.
Qed.

(* ---------------- incremental update = full write ---------------- *)
Lemma set_assoc_indexed_skip {A} (T : positive) (w : A -> tok) nm v tl : (forall i, name_eqb nm (NmI T i) = false) -> forall l j,
  set_assoc nm v (indexed (fun i x => (NmI T i, w x)) j l ++ tl) = indexed (fun i x => (NmI T i, w x)) j l ++ set_assoc nm v tl.
Proof.
  intros H. induction l as [|x l IH]; intros j; simpl; auto. rewrite H. now rewrite IH.
Qed.
Theorem update_union u0 u1 : same_static_union u0 u1 -> upd_union_grp (w_union u0) u1 = w_union u1.
Proof.
  destruct u0 as [n0 lv0 en0 nm0 ns0 nr0 c0 ms0 pb0 pt0 bk0], u1 as [n1 lv1 en1 nm1 ns1 nr1 c1 ms1 pb1 pt1 bk1].
  intros (E1 & E2 & E3 & E4 & E5 & E6 & E7); simpl in *; subst. unfold upd_union_grp, w_union. cbn [u_ndim u_logvall u_enl u_nmin u_nsample u_nreject u_cube u_members u_pbs u_points].
  f_equal. rewrite (set_assoc_indexed_skip T_pbound (fun p : tok => p)) by (intros; reflexivity). reflexivity.
Qed.
Lemma upd_kid_skip nm f (a b : list (name * h5)) : (forall k' v, In (k', v) a -> name_eqb nm k' = false) -> upd_kid nm f (a ++ b) = a ++ upd_kid nm f b.
Proof.
  induction a as [|[k v] a IH]; simpl; intros H; auto. rewrite (H k v) by auto. f_equal. apply IH. intros; eapply H; eauto.
Qed.
Theorem update_naut b0 b1 : same_static_naut b0 b1 -> upd_naut_grp (w_naut b0) b1 = w_naut b1.
Proof.
  destruct b0 as [n0 sh0 nn0 nb0 u0 p0 ns0 nr0], b1 as [n1 sh1 nn1 nb1 u1 p1 ns1 nr1].
  intros (E1 & E2 & E3 & E4 & E5); simpl in *; subst. unfold upd_naut_grp, w_naut. cbn [na_ndim na_shift na_nneural na_neurals na_outer na_points na_nsample na_nreject].
  f_equal. rewrite upd_kid_skip.
  - f_equal. rewrite upd_kid_skip.
    + cbn [upd_kid]. rewrite name_eqb_refl. now rewrite (update_union u0 u1 E5).
    + intros k' v Hin. apply in_indexed_name in Hin. destruct Hin as (i & ->). reflexivity.
  - destruct sh1; simpl; intros k' v Hin; [destruct Hin as [Hin|[]]; inversion Hin; reflexivity|contradiction].
Qed.
(* hence reading after an incremental update gives what reading a full write would give *)
Corollary read_update_naut b0 b1 : same_static_naut b0 b1 -> r_naut (upd_naut_grp (w_naut b0) b1) = r_naut (w_naut b1).
Proof. intros H. now rewrite update_naut. Qed.
End Naut.
