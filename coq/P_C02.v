(* Property C02: log_z, n_eff, eta and weights are exactly the estimators of the stored samples.
   Two layers: (1) invariants of the shell machine over all accepted traces (alignment of the per-shell arrays, kept
   fraction at most one in both views); (2) algebra over Q of the statistics as FUNCTIONS of the stored data: the
   per-shell formulas the code uses are the importance-sampling estimators over all samples (evidence = sum of
   per-sample terms, weights normalised to one, the per-shell n_eff combination IS Kish's formula over all samples). *)
From Coq Require Import List Arith QArith.
Import ListNotations.
Require Import NV.Base NV.Shell2 NV.Shell2Count NV.Shell2Thm NV.Estim NV.EstimExec NV.EstimRefine.

Section P.
Variable contains : bid -> pid -> bool.
Variable in_cube : pid -> bool.
Variable lik blob : pid -> vid.
Variable n_batch : nat.
Notation run := (run contains in_cube lik blob n_batch).

Theorem C02_aligned : forall evs s, run init evs = Some s ->
  Forall (fun sh => length (lls sh) = length (pts sh) /\ length (bls sh) = length (pts sh)) (shells s) /\
  length (t_lls s) = length (t_pts s) /\ length (t_bls s) = length (t_pts s).
Proof. exact (aligned contains in_cube lik blob n_batch). Qed.

(* in both views a shell never holds more samples than proposals were drawn in its bound: volume <= bound volume *)
Theorem C02_fraction : forall evs s, run init evs = Some s -> forall sh, In sh (shells s) -> (view_n s sh <= view_ns s sh)%nat.
Proof. exact (Shell2Count.C02_fraction contains in_cube lik blob n_batch). Qed.
End P.
Print Assumptions C02_aligned.
Print Assumptions C02_fraction.

Theorem C02_volume : forall s : Estim.shell, 0 <= Estim.bv s -> 0 < Estim.ns s -> n s <= Estim.ns s -> vol s <= Estim.bv s.
Proof. exact vol_le_bound. Qed.
Print Assumptions C02_volume.

(* evidence: sum over shells of volume x mean likelihood = sum over all samples of likelihood x per-sample volume *)
Theorem C02_evidence : forall ss, Forall (fun s => ~ n s == 0) ss -> Zall ss == qsum (Wall ss).
Proof. exact Zall_samples. Qed.
Print Assumptions C02_evidence.

(* posterior() weights: the per-sample terms normalised to one *)
Theorem C02_weights : forall ss, Forall (fun s => ~ n s == 0) ss -> ~ Zall ss == 0 -> qsum (map (fun w => w / Zall ss) (Wall ss)) == 1.
Proof. exact C02_norm. Qed.
Print Assumptions C02_weights.

(* n_eff: the code's (sum Z_i)^2 / sum (Z_i^2 / neff_i) is Kish's (sum w)^2 / sum w^2 over all samples *)
Theorem C02_kish : forall ss, Forall good ss ->
  sq (Zall ss) / qsum (map (fun s => sq (zsh s) / neff_sh s) ss) == sq (qsum (Wall ss)) / qsum (map sq (Wall ss)).
Proof. exact C02_neff. Qed.
Print Assumptions C02_kish.

(* refinement: the executable dyadic evaluator the harness runs on the stored samples (EstimExec) computes exactly these
   specification statistics: shell volume, shell evidence, per-shell n_eff, total evidence, and the denominator of n_eff *)
Theorem C02_exec_volume : forall s : EstimExec.shell, volQ s == vol (abs s).
Proof. exact volQ_refines. Qed.
Print Assumptions C02_exec_volume.
Theorem C02_exec_shell_evidence : forall s : EstimExec.shell, ~ nQ s == 0 -> ~ inject_Z (EstimExec.ns s) == 0 -> zQ s == zsh (abs s).
Proof. exact zQ_refines. Qed.
Print Assumptions C02_exec_shell_evidence.
Theorem C02_exec_shell_neff : forall s : EstimExec.shell, ~ dy_Q (s2 s) == 0 -> neffShQ s == neff_sh (abs s).
Proof. exact neffSh_refines. Qed.
Print Assumptions C02_exec_shell_neff.
Theorem C02_exec_evidence : forall ss, Forall (fun s => ~ nQ s == 0 -> ~ inject_Z (EstimExec.ns s) == 0) ss -> Ztot ss == Zall (map abs (filter nonempty ss)).
Proof. exact Ztot_refines. Qed.
Print Assumptions C02_exec_evidence.
Theorem C02_exec_neff : forall ss, Forall (fun s => ~ nQ s == 0 /\ ~ inject_Z (EstimExec.ns s) == 0 /\ ~ dy_Q (s1 s) == 0 /\ ~ dy_Q (s2 s) == 0) ss ->
  W2tot ss == qsum (map (fun s => sq (zsh s) / neff_sh s) (map abs (filter nonempty ss))).
Proof. exact neffQ_refines. Qed.
Print Assumptions C02_exec_neff.

(* non-vacuity: two shells with concrete numbers *)
Example C02_example :
  let ss := [mk 1 10 [1; 2; 3]; mk (1#2) 8 [4; 0]] in
  Forall good ss /\ Zall ss == 17#20 /\ qsum (map (fun w => w / Zall ss) (Wall ss)) == 1.
Proof. split; [repeat constructor; vm_compute; discriminate|]. split; vm_compute; reflexivity. Qed.
