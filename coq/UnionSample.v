(* Model of the bookkeeping of Union.sample (union.py 291-327) and NautilusBound.sample (nautilus.py 193-244) given the
   random draws: which proposals are accepted, the FIFO cache, the counters that define the reported volume.
   A proposal record carries what the implementation computed for it: its multiplicity (number of members containing
   it) and the uniform draw of the acceptance step.  Definitions only. *)
From Coq Require Import List Arith QArith Bool.
Import ListNotations.

Definition spid := positive.
Record prop := mkProp { pr_id : spid; pr_mult : nat; pr_u : Q }.
Record sstate := mkSS { s_cache : list spid; s_nsample : nat; s_nreject : nat }.

(* `points[rng.random(len) > 1 - 1/n_bound]` *)
Definition accepted (p : prop) : bool :=
  match pr_mult p with
  | O => false
  | m => if Qlt_le_dec (1 - 1 / inject_Z (Z.of_nat m)) (pr_u p) then true else false
  end.
(* one internal batch: `n` proposals were drawn in total (1000), `props` are those inside the cube, in shuffled order *)
Definition batch (n : nat) (props : list prop) (s : sstate) : sstate :=
  let acc := map pr_id (filter accepted props) in
  mkSS (s_cache s ++ acc) (s_nsample s + n) (s_nreject s + (n - length acc)).
(* `while len(self.points) < n_points: <batch>`, then hand out the first n_points of the cache *)
Fixpoint sample_go (n_points : nat) (batches : list (nat * list prop)) (s : sstate) : option sstate :=
  match batches with
  | [] => if Nat.ltb (length (s_cache s)) n_points then None else Some s
  | (n, props) :: r => if Nat.ltb (length (s_cache s)) n_points then sample_go n_points r (batch n props s) else None
  end.
Definition sample (n_points : nat) (batches : list (nat * list prop)) (s : sstate) : option (list spid * sstate) :=
  match sample_go n_points batches s with
  | Some s' => Some (firstn n_points (s_cache s'), mkSS (skipn n_points (s_cache s')) (s_nsample s') (s_nreject s'))
  | None => None
  end.
(* the reported volume: sum of member volumes times the accepted fraction *)
Definition vol_estimate (svol : Q) (s : sstate) : Q :=
  svol * (1 - inject_Z (Z.of_nat (s_nreject s)) / inject_Z (Z.of_nat (s_nsample s))).
(* pool path of NautilusBound.sample: the counters of the workers' copies are added to the parent's *)
Definition merge (s : sstate) (workers : list sstate) : sstate :=
  fold_left (fun a w => mkSS (s_cache a ++ s_cache w) (s_nsample a + s_nsample w) (s_nreject a + s_nreject w)) workers s.
