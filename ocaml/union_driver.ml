open Union
let rec pos_of_int n = if n <= 1 then XH else if n land 1 = 0 then XO (pos_of_int (n lsr 1)) else XI (pos_of_int (n lsr 1))
let rec int_of_pos = function XH -> 1 | XO p -> 2 * int_of_pos p | XI p -> 2 * int_of_pos p + 1
let rec nat_of_int n = if n <= 0 then O else S (nat_of_int (n - 1))
let z_of_int n = if n = 0 then Z0 else if n > 0 then Zpos (pos_of_int n) else Zneg (pos_of_int (-n))
let int_of_z = function Z0 -> 0 | Zpos p -> int_of_pos p | Zneg p -> - int_of_pos p
let words l = List.filter (fun s -> s <> "") (String.split_on_char ' ' l)
let dump u = Printf.printf "U bs=%s vols=%s blk=%s pbs=%s\n"
  (String.concat "," (List.map (fun b -> string_of_int (int_of_pos b)) u.bs))
  (String.concat "," (List.map (fun v -> string_of_int (int_of_z v)) u.vols))
  (String.concat "" (List.map (fun b -> if b then "1" else "0") u.blk))
  (String.concat "|" (List.map (fun l -> String.concat "," (List.map (fun p -> string_of_int (int_of_pos p)) l)) u.pbs))
let () =
  let ic = open_in Sys.argv.(1) in
  let st = ref None and nmin = ref O and ats = ref [] in
  (try while true do
    match words (input_line ic) with
    | "INIT" :: nm :: b :: v :: blk :: pts ->
      nmin := nat_of_int (int_of_string nm);
      st := Some { bs = [pos_of_int (int_of_string b)]; pbs = [List.map (fun s -> pos_of_int (int_of_string s)) pts];
                   vols = [z_of_int (int_of_string v)]; blk = [blk = "1"] }; print_endline "INIT"
    | ["AB"; i] -> ats := ABlocked (nat_of_int (int_of_string i)) :: !ats
    | ["AR"; i] -> ats := ARefused (nat_of_int (int_of_string i)) :: !ats
    | "AS" :: i :: b0 :: b1 :: v0 :: v1 :: [labels] ->
      ats := ASuccess (nat_of_int (int_of_string i), List.init (String.length labels) (fun k -> labels.[k] = '1'),
                       pos_of_int (int_of_string b0), pos_of_int (int_of_string b1), z_of_int (int_of_string v0), z_of_int (int_of_string v1)) :: !ats
    | "AS" :: i :: b0 :: b1 :: v0 :: v1 :: [] -> ats := ASuccess (nat_of_int (int_of_string i), [], pos_of_int (int_of_string b0), pos_of_int (int_of_string b1), z_of_int (int_of_string v0), z_of_int (int_of_string v1)) :: !ats
    | ["SPLIT"; allow] | ["TRIM"; allow] as w ->
      let op = if List.hd w = "SPLIT" then Split (allow = "1", List.rev !ats) else Trim (if allow = "-1" then None else Some (nat_of_int (int_of_string allow))) in
      ats := [];
      (match !st with
       | None -> print_endline "DEAD"
       | Some u -> (match ustep !nmin u op with
          | Some (u', r) -> st := Some u'; Printf.printf "RET %b " r; dump u'
          | None -> st := None; print_endline "REJECT"))
    | _ -> ()
  done with End_of_file -> ())
