open Union
(* Replays union operation sequences through the extracted model (Union2.ustep) and prints the records after each.
   Volumes are exact dyadic rationals written m:e (m * 2^e). *)
let rec pos_of_int n = if n <= 1 then XH else if n land 1 = 0 then XO (pos_of_int (n lsr 1)) else XI (pos_of_int (n lsr 1))
let rec int_of_pos = function XH -> 1 | XO p -> 2 * int_of_pos p | XI p -> 2 * int_of_pos p + 1
let rec nat_of_int n = if n <= 0 then O else S (nat_of_int (n - 1))
let rec shift_pos p k = if k <= 0 then p else shift_pos (XO p) (k - 1)
let q_of_dy s = match String.split_on_char ':' s with
  | [m; e] -> let m = int_of_string m and e = int_of_string e in
    if m = 0 then { qnum = Z0; qden = XH }
    else if e >= 0 then { qnum = Zpos (shift_pos (pos_of_int m) e); qden = XH }
    else { qnum = Zpos (pos_of_int m); qden = shift_pos XH (-e) }
  | _ -> failwith "dyadic"
let rec bits p acc = match p with XH -> "1" ^ acc | XO q -> bits q ("0" ^ acc) | XI q -> bits q ("1" ^ acc)
let str_q q = (match q.qnum with Z0 -> "0" | Zpos p -> bits p "" | Zneg p -> "-" ^ bits p "") ^ "/" ^ bits q.qden ""
let words l = List.filter (fun s -> s <> "") (String.split_on_char ' ' l)
let dump u = Printf.printf "U bs=%s vols=%s blk=%s pbs=%s\n"
  (String.concat "," (List.map (fun b -> string_of_int (int_of_pos b)) u.bs))
  (String.concat "," (List.map str_q u.vols))
  (String.concat "" (List.map (fun b -> if b then "1" else "0") u.blk))
  (String.concat "|" (List.map (fun l -> String.concat "," (List.map (fun p -> string_of_int (int_of_pos p)) l)) u.pbs))
let () =
  let ic = open_in Sys.argv.(1) in
  let st = ref None and nmin = ref O and ats = ref [] in
  let apply op =
    ats := [];
    (match !st with
     | None -> print_endline "DEAD"
     | Some u -> (match ustep !nmin u op with
        | Some (u', r) -> st := Some u'; Printf.printf "RET %b " r; dump u'
        | None -> st := None; print_endline "REJECT")) in
  (try while true do
    match words (input_line ic) with
    | "INIT" :: nm :: b :: v :: pts ->
      nmin := nat_of_int (int_of_string nm);
      st := Some (uinit !nmin (pos_of_int (int_of_string b)) (List.map (fun s -> pos_of_int (int_of_string s)) pts) (q_of_dy v));
      (match !st with Some u -> print_string "INIT "; dump u | None -> ())
    | ["AB"; i] -> ats := ABlocked (nat_of_int (int_of_string i)) :: !ats
    | ["AR"; i] -> ats := ARefused (nat_of_int (int_of_string i)) :: !ats
    | "AS" :: i :: b0 :: b1 :: v0 :: v1 :: rest ->
      let labels = match rest with [l] -> List.init (String.length l) (fun k -> l.[k] = '1') | _ -> [] in
      ats := ASuccess (nat_of_int (int_of_string i), labels, pos_of_int (int_of_string b0), pos_of_int (int_of_string b1), q_of_dy v0, q_of_dy v1) :: !ats
    | ["SPLIT"; allow] -> apply (Split (allow = "1", List.rev !ats))
    | ["TRIM"; d] -> apply (Trim (if d = "-1" then None else Some (nat_of_int (int_of_string d))))
    | ["SAMPLE"] -> apply Sample
    | _ -> ()
  done with End_of_file -> ())
