open Shell
let rec pos_of_int n = if n <= 1 then XH else if n land 1 = 0 then XO (pos_of_int (n lsr 1)) else XI (pos_of_int (n lsr 1))
let rec int_of_pos = function XH -> 1 | XO p -> 2 * int_of_pos p | XI p -> 2 * int_of_pos p + 1
let rec nat_of_int n = if n <= 0 then O else S (nat_of_int (n - 1))
let rec int_of_nat = function O -> 0 | S n -> 1 + int_of_nat n
let words l = List.filter (fun s -> s <> "") (String.split_on_char ' ' l)
let ints ws = List.map int_of_string ws
let rec take n l = if n = 0 then ([], l) else match l with x :: r -> let (a, b) = take (n - 1) r in (x :: a, b) | [] -> failwith "take"
let () =
  let ic = open_in Sys.argv.(1) in
  let tbl = ref t_empty and nb = ref O and st = ref (Some init) and k = ref 0 in
  let pending_as = ref None in
  let apply ev = incr k; match !st with
    | None -> ()
    | Some s -> (match step_t !tbl !nb s ev with
        | Some s' -> st := Some s'
        | None -> st := None; Printf.printf "REJECT at event %d\n" !k) in
  (try while true do
    let l = input_line ic in
    match words l with
    | "N" :: [n] -> nb := nat_of_int (int_of_string n)
    | "P" :: p :: c :: lk :: bl :: [row] ->
        let r = List.init (String.length row) (fun i -> row.[i] = '1') in
        tbl := t_add (pos_of_int (int_of_string p)) (((r, c = "1"), pos_of_int (int_of_string lk)), pos_of_int (int_of_string bl)) !tbl
    | "P" :: p :: c :: lk :: bl :: [] ->
        tbl := t_add (pos_of_int (int_of_string p)) ((([], c = "1"), pos_of_int (int_of_string lk)), pos_of_int (int_of_string bl)) !tbl
    | "AB" :: [b] -> apply (EvAddBoundOk (pos_of_int (int_of_string b)))
    | ["ABF"] -> apply EvAddBoundFail
    | "EE" :: [d] -> apply (EvEndExploration (d = "1"))
    | "SD" :: [d] -> apply (EvSetDiscard (d = "1"))
    | "AS" :: [idx] -> pending_as := Some ((if idx = "-1" then None else Some (nat_of_int (int_of_string idx))), [])
    | "R" :: rest ->
        let xs = ints rest in
        let np = List.hd xs in let (props, r1) = take np (List.tl xs) in
        let nr = List.hd r1 in let (repl, r2) = take nr (List.tl r1) in
        let nu = List.hd r2 in let (used, _) = take nu (List.tl r2) in
        let rd = { r_props = List.map pos_of_int props; r_replaced = List.map pos_of_int repl; r_used = List.map nat_of_int used } in
        (match !pending_as with Some (i, rs) -> pending_as := Some (i, rd :: rs) | None -> failwith "R without AS")
    | "V" :: rest ->
        let xs = ints rest in
        let rec pairs = function a :: b :: r -> (pos_of_int a, pos_of_int b) :: pairs r | _ -> [] in
        (match !pending_as with Some (i, rs) -> apply (EvAddSamples (i, List.rev rs, pairs xs)); pending_as := None | None -> failwith "V without AS")
    | ["X"] ->
        (match !st with
         | None -> print_endline "STATE none"
         | Some s ->
           let cat l = String.concat "," (List.map (fun p -> string_of_int (int_of_pos p)) l) in
           List.iter (fun sh -> Printf.printf "SH %d ns=%d nse=%d ee=%d pts=%s lls=%s bls=%s\n" (int_of_pos sh.bnd) (int_of_nat sh.nsample) (int_of_nat sh.nsample_exp) (int_of_nat sh.end_exp)
             (cat sh.pts) (cat sh.lls) (cat sh.bls)) s.shells;
           Printf.printf "NLIKE %d EXPLORED %b\n" (int_of_nat s.n_like) s.explored)
    | _ -> ()
  done with End_of_file -> ());
  Printf.printf "DONE events=%d accepted=%b\n" !k (!st <> None)
