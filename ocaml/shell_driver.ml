open Shell
(* Replays a traced sampler run through the extracted shell machine (Shell2.step with table-backed oracles).
   Input, one item per line:
     N <n_batch>
     P <pid> <in_cube 0/1> <lik vid> <blob vid> <contains row as 0/1 string, one char per bound id>
     AB <bid> | ABF | EE <0/1> | SD <0/1>
     AS <idx or -1>   followed by   R <np> props.. <nr> replaced.. <nu> used..   (one per round)   and   V lik blob lik blob ...
     X       dump the model state
   Output: REJECT lines and state dumps. *)
let rec pos_of_int n = if n <= 1 then XH else if n land 1 = 0 then XO (pos_of_int (n lsr 1)) else XI (pos_of_int (n lsr 1))
let rec int_of_pos = function XH -> 1 | XO p -> 2 * int_of_pos p | XI p -> 2 * int_of_pos p + 1
let rec nat_of_int n = if n <= 0 then O else S (nat_of_int (n - 1))
let int_of_nat n = let rec go acc = function O -> acc | S m -> go (acc + 1) m in go 0 n
let words l = List.filter (fun s -> s <> "") (String.split_on_char ' ' l)
let ints ws = List.map int_of_string ws
let rec take n l = if n = 0 then ([], l) else match l with x :: r -> let (a, b) = take (n - 1) r in (x :: a, b) | [] -> failwith "take"
let cat l = String.concat "," (List.map (fun p -> string_of_int (int_of_pos p)) l)
let () =
  let ic = open_in Sys.argv.(1) in
  let tbl = ref t_empty and nb = ref O and st = ref (Some init) and k = ref 0 in
  (* control layer (thresholds, counters, trigger): a second state stepped in parallel; absent unless a CC line is given *)
  let vt = ref v_empty and ni = ref XH and cc = ref None and cst = ref (Some cinit) and trig_pending = ref false in
  let z_of_int n = if n = 0 then Z0 else if n > 0 then Zpos (pos_of_int n) else Zneg (pos_of_int (-n)) in
  let int_of_z = function Z0 -> 0 | Zpos p -> int_of_pos p | Zneg p -> - int_of_pos p in
  let pending_as = ref None in
  (* run() call structure: RUN .. IT .. ENDRUN *)
  let in_run = ref false and rc = ref { rc_lim = None; rc_nshell = O; rc_discard = false } and s0 = ref None in
  let first = ref [] and its = ref [] and cur = ref None in
  let record ev = if !in_run then (match !cur with
      | None -> first := ev :: !first
      | Some (t, n, fl, evs) -> cur := Some (t, n, fl, ev :: evs)) in
  let close_it () = (match !cur with Some (t, n, fl, evs) -> its := ({ i_timeout = t; i_neff = n; i_events = List.rev evs }, fl) :: !its | None -> ()); cur := None in
  let capply ev = match !cc, !cst with
    | Some c, Some cs ->
        if !trig_pending then (trig_pending := false; if not (trig_ok_t c cs [ev]) then Printf.printf "TRIGBAD at event %d\n" !k);
        (match cstep_t !tbl !vt !ni c !nb cs ev with
         | Some cs' -> cst := Some cs'
         | None -> cst := None; Printf.printf "CTLREJECT at event %d\n" !k)
    | _, _ -> () in
  let apply ev = incr k; record ev; capply ev; match !st with
    | None -> ()
    | Some s -> (match step_t !tbl !nb s ev with
        | Some s' -> st := Some s'
        | None -> st := None; Printf.printf "REJECT at event %d\n" !k) in
  (try while true do
    let l = input_line ic in
    match words l with
    | "N" :: [n] -> nb := nat_of_int (int_of_string n)
    | "P" :: p :: c :: lk :: bl :: rest ->
        let row = match rest with [r] -> r | _ -> "" in
        let r = List.init (String.length row) (fun i -> row.[i] = '1') in
        tbl := t_add (pos_of_int (int_of_string p)) (((r, c = "1"), pos_of_int (int_of_string lk)), pos_of_int (int_of_string bl)) !tbl
    | "AB" :: [b] -> apply (EvAddBoundOk (pos_of_int (int_of_string b)))
    | ["ABF"] -> apply EvAddBoundFail
    | "EE" :: [d] -> apply (EvEndExploration (d = "1"))
    | "SD" :: [d] -> apply (EvSetDiscard (d = "1"))
    | "AS" :: [idx] -> pending_as := Some ((if idx = "-1" then None else Some (nat_of_int (int_of_string idx))), [])
    | "R" :: rest ->
        let xs = ints rest in
        let np = List.hd xs in let (props, r1) = take np (List.tl xs) in
        let nr = List.hd r1 in let (repl, r2) = take nr (List.tl r1) in
        let nu = List.hd r2 in let (used, _) = take nu (List.tl r2) in
        let rd = { r_props = List.map pos_of_int props; r_replaced = List.map pos_of_int repl; r_used = List.map nat_of_int used } in
        (match !pending_as with Some (i, rs) -> pending_as := Some (i, rd :: rs) | None -> failwith "R without AS")
    | "V" :: rest ->
        let xs = ints rest in
        let rec pairs = function a :: b :: r -> (pos_of_int a, pos_of_int b) :: pairs r | _ -> [] in
        (match !pending_as with Some (i, rs) -> apply (EvAddSamples (i, List.rev rs, pairs xs)); pending_as := None | None -> failwith "V without AS")
    | ["RUN"; lim; nsh; disc] ->
        in_run := true; s0 := !st; first := []; its := []; cur := None;
        rc := { rc_lim = (if lim = "-1" then None else Some (nat_of_int (int_of_string lim))); rc_nshell = nat_of_int (int_of_string nsh); rc_discard = (disc = "1") }
    | ["IT"; t; n] -> close_it (); cur := Some (t = "1", n = "1", false, []); trig_pending := true
    (* verdict of the stopping rule f_live <= target after the exploration batch of the current iteration *)
    | ["FL"; b] -> (match !cur with Some (t, n, _, evs) -> cur := Some (t, n, b = "1", evs) | None -> ())
    | ["CC"; a; b; c; e] -> cc := Some { cc_nlive = nat_of_int (int_of_string a); cc_nupdate = z_of_int (int_of_string b); cc_nlikenew = nat_of_int (int_of_string c); cc_npmin = nat_of_int (int_of_string e) }
    | ["VR"; v; r] -> vt := v_add (pos_of_int (int_of_string v)) (z_of_int (int_of_string r)) !vt
    | ["NI"; v] -> ni := pos_of_int (int_of_string v)
    | ["ENDRUN"; ft; fn; ret] ->
        close_it (); in_run := false;
        (match !s0 with
         | None -> print_endline "RUNBAD no-state"
         | Some s -> (match run_call_fl_t !tbl !nb !rc (List.rev !first) (List.rev !its) (ft = "1") (fn = "1") s with
            | None -> Printf.printf "RUNBAD rejected iterations=%d\n" (List.length !its)
            | Some (s', r) ->
              if r <> (ret = "1") then Printf.printf "RUNBAD return model=%b implementation=%s\n" r ret
              else if Some s' <> !st then print_endline "RUNBAD state"
              else Printf.printf "RUNOK iterations=%d ret=%b\n" (List.length !its) r))
    | ["X"] ->
        (match !st with
         | None -> print_endline "STATE none"
         | Some s ->
           List.iter (fun sh -> Printf.printf "SH %d ns=%d nse=%d ee=%d pts=%s lls=%s bls=%s\n" (int_of_pos sh.bnd) (int_of_nat sh.nsample) (int_of_nat sh.nsample_exp) (int_of_nat sh.end_exp)
             (cat sh.pts) (cat sh.lls) (cat sh.bls)) s.shells;
           Printf.printf "T pts=%s lls=%s bls=%s from=%s\n" (cat s.t_pts) (cat s.t_lls) (cat s.t_bls)
             (String.concat "," (List.map (function None -> "-1" | Some n -> string_of_int (int_of_nat n)) s.t_from));
           Printf.printf "ST nlike=%d explored=%b discard=%b\n" (int_of_nat s.n_like) s.explored s.discard;
           (match !cc, !cst with
            | Some _, Some cs -> Printf.printf "CT nui=%d nli=%d lmin=%s\n" (int_of_z cs.nui) (int_of_nat cs.nli)
                                   (String.concat "," (List.map (fun v -> string_of_int (int_of_z (v_rank !vt v))) cs.lmins))
            | Some _, None -> print_endline "CT none"
            | None, _ -> ()));
        print_endline "END"
    | _ -> ()
  done with End_of_file -> ());
  Printf.printf "DONE events=%d accepted=%b\n" !k (!st <> None)
