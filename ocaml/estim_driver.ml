open Estim
let rec pos_of_int n = if n <= 1 then XH else if n land 1 = 0 then XO (pos_of_int (n lsr 1)) else XI (pos_of_int (n lsr 1))
let z_of_int n = if n = 0 then Z0 else if n > 0 then Zpos (pos_of_int n) else Zneg (pos_of_int (-n))
let rec bits_of_pos p acc = match p with XH -> "1" ^ acc | XO q -> bits_of_pos q ("0" ^ acc) | XI q -> bits_of_pos q ("1" ^ acc)
let str_z = function Z0 -> "0" | Zpos p -> bits_of_pos p "" | Zneg p -> "-" ^ bits_of_pos p ""
let str_q q = str_z q.qnum ^ "/" ^ bits_of_pos q.qden ""
let () =
  let ic = open_in Sys.argv.(1) in
  let shells = ref [] in
  (try while true do
    match List.filter (fun s -> s <> "") (String.split_on_char ' ' (input_line ic)) with
    | "SH" :: bvm :: bve :: nsv :: rest ->
      let rec pairs = function a :: b :: r -> { dm = z_of_int (int_of_string a); de = z_of_int (int_of_string b) } :: pairs r | _ -> [] in
      shells := { bv = { dm = z_of_int (int_of_string bvm); de = z_of_int (int_of_string bve) }; ns = z_of_int (int_of_string nsv); ls = pairs rest } :: !shells
    | ["EVAL"] ->
      let ss = List.rev !shells in
      Printf.printf "Z %s\nNEFF %s\n" (str_q (ztot ss)) (str_q (neffQ ss));
      List.iter (fun s -> Printf.printf "V %s\nZS %s\nNE %s\n" (str_q (volQ s)) (str_q (zQ s)) (str_q (neffShQ s))) ss; print_endline "END"; shells := []
    | _ -> ()
  done with End_of_file -> ())
