open Prior
(* Reads declarations / queries, one per line, and prints the model's outcome and state after each.
   isf oracle: uniform(lo,hi) exactly (lo + (hi-lo)*(1-q)); any other distribution d is kept symbolic as
   1000*d + q so that the harness can see which coordinate went through which distribution. *)
let rec pos_of_int n = if n <= 1 then XH else if n land 1 = 0 then XO (pos_of_int (n lsr 1)) else XI (pos_of_int (n lsr 1))
let rec int_of_pos = function XH -> 1 | XO p -> 2 * int_of_pos p | XI p -> 2 * int_of_pos p + 1
let rec nat_of_int n = if n <= 0 then O else S (nat_of_int (n - 1))
let rec int_of_nat = function O -> 0 | S n -> 1 + int_of_nat n
let z_of_int n = if n = 0 then Z0 else if n > 0 then Zpos (pos_of_int n) else Zneg (pos_of_int (-n))
let int_of_z = function Z0 -> 0 | Zpos p -> int_of_pos p | Zneg p -> - int_of_pos p
let q_of_int n = { qnum = z_of_int n; qden = XH }
let q_of_str s = match String.split_on_char '/' s with
  | [a; b] -> { qnum = z_of_int (int_of_string a); qden = pos_of_int (int_of_string b) }
  | _ -> q_of_int (int_of_string s)
let str_q q = let q = qred q in Printf.sprintf "%d/%d" (int_of_z q.qnum) (int_of_pos q.qden)
let kid_of s = if s.[0] = 'A' then Auto (nat_of_int (int_of_string (String.sub s 1 (String.length s - 1)))) else Named (pos_of_int (int_of_string (String.sub s 1 (String.length s - 1))))
let str_kid = function Auto n -> "A" ^ string_of_int (int_of_nat n) | Named p -> "S" ^ string_of_int (int_of_pos p)
let str_free = function FUniform (lo, hi) -> Printf.sprintf "U(%s,%s)" (str_q lo) (str_q hi) | FDist d -> Printf.sprintf "D(%d)" (int_of_pos d)
let str_dist = function DFree f -> str_free f | DFixed v -> Printf.sprintf "F(%s)" (str_q v) | DLink k -> "L(" ^ str_kid k ^ ")"
let show tag p = Printf.printf "%s keys=[%s] dists=[%s] dim=%d\n" tag (String.concat "," (List.map str_kid p.keys)) (String.concat "," (List.map str_dist p.dists)) (int_of_nat (dimensionality p))
let parse_key = function "N" -> KNone | "B" -> KBad | s -> KStr (kid_of s)
let parse_dist ws = match ws with
  | ["U"; a; b] -> RFree (FUniform (q_of_str a, q_of_str b))
  | ["D"; d] -> RFree (FDist (pos_of_int (int_of_string d)))
  | ["F"; v] -> RFixed (q_of_str v)
  | ["L"; k] -> RLink (kid_of k)
  | _ -> RBad
let isf f q = match f with
  | FUniform (lo, hi) -> qplus lo (qmult (qminus hi lo) (qminus (q_of_int 1) q))
  | FDist d -> qplus (q_of_int (1000 * int_of_pos d)) q
let err_name = function TypeErr -> "TypeError" | ValueErr -> "ValueError" | IndexErr -> "OTHER:IndexError"
let () =
  let asis = Sys.argv.(1) = "asis" in
  let ic = if Array.length Sys.argv > 2 then open_in Sys.argv.(2) else stdin in
  let p = ref empty in
  (try while true do
    let l = input_line ic in
    match List.filter (fun s -> s <> "") (String.split_on_char ' ' l) with
    | ["RESET"] -> p := empty; print_endline "RESET"
    | "U2P" :: us ->
      (match unit_to_physical isf !p (List.map q_of_str us) with
       | Some ph -> Printf.printf "PHYS %s\n" (String.concat " " (List.map str_q ph))
       | None -> print_endline "PHYS ValueError")
    | "U2D" :: us ->
      (match unit_to_dictionary isf !p (List.map q_of_str us) with
       | Some d -> Printf.printf "DICT %s\n" (String.concat " " (List.map (fun (k, v) -> str_kid k ^ "=" ^ str_q v) d))
       | None -> print_endline "DICT ValueError")
    | k :: d ->
      let rk = parse_key k and rd = parse_dist d in
      (match (if asis then add_asis !p rk rd else add_parameter !p rk rd) with
        | Ok p' -> p := p'; show "OK" p'
        | Err (p', e) -> p := p'; show (err_name e) p')
    | [] -> ()
  done with End_of_file -> ())
