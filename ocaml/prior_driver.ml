open Prior
let rec pos_of_int n = if n <= 1 then XH else if n land 1 = 0 then XO (pos_of_int (n lsr 1)) else XI (pos_of_int (n lsr 1))
let rec int_of_pos = function XH -> 1 | XO p -> 2 * int_of_pos p | XI p -> 2 * int_of_pos p + 1
let rec nat_of_int n = if n <= 0 then O else S (nat_of_int (n - 1))
let rec int_of_nat = function O -> 0 | S n -> 1 + int_of_nat n
let z_of_int n = if n = 0 then Z0 else if n > 0 then Zpos (pos_of_int n) else Zneg (pos_of_int (-n))
let int_of_z = function Z0 -> 0 | Zpos p -> int_of_pos p | Zneg p -> - int_of_pos p
let q_of_int n = { qnum = z_of_int n; qden = XH }
let kid_of s = if s.[0] = 'A' then Auto (nat_of_int (int_of_string (String.sub s 1 (String.length s - 1)))) else Named (pos_of_int (int_of_string (String.sub s 1 (String.length s - 1))))
let str_kid = function Auto n -> "A" ^ string_of_int (int_of_nat n) | Named p -> "S" ^ string_of_int (int_of_pos p)
let str_free = function FUniform (lo, hi) -> Printf.sprintf "U(%d,%d)" (int_of_z lo.qnum) (int_of_z hi.qnum) | FDist d -> Printf.sprintf "D(%d)" (int_of_pos d)
let str_dist = function DFree f -> str_free f | DFixed v -> Printf.sprintf "F(%d)" (int_of_z v.qnum) | DLink k -> "L(" ^ str_kid k ^ ")"
let show tag p = Printf.printf "%s keys=[%s] dists=[%s] dim=%d\n" tag (String.concat "," (List.map str_kid p.keys)) (String.concat "," (List.map str_dist p.dists)) (int_of_nat (dimensionality p))
let parse_key = function "N" -> KNone | "B" -> KBad | s -> KStr (kid_of s)
let parse_dist ws = match ws with
  | ["U"; a; b] -> RFree (FUniform (q_of_int (int_of_string a), q_of_int (int_of_string b)))
  | ["D"; d] -> RFree (FDist (pos_of_int (int_of_string d)))
  | ["F"; v] -> RFixed (q_of_int (int_of_string v))
  | ["L"; k] -> RLink (kid_of k)
  | _ -> RBad
let () =
  let asis = Sys.argv.(1) = "asis" in
  let ic = open_in Sys.argv.(2) in
  let p = ref empty in
  (try while true do
    let l = input_line ic in
    match List.filter (fun s -> s <> "") (String.split_on_char ' ' l) with
    | ["RESET"] -> p := empty; print_endline "RESET"
    | k :: d ->
      let rk = parse_key k and rd = parse_dist d in
      if asis then (match add_asis !p rk rd with
        | Ok2 p' -> p := p'; show "OK" p'
        | Err2 (p', TypeErr) -> p := p'; show "TypeError" p'
        | Err2 (p', ValueErr) -> p := p'; show "ValueError" p'
        | Err2 (p', IndexErr) -> p := p'; show "OTHER:IndexError" p')
      else (match add_parameter !p rk rd with
        | Ok p' -> p := p'; show "OK" p'
        | Err TypeErr -> show "TypeError" !p
        | Err ValueErr -> show "ValueError" !p
        | Err IndexErr -> show "OTHER:IndexError" !p)
    | [] -> ()
  done with End_of_file -> ())
