open Crash
let path = function "P" -> P | _ -> T
let () =
  let ic = open_in Sys.argv.(1) in
  let ops = ref [] in
  (try while true do
    match List.filter (fun s -> s <> "") (String.split_on_char ' ' (input_line ic)) with
    | ["creat"; p] -> ops := Creat (path p) :: !ops
    | ["creatx"; p] -> ops := CreatExcl (path p) :: !ops
    | ["openrw"; p] -> ops := OpenRW (path p) :: !ops
    | ["write"; p] -> ops := Write (path p, O) :: !ops
    | ["close"; p] -> ops := Close (path p) :: !ops
    | ["unlink"; p] -> ops := Unlink (path p) :: !ops
    | ["rename"; a; b] -> ops := Rename (path a, path b) :: !ops
    | ["copy"] -> ops := CopyPT :: !ops
    | _ -> ()
  done with End_of_file -> ());
  Printf.printf "ops=%d atomic=%b\n" (List.length !ops) (atomic_trace (List.rev !ops))
