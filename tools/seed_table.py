#!/usr/bin/env python3
"""Fills the seeded-change table of DESIGN.md (between the markers) from seeded/*/meta.json and seeded/detection.json."""
import json, os, glob
V = os.path.dirname(os.path.dirname(os.path.abspath(__file__)))
det = json.load(open(os.path.join(V, 'seeded', 'detection.json'))) if os.path.exists(os.path.join(V, 'seeded', 'detection.json')) else {}
rows = ['| seeded change | property | needs, in order to manifest | confirmed | caught by (quick tier) |', '|---|---|---|---|---|']
for p in sorted(glob.glob(os.path.join(V, 'seeded', '*', 'meta.json'))):
    m = json.load(open(p))
    d = det.get(m['name'], {})
    caught = '; '.join('%s: %s' % (k, ('direct' if v['with_failing_input'] else 'tie') if v['detected'] else 'MISSED') for k, v in sorted(d.items())) or 'not yet run'
    rows.append('| %s | %s | %s | %s | %s |' % (m['name'], m['property'], m['needs_to_manifest'], 'yes' if m['confirmed'] else 'NO', caught))
s = open(os.path.join(V, 'DESIGN.md')).read()
B, E = '<!-- seed table begin -->', '<!-- seed table end -->'
block = B + '\n' + '\n'.join(rows) + '\n' + E
if 'SEED_TABLE_PLACEHOLDER' in s:
    s = s.replace('SEED_TABLE_PLACEHOLDER', block)
else:
    i, j = s.index(B), s.index(E) + len(E)
    s = s[:i] + block + s[j:]
open(os.path.join(V, 'DESIGN.md'), 'w').write(s)
print(len(rows) - 2, 'rows')
