#!/usr/bin/env python3
"""Confirm a seeded change: in a fresh scratch worktree of /repo apply the patch, run the demonstration with and
without it, run the pinned test suite with it, store everything under /verif/seeded/<name>/ and remove the worktree.
usage: seed_confirm.py <name> <property> <patch.diff> <demo.py> "<what it needs to manifest>" [--tests "<pytest args>"]"""
import json, os, shutil, subprocess, sys, time
name, prop, patch, demo, needs = sys.argv[1:6]
tests = sys.argv[sys.argv.index('--tests') + 1] if '--tests' in sys.argv else ''
wt = '/tmp/confirm_' + name
out = '/verif/seeded/' + name
os.makedirs(out, exist_ok=True)
def sh(cmd, cwd=None, env=None, timeout=3600):
    p = subprocess.run(cmd, shell=True, cwd=cwd, env=env, stdout=subprocess.PIPE, stderr=subprocess.STDOUT, text=True, timeout=timeout)
    return p.returncode, p.stdout
subprocess.run('git -C /repo worktree remove --force %s' % wt, shell=True, stderr=subprocess.DEVNULL)
rc, o = sh('git -C /repo worktree add -f %s HEAD' % wt); assert rc == 0, o
try:
    rc, o = sh('git apply %s' % os.path.abspath(patch), cwd=wt); assert rc == 0, o
    dd = '/tmp/confirm_demo_' + name
    os.makedirs(dd, exist_ok=True)
    shutil.copy(demo, os.path.join(dd, 'demo_seed.py'))
    env = dict(os.environ, PYTHONPATH=wt, PYTHONHASHSEED='0', OMP_NUM_THREADS='1')
    rc_with, o_with = sh('/venv/bin/python demo_seed.py', cwd=dd, env=env)
    env0 = dict(env, PYTHONPATH='/repo')
    rc_without, o_without = sh('/venv/bin/python demo_seed.py', cwd=dd, env=env0)
    t0 = time.time()
    rc_t, o_t = sh('/venv/bin/python -m pytest -q -p no:cacheprovider --timeout=900 -x %s 2>&1 | tail -5' % tests, cwd=wt, env=env, timeout=5400)
    meta = dict(name=name, property=prop, needs_to_manifest=needs,
                ran=dict(demo_with_change=dict(rc=rc_with, tail=o_with[-600:]), demo_without_change=dict(rc=rc_without, tail=o_without[-300:]),
                         test_suite_with_change=dict(cmd='pytest -q -x ' + tests, tail=o_t[-400:], seconds=round(time.time() - t0))),
                confirmed=bool(rc_with != 0 and rc_without == 0 and ' passed' in o_t and ' failed' not in o_t and 'error' not in o_t.lower().split('passed')[-1][:0]))
    shutil.copy(patch, os.path.join(out, 'patch.diff'))
    shutil.copy(demo, os.path.join(out, 'demo.py'))
    json.dump(meta, open(os.path.join(out, 'meta.json'), 'w'), indent=1)
    print(name, 'demo with change rc=%d, without rc=%d, tests: %s' % (rc_with, rc_without, o_t.strip().split('\n')[-1]), 'CONFIRMED' if meta['confirmed'] else 'NOT CONFIRMED')
finally:
    subprocess.run('git -C /repo worktree remove --force %s' % wt, shell=True)
    shutil.rmtree('/tmp/confirm_demo_' + name, ignore_errors=True)
