#!/usr/bin/env python3
"""False-alarm probes: apply each behaviour-preserving rewrite stored under /verif/harmless/<name>/patch.diff to a scratch
worktree of /repo (selected through VERIF_REPO) and run the quick checks named in its meta.json (default: all sixteen).
Every check must stay silent (exit 0, no VIOLATION line).  Results go to harmless/results.json.
usage: run_harmless.py [name ...]"""
import glob
import json
import os
import subprocess
import sys

def run_check(cmd, cwd, env, timeout):
    """run a check in its own process group; on timeout kill the whole group (pool workers included)"""
    import signal
    p = subprocess.Popen(cmd, cwd=cwd, env=env, stdout=subprocess.PIPE, stderr=subprocess.STDOUT, text=True, start_new_session=True)
    try:
        out, _ = p.communicate(timeout=timeout)
    except subprocess.TimeoutExpired:
        try:
            os.killpg(p.pid, signal.SIGKILL)
        except OSError:
            pass
        p.communicate()
        raise
    return subprocess.CompletedProcess(cmd, p.returncode, out, None)


V = os.path.dirname(os.path.dirname(os.path.abspath(__file__)))
ALL = ['C%02d' % i for i in range(1, 17)]
names = sys.argv[1:] or sorted(os.path.basename(os.path.dirname(p)) for p in glob.glob(os.path.join(V, 'harmless', '*', 'patch.diff')))
resp = os.path.join(V, 'harmless', 'results.json')
res = json.load(open(resp)) if os.path.exists(resp) else {}
for name in names:
    d = os.path.join(V, 'harmless', name)
    meta = json.load(open(os.path.join(d, 'meta.json'))) if os.path.exists(os.path.join(d, 'meta.json')) else {}
    wt = '/tmp/harmless_' + name
    subprocess.run('git -C /repo worktree remove --force %s' % wt, shell=True, stderr=subprocess.DEVNULL)
    subprocess.run('git -C /repo worktree add -f %s HEAD' % wt, shell=True, stdout=subprocess.DEVNULL, stderr=subprocess.DEVNULL)
    try:
        r = subprocess.run('git apply %s' % os.path.join(d, 'patch.diff'), shell=True, cwd=wt)
        assert r.returncode == 0, 'patch does not apply'
        env = dict(os.environ, VERIF_REPO=wt)
        for prop in meta.get('checks', ALL):
            p = run_check(['./check', prop, '--tier', 'quick', '--no-build'], V, env, 6000)
            lines = [l for l in p.stdout.split('\n') if l.startswith('VIOLATION')]
            out = p.stdout.split('\n')
            what = out[out.index(lines[0]) + 1].strip()[:300] if lines and out.index(lines[0]) + 1 < len(out) else ''
            res.setdefault(name, {})[prop] = dict(rc=p.returncode, silent=(p.returncode == 0 and not lines), first=what)
            print(name, prop, 'silent' if p.returncode == 0 and not lines else 'ALARM ' + what[:160], flush=True)
    finally:
        subprocess.run('git -C /repo worktree remove --force %s' % wt, shell=True)
    json.dump(res, open(resp, 'w'), indent=1, sort_keys=True)
