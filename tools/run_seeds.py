#!/usr/bin/env python3
"""Run the quick check of the targeted property against every stored seeded change (in a scratch worktree of /repo,
selected through VERIF_REPO) and record which check catches which change in seeded/detection.json.
usage: run_seeds.py [name ...]"""
import json, os, subprocess, sys, glob
def run_check(cmd, cwd, env, timeout):
    """run a check in its own process group; on timeout kill the whole group (pool workers included)"""
    import signal
    p = subprocess.Popen(cmd, cwd=cwd, env=env, stdout=subprocess.PIPE, stderr=subprocess.STDOUT, text=True, start_new_session=True)
    try:
        out, _ = p.communicate(timeout=timeout)
    except subprocess.TimeoutExpired:
        try:
            os.killpg(p.pid, signal.SIGKILL)
        except OSError:
            pass
        p.communicate()
        raise
    return subprocess.CompletedProcess(cmd, p.returncode, out, None)


V = os.path.dirname(os.path.dirname(os.path.abspath(__file__)))
names = sys.argv[1:] or sorted(os.path.basename(os.path.dirname(p)) for p in glob.glob(os.path.join(V, 'seeded', '*', 'meta.json')))
detp = os.path.join(V, 'seeded', 'detection.json')
det = json.load(open(detp)) if os.path.exists(detp) else {}
for name in names:
    meta = json.load(open(os.path.join(V, 'seeded', name, 'meta.json')))
    wt = '/tmp/seedrun_' + name
    subprocess.run('git -C /repo worktree remove --force %s' % wt, shell=True, stderr=subprocess.DEVNULL)
    subprocess.run('git -C /repo worktree add -f %s %s' % (wt, meta.get('base', 'HEAD')), shell=True, stdout=subprocess.DEVNULL, stderr=subprocess.DEVNULL)
    try:
        r = subprocess.run('git apply %s' % os.path.join(V, 'seeded', name, 'patch.diff'), shell=True, cwd=wt)
        assert r.returncode == 0
        env = dict(os.environ, VERIF_REPO=wt)
        props = [meta['property']] + meta.get('also_run', [])
        for prop in props:
            try:
                p = run_check(['./check', prop, '--tier', 'quick', '--no-build'], V, env, 6000)
            except subprocess.TimeoutExpired:
                det.setdefault(name, {})[prop] = dict(rc=None, detected=False, with_failing_input=False, first='the check did not finish within 6000 s')
                print(name, prop, 'NO VERDICT (timeout)', flush=True)
                continue
            lines = [l for l in p.stdout.split('\n') if l.startswith('VIOLATION')]
            nxt = p.stdout.split('\n')
            what = ''
            if lines:
                i = nxt.index(lines[0])
                what = nxt[i + 1].strip()[:260] if i + 1 < len(nxt) else ''
            det.setdefault(name, {})[prop] = dict(rc=p.returncode, detected=bool(lines), with_failing_input=bool(lines) and 'no-failing-input-found' not in lines[0], first=what)
            print(name, prop, 'DETECTED' if lines else 'MISSED', what[:120], flush=True)
    finally:
        subprocess.run('git -C /repo worktree remove --force %s' % wt, shell=True)
    json.dump(det, open(detp, 'w'), indent=1, sort_keys=True)
