#!/usr/bin/env python3
"""Regenerates /verif/MANIFEST.json from the table below (kept in one place so that it stays valid)."""
import json, os
V = os.path.dirname(os.path.dirname(os.path.abspath(__file__)))
CHECKS = {
 'C15': dict(text='Coq theorems over all declaration sequences and inputs (P_C15.v: invariant by induction over the declaration list, dimensionality, physical map, dictionary, rejection leaves the prior unchanged) about a hand-written Gallina model of prior.py, tied to the code by an exhaustive differential run (all sequences up to length 3 over a 63-letter alphabet, random longer ones) through the extracted model and nautilus.Prior, a sample re-evaluated inside Coq',
             note='Trusted: Coq kernel, extraction (ExtrOcamlBasic), harness canonicalisation, scipy isf as oracle. No axioms. Domain: priors with at least one free parameter for the dictionary theorem.',
             tech='Coq proof (induction over declaration lists) + differential correspondence model vs implementation'),
 'C16': dict(text='Coq theorems: exact-grid model of PhaseShift (range, untouched coordinates, inverse, largest gap straddles the boundary for the computed centre, all N, all dimensions) and a binary64 theorem via Flocq/PrimFloat that the transform maps every finite double of [0,1) into [0,1); tied to the code by exact equality on grid inputs and bit-exact equality on boundary-directed doubles, both evaluated inside Coq by vm_compute',
             note='Trusted: Coq kernel; stdlib FloatAxioms and the Reals/classical axioms pulled in by Flocq for C16_float_range only; numpy remainder semantics written into the model and compared bit for bit. The float-level inverse bound is checked numerically (direct predicate), not proved.',
             tech='Coq proof (Z modular arithmetic; Flocq binary64) + in-Coq vm_compute correspondence'),
 'C13': dict(text='Coq theorems over ALL operation sequences and all oracle data accepted by the model (P_C13.v: record lengths agree, every ellipsoid keeps n_points_min points, clear may-split flag implies 2 n_min points, points of all ellipsoids plus trimmed ones are a permutation of the construction points, successful split does not increase the summed volume, refused operation changes nothing) about a Gallina model of Union.split/trim/sample bookkeeping, tied to the code by exhaustive enumeration of operation sequences (length <=4 quick, <=5 thorough, alphabet of 5) on real Union objects replayed through the extracted model with record equality after every operation',
             note='Trusted: Coq kernel, extraction, derivation of oracle data from observables in harness/c13.py. GaussianMixture, MVEE and the overlap test are oracles whose outputs are checked by the model step. "No operation raises" is decided on the implementation (an exception is an unaccepted event). No axioms.',
             tech='Coq proof (invariants by induction over operation lists) + exhaustive bounded-length differential replay'),
}
props = [json.loads(l) for l in open(os.path.join(V, 'properties.jsonl'))]
NA = {}
m = dict(version=1, setup_cmd='./check --setup',
         hooks=dict(guard='NAUTILUS_VERIF', enable='no source hooks: observation is by subclassing documented methods, proxies and strace; the guard name is reserved only',
                    baseline_off_cmd='cd /repo && /venv/bin/python -m pytest -ra -q -p no:cacheprovider --timeout=900 --continue-on-collection-errors',
                    source_commits=[], add_only=True),
         engines=[dict(name='coq-proof+correspondence', path='/verif/check', serves_properties=sorted(CHECKS),
                       kind_free_text='Coq 8.16.1 theorems over hand-written Gallina models; correspondence by running the model (extracted to OCaml, or inside Coq by vm_compute) and the implementation on the same inputs')],
         checks=[], notes='See DESIGN.md. known_findings.json lists repaired defects (fixed:).', not_applicable=[])
for p in props:
    i = p['id']
    if i in CHECKS:
        c = CHECKS[i]
        m['checks'].append(dict(property_id=i, quick_cmd='./check %s --tier quick' % i, thorough_cmd='./check %s --tier thorough' % i,
                                evidence_file='/verif/evidence/%s.json' % i, replay_cmd_template='./check %s --replay {path}' % i,
                                engine='coq-proof+correspondence',
                                level_claimed=dict(category=c.get('cat', 'proof'), text=c['text'], design_ref='DESIGN.md section 5 ' + i),
                                level_note=c['note'], technique=c['tech']))
    else:
        m['not_applicable'].append(dict(property_id=i, reason=NA.get(i, 'check under construction in this round (model and theorems exist as prototypes, not yet registered)')))
json.dump(m, open(os.path.join(V, 'MANIFEST.json'), 'w'), indent=1)
print('checks', len(m['checks']), 'not_applicable', len(m['not_applicable']))
