#!/usr/bin/env python3
"""Regenerates /verif/MANIFEST.json from the table below (kept in one place so that it stays valid)."""
import json, os
V = os.path.dirname(os.path.dirname(os.path.abspath(__file__)))
CHECKS = {
 'C15': dict(text='Coq theorems over all declaration sequences and inputs (P_C15.v: invariant by induction over the declaration list, dimensionality, physical map, dictionary, rejection leaves the prior unchanged) about a hand-written Gallina model of prior.py, tied to the code by an exhaustive differential run (all sequences up to length 3 over a 63-letter alphabet, random longer ones) through the extracted model and nautilus.Prior, a sample re-evaluated inside Coq',
             note='Trusted: Coq kernel, extraction (ExtrOcamlBasic), harness canonicalisation, scipy isf as oracle. No axioms. Domain: priors with at least one free parameter for the dictionary theorem.',
             tech='Coq proof (induction over declaration lists) + differential correspondence model vs implementation'),
 'C16': dict(text='Coq theorems: exact-grid model of PhaseShift (range, untouched coordinates, inverse, largest gap straddles the boundary for the computed centre, all N, all dimensions) and a binary64 theorem via Flocq/PrimFloat that the transform maps every finite double of [0,1) into [0,1); tied to the code by exact equality on grid inputs and bit-exact equality on boundary-directed doubles, both evaluated inside Coq by vm_compute',
             note='Trusted: Coq kernel; stdlib FloatAxioms and the Reals/classical axioms pulled in by Flocq for C16_float_range only; numpy remainder semantics written into the model and compared bit for bit. The float-level inverse bound is checked numerically (direct predicate), not proved.',
             tech='Coq proof (Z modular arithmetic; Flocq binary64) + in-Coq vm_compute correspondence'),
 'C13': dict(text='Coq theorems over ALL operation sequences and all oracle data accepted by the model (P_C13.v: record lengths agree, every ellipsoid keeps n_points_min points, clear may-split flag implies 2 n_min points, points of all ellipsoids plus trimmed ones are a permutation of the construction points, successful split does not increase the summed volume, refused operation changes nothing) about a Gallina model of Union.split/trim/sample bookkeeping, tied to the code by exhaustive enumeration of operation sequences (length <=4 quick, <=5 thorough, alphabet of 5) on real Union objects replayed through the extracted model with record equality after every operation',
             note='Trusted: Coq kernel, extraction, derivation of oracle data from observables in harness/c13.py. GaussianMixture, MVEE and the overlap test are oracles whose outputs are checked by the model step. "No operation raises" is decided on the implementation (an exception is an unaccepted event). No axioms.',
             tech='Coq proof (invariants by induction over operation lists) + exhaustive bounded-length differential replay'),
 'C01': dict(text='Coq theorems (P_C01.v) by induction over ALL event traces accepted by the shell machine, for an arbitrary contains predicate (any geometry), arbitrary likelihood and batch size: every stored point is in the cube, in its own bound, outside every later bound; shell association = own shell; no point stored twice; unused transfer candidates are in no shell. Tied to the code by replaying traced runs of the real sampler (every bound insertion, batch, end of exploration, toggle, resume) through the extracted model with state equality after every event',
             note='Trusted: Coq kernel, extraction, trace harness (subclass of public methods; oracle data inferred from observables). contains() is an oracle: its geometric soundness is C07. No axioms.',
             tech='Coq proof (invariant by induction over event traces) + trace-replay correspondence against the real sampler'),
 'C02': dict(text='Coq theorems (P_C02.v): invariants of the shell machine over all traces (parallel arrays aligned; kept samples never exceed proposals in both views) and algebra over Q showing the per-shell formulas of the code are the importance-sampling estimators over all samples (evidence, normalised weights, Kish n_eff). Tied to the code by evaluating the exact dyadic estimator model (extracted) on the stored samples of traced runs at sampled snapshots and comparing with the cached statistics and posterior() weights',
             note='Trusted: Coq kernel, extraction, exp/log at the model boundary, tolerance 1e-9. The executable evaluator EstimExec and the specification Estim share formulas but their equivalence is not yet a theorem. No axioms.',
             tech='Coq proof (trace invariants + field algebra over Q) + exact-arithmetic differential check of cached statistics'),
 'C03': dict(text='Coq theorems (P_C03.v) over all accepted traces with the three parallel arrays modelled separately: every stored row is (p, lik p, blob p); every evaluated point stored once; posterior() rows (both views) faithful and duplicate-free. Tied to the code by traced runs across evaluation modes (scalar/vectorised, array/dict, Prior object/function/in-place function, n_batch 1..20, six blob kinds, likelihood pool) with the lik/blob tables filled by re-evaluating the pure likelihood, plus a row-by-row check of posterior()',
             note='Trusted: Coq kernel, extraction, trace harness, bit-exact re-evaluation of the pure test likelihoods. No axioms.',
             tech='Coq proof (invariants over event traces) + trace-replay correspondence + row re-evaluation'),
 'C10': dict(text='Coq theorems (P_C10.v) about the model of run(): each batch evaluates exactly n_batch points, one batch per loop iteration, n_like never exceeds n_like_max by a full batch and nothing happens once the limit is reached, the return value is exactly (explored and all shells >= n_shell and n_eff target met), the sampling phase picks the first shell below n_shell. Tied to the code by replaying whole run() calls (mixed strides, zero and negative budgets, timeout=0, resumes) through the extracted run_call model and by counting actual likelihood calls',
             note='Trusted: Coq kernel, extraction, trace harness; n_eff>=target and time-out are oracle bits supplied from the public accessors. No axioms.',
             tech='Coq proof (loop model with guard/branch/return) + replay of run() calls through the extracted model'),
 'C12': dict(text='Coq theorems (P_C12.v): once explored, over ANY continuation the machine stays explored, bounds are frozen, every shell only grows by appending, no bound event is accepted; every shell non-empty after exploration; discard toggle changes only the flag and toggling back restores the state; the discarded view is exactly the rows after end_exp. Tied to the code by traced runs with toggles at arbitrary batch boundaries and resumes, estimator comparison in both views, and bit-for-bit restoration of the statistics on the implementation',
             note='Trusted: Coq kernel, extraction, trace harness. No axioms.',
             tech='Coq proof (invariants over event traces) + trace-replay correspondence with toggles and resumes'),
 'C09': dict(text='Coq theorems (P_C09.v): for every bound class (unit cube, ellipsoid, cube-ellipsoid mixture, union with any number of members, phase shift, emulator with any number of networks/layers, neural bound, nautilus bound with any number of neural bounds) read(write b) returns the persisted record (everything except the union may-split flags), and an incremental update of a written group equals a full write when only cache and counters changed. Tied to the code by abstracting real objects of every class/option/history, dumping the groups they write and checking inside Coq that the model writer produces exactly that group, the model reader returns the persisted record, update = full write; unknown attributes fail closed',
             note='Trusted: Coq kernel, harness abstraction through __dict__, h5py returning stored values. Behavioural equality (contains on probes, log_v, identical sample streams under a cloned generator) is decided on the implementation. No axioms.',
             tech='Coq proof (structural round-trip and update theorems over an abstract HDF5 tree) + in-Coq evaluation of the codec on real written groups'),
}
props = [json.loads(l) for l in open(os.path.join(V, 'properties.jsonl'))]
NA = {}
m = dict(version=1, setup_cmd='./check --setup',
         hooks=dict(guard='NAUTILUS_VERIF', enable='no source hooks: observation is by subclassing documented methods, proxies and strace; the guard name is reserved only',
                    baseline_off_cmd='cd /repo && /venv/bin/python -m pytest -ra -q -p no:cacheprovider --timeout=900 --continue-on-collection-errors',
                    source_commits=[], add_only=True),
         engines=[dict(name='coq-proof+correspondence', path='/verif/check', serves_properties=sorted(CHECKS),
                       kind_free_text='Coq 8.16.1 theorems over hand-written Gallina models; correspondence by running the model (extracted to OCaml, or inside Coq by vm_compute) and the implementation on the same inputs')],
         checks=[], notes='See DESIGN.md. known_findings.json lists repaired defects (fixed:).', not_applicable=[])
for p in props:
    i = p['id']
    if i in CHECKS:
        c = CHECKS[i]
        m['checks'].append(dict(property_id=i, quick_cmd='./check %s --tier quick' % i, thorough_cmd='./check %s --tier thorough' % i,
                                evidence_file='/verif/evidence/%s.json' % i, replay_cmd_template='./check %s --replay {path}' % i,
                                engine='coq-proof+correspondence',
                                level_claimed=dict(category=c.get('cat', 'proof'), text=c['text'], design_ref='DESIGN.md section 5 ' + i),
                                level_note=c['note'], technique=c['tech']))
    else:
        m['not_applicable'].append(dict(property_id=i, reason=NA.get(i, 'check under construction in this round (model and theorems exist as prototypes, not yet registered)')))
json.dump(m, open(os.path.join(V, 'MANIFEST.json'), 'w'), indent=1)
print('checks', len(m['checks']), 'not_applicable', len(m['not_applicable']))
