/* LD_PRELOAD shim for the C06 check: SIGKILLs the process at its N-th pwrite()/pwrite64() call.
   NV_KILL_AT=N   which call (1-based); NV_KILL_MODE=before|after|torn (torn: half of the bytes are written first). */
#define _GNU_SOURCE
#include <dlfcn.h>
#include <signal.h>
#include <stdlib.h>
#include <string.h>
#include <unistd.h>
#include <sys/types.h>

static long counter = 0;
static long kill_at = -2;
static int mode = 0;
typedef ssize_t (*pw_t)(int, const void *, size_t, off_t);

static void init(void) {
  const char *s = getenv("NV_KILL_AT");
  kill_at = s ? atol(s) : -1;
  const char *m = getenv("NV_KILL_MODE");
  mode = (m && !strcmp(m, "after")) ? 1 : (m && !strcmp(m, "torn")) ? 2 : 0;
}
static ssize_t doit(const char *name, int fd, const void *buf, size_t n, off_t off) {
  static pw_t real = 0;
  if (!real) real = (pw_t)dlsym(RTLD_NEXT, name);
  if (kill_at == -2) init();
  long c = __sync_add_and_fetch(&counter, 1);
  if (c == kill_at) {
    if (mode == 1) real(fd, buf, n, off);
    else if (mode == 2 && n > 1) real(fd, buf, n / 2, off);
    kill(getpid(), SIGKILL);
    for (;;) pause();
  }
  return real(fd, buf, n, off);
}
ssize_t pwrite(int fd, const void *buf, size_t n, off_t off) { return doit("pwrite", fd, buf, n, off); }
ssize_t pwrite64(int fd, const void *buf, size_t n, off_t off) { return doit("pwrite64", fd, buf, n, off); }
