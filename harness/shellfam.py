"""Shared runner of the shell-machine family (C01, C02, C03, C10, C12): traced runs in parallel, model replay,
estimator comparison through the extracted exact evaluator, direct predicates."""
import math
import os
import re
import subprocess
import sys
import time
import traceback
from fractions import Fraction
from multiprocessing import Pool

import numpy as np

from common import BIN, Run, use_repo
import trace as T

TOL = 1e-9

# which fields of a state dump matter to which property (the trace as a whole must be accepted for all of them)
PROJECT = {
    # CT (thresholds and update counters of the control layer) belongs to C10 and C12
    'C01': lambda l: '' if l.startswith('CT') else re.sub(r' (ns|nse|ee)=\d+', '', re.sub(r' lls=\S*', '', re.sub(r' bls=\S*', '', l))) if l.startswith(('SH', 'T ')) else ('' if l.startswith('ST') else l),
    'C02': lambda l: '' if l.startswith('CT') else l,
    'C03': lambda l: '' if l.startswith('CT') else re.sub(r' (ns|nse|ee)=\d+', '', l) if l.startswith('SH') else ('' if l.startswith('ST') else l),
    'C10': lambda l: (re.sub(r' (nse|ee)=\d+', '', re.sub(r' lls=\S*', '', re.sub(r' bls=\S*', '', l))) if l.startswith('SH') else (re.sub(r' discard=\w+', '', l) if l.startswith('ST') else (l if l.startswith('CT') else ''))),
    'C12': lambda l: re.sub(r' bls=\S*', '', l),
}


CONTROL_PROPS = ('C05', 'C10', 'C12')     # the properties the control layer (Shell2Ctl) is tied for
PROJECT['C05'] = lambda l: l if l.startswith('CT') else ''


def dyadic(x):
    if x == 0:
        return 0, 0
    m, e = math.frexp(float(x))
    m = int(m * 2 ** 53)
    e -= 53
    while m % 2 == 0:
        m //= 2
        e += 1
    return m, e


def qbits(s):
    a, b = s.split('/')
    neg = a.startswith('-')
    n = int(a.lstrip('-'), 2) if a.strip('-') else 0
    return Fraction(-n if neg else n, int(b, 2))


def estim_compare(tr, snaps, tmpdir, prop='C02'):
    """For each snapshot: the cached statistics must equal the exact estimators of the stored samples (model EstimExec)."""
    if not snaps:
        return 0
    path = os.path.join(tmpdir, 'estim_%d_%d.txt' % (os.getpid(), id(tr) % 100000))
    shifts = []
    with open(path, 'w') as f:
        for sn in snaps:
            view = sn['discard'] and sn['explored']
            Ls = []
            for i, ll in enumerate(sn['log_l']):
                st = sn['end_exp'][i] if view else 0
                Ls.append(np.asarray(ll[st:], dtype=float))
            allv = np.concatenate(Ls) if Ls else np.zeros(0)
            fin = allv[np.isfinite(allv)]
            mx = float(np.max(fin)) if len(fin) else 0.0
            shifts.append(mx)
            for i, L in enumerate(Ls):
                ns = sn['n_sample'][i] - (sn['n_sample_exp'][i] if view else 0)
                bv = dyadic(math.exp(sn['bound_log_v'][i]))
                with np.errstate(all='ignore'):
                    lin = np.exp(L - mx)
                f.write('SH %d %d %d %s\n' % (bv[0], bv[1], ns, ' '.join('%d %d' % dyadic(v) for v in lin)))
            f.write('EVAL\n')
    out = subprocess.run([os.path.join(BIN, 'estim_checker'), path], stdout=subprocess.PIPE, text=True).stdout.split('\n')
    os.unlink(path)
    pos = 0
    n_cmp = 0

    def close(a, b):
        if a is None or b is None:
            return a is b
        if math.isnan(a) or math.isnan(b):
            return math.isnan(a) and math.isnan(b)
        if math.isinf(a) or math.isinf(b):
            return a == b
        return abs(a - b) <= TOL * max(1.0, abs(a), abs(b))
    for sn, mx in zip(snaps, shifts):
        view = sn['discard'] and sn['explored']
        nsh = len(sn['log_l'])
        try:
            z = qbits(out[pos].split()[1])
            neff = out[pos + 1].split()[1]
            per = []
            for i in range(nsh):
                per.append((qbits(out[pos + 2 + 3 * i].split()[1]), qbits(out[pos + 3 + 3 * i].split()[1]), qbits(out[pos + 4 + 3 * i].split()[1])))
            pos += 2 + 3 * nsh + 1
        except Exception as e:     # noqa
            tr.fail(prop, 'exact evaluator output unparsable: %s' % e, label=sn['label'])
            return n_cmp
        for i in range(nsh):
            st = sn['end_exp'][i] if view else 0
            n_view = len(sn['log_l'][i]) - st
            n_cmp += 1
            if sn['shell_n'][i] != n_view:
                tr.fail(prop, 'shell_n[%d]=%d but the shell holds %d samples in the current view' % (i, sn['shell_n'][i], n_view), label=sn['label'])
            if sn['n_points'][i] != len(sn['log_l'][i]) or (sn['n_blobs'] is not None and sn['n_blobs'][i] != sn['n_points'][i]):
                tr.fail(prop, 'points/log_l/blobs of shell %d have different lengths' % i, label=sn['label'])
            ns = sn['n_sample'][i] - (sn['n_sample_exp'][i] if view else 0)
            if n_view > ns:
                tr.fail(prop, 'shell %d keeps %d samples out of %d proposals: volume fraction above one' % (i, n_view, ns), label=sn['label'])
            if n_view > 0:
                vol, zs, ne = per[i]
                fin = np.asarray(sn['log_l'][i][st:], dtype=float)
                allzero = bool(np.all(np.isneginf(fin)))
                if not close(math.exp(sn['shell_log_v'][i]), float(vol)):
                    tr.fail(prop, 'shell_log_v[%d]: exp=%r, exact bound volume x kept fraction=%r' % (i, math.exp(sn['shell_log_v'][i]), float(vol)), label=sn['label'])
                if not allzero:
                    zi = math.exp(sn['shell_log_l'][i] + sn['shell_log_v'][i] - mx)
                    if not close(zi, float(zs)):
                        tr.fail(prop, 'shell %d evidence: cached %r, exact %r' % (i, zi, float(zs)), label=sn['label'])
                if not close(sn['shell_n_eff'][i], float(ne)):
                    tr.fail(prop, 'shell_n_eff[%d]=%r, exact Kish value %r' % (i, sn['shell_n_eff'][i], float(ne)), label=sn['label'])
            else:
                if not (sn['shell_n_eff'][i] == 0 and math.isnan(sn['shell_log_l'][i]) and (sn['shell_log_v'][i] == -math.inf or math.isnan(sn['shell_log_v'][i]))):
                    tr.fail(prop, 'empty shell %d has statistics (%r, %r, %r)' % (i, sn['shell_n_eff'][i], sn['shell_log_l'][i], sn['shell_log_v'][i]), label=sn['label'])
        n_cmp += 1
        if z > 0:
            if sn['log_z'] is None or not close(sn['log_z'], math.log(z) + mx):
                tr.fail(prop, 'log_z=%r, exact sum over samples %r' % (sn['log_z'], math.log(z) + mx), label=sn['label'])
            if neff not in ('0/1',):
                ne = float(qbits(neff))
                if not close(float(sn['n_eff']), ne):
                    tr.fail(prop, 'n_eff=%r, exact Kish effective sample size of the weights %r' % (sn['n_eff'], ne), label=sn['label'])
            # eta from the exact per-shell numbers
            num = float(z) ** 2
            den = 0.0
            for i in range(nsh):
                st = sn['end_exp'][i] if view else 0
                n_view = len(sn['log_l'][i]) - st
                if n_view > 0 and per[i][1] > 0:
                    den += float(per[i][1]) / math.sqrt(float(per[i][2]) / n_view)
            if den > 0 and sn['eta'] is not None and not close(float(sn['eta']), num / den ** 2):
                tr.fail(prop, 'eta=%r, value from the exact per-shell estimators %r' % (sn['eta'], num / den ** 2), label=sn['label'])
    return n_cmp


def posterior_checks(tr, s, prop_rows='C03', prop_w='C02'):
    """posterior(): rows are faithful triples, once each; weights are the normalised per-sample terms."""
    n = 0
    if not s.explored and sum(len(p) for p in s.points) == 0:
        return 0
    prob = tr.prob
    cfg = tr.cfg
    has_blobs = s.blobs is not None
    try:
        with np.errstate(all='ignore'):
            res = s.posterior(return_blobs=has_blobs, return_as_dict=False if not (callable(s.prior) and s.pass_dict) else None)
    except Exception as e:     # noqa
        tr.fail(prop_rows, 'posterior() raised %s: %s' % (type(e).__name__, str(e)[:150]))
        return 0
    pts, log_w, log_l = res[0], res[1], res[2]
    blobs = res[3] if has_blobs else None
    view = s._discard_exploration and s.explored
    start = [int(x) for x in s.shell_end_exp] if view else [0] * len(s.points)
    stored_u = np.concatenate([np.asarray(p)[st:] for p, st in zip(s.points, start)]) if s.points else np.zeros((0, s.n_dim))
    if len(stored_u) != len(log_w) or len(log_l) != len(log_w):
        tr.fail(prop_rows, 'posterior() returns %d rows for %d stored samples in the view' % (len(log_w), len(stored_u)))
        return 0
    # rows: the returned point is the prior transform of the stored unit point; log_l and blob are the likelihood's
    ids = set()
    dup = 0
    for j, u in enumerate(stored_u):
        n += 1
        ll, b = prob.eval_unit(u)
        if not (log_l[j] == ll or (math.isnan(ll) and math.isnan(log_l[j]))):
            tr.fail(prop_rows, 'posterior row %d: log_l %r is not the likelihood of its point (%r)' % (j, float(log_l[j]), ll))
            break
        if cfg.get('prior_object'):
            want = prob.prior_obj.unit_to_physical(np.array(u, dtype=float))
        elif cfg.get('prior_inplace'):
            want = np.array(u) * 2.0
        else:
            want = np.array(u)
        got = pts[j] if not isinstance(pts, dict) else np.array([pts['p%d' % i][j] for i in range(s.n_dim)])
        if not np.array_equal(np.asarray(got, dtype=float), np.asarray(want, dtype=float)):
            tr.fail(prop_rows, 'posterior row %d: returned point is not the prior transform of the stored sample' % j)
            break
        if has_blobs:
            dt = s.blobs_dtype
            arr = np.array([b], dtype=dt) if dt is not None else np.array([b])
            arr = arr.reshape((1,) + tuple(m for m in arr.shape[1:] if m != 1))
            if np.asarray(blobs[j]).tobytes() != np.asarray(arr[0]).tobytes():
                tr.fail(prop_rows, 'posterior row %d: blob %r is not the blob the likelihood returned for this point (%r)' % (j, blobs[j], arr[0]))
                break
        k = np.asarray(u, dtype=float).tobytes()
        if k in ids:
            dup += 1
        ids.add(k)
    if dup:
        tr.fail(prop_rows, '%d evaluated point(s) appear more than once in posterior()' % dup)
    # weights: normalised L * V_i / n_i
    with np.errstate(all='ignore'):
        lv = np.repeat(np.asarray(s.shell_log_v) - np.log(np.maximum(np.asarray(s.shell_n), 1)), np.asarray(s.shell_n))
        if len(lv) == len(log_l) and len(log_l) > 0:
            lw = lv + log_l
            fin = lw[np.isfinite(lw)]
            if len(fin):
                m = np.max(fin)
                w = np.exp(lw - m)
                w = w / np.sum(w)
                if not np.allclose(np.exp(log_w), w, rtol=1e-9, atol=1e-300):
                    tr.fail(prop_w, 'posterior() weights are not the normalised likelihood x per-sample volume terms')
                if abs(np.sum(np.exp(log_w)) - 1) > 1e-9:
                    tr.fail(prop_w, 'posterior() weights sum to %r' % float(np.sum(np.exp(log_w))))
    return n


def _beat(hb):
    if hb:
        try:
            os.utime(hb, None)
        except OSError:
            pass


def worker(job):
    cfg, prop, extras = job
    t0 = time.time()
    hb = cfg.get('heartbeat')
    try:
        tr = T.run_traced(cfg)
    except Exception:     # noqa
        cfg.pop('heartbeat', None)
        return dict(cfg=cfg, crashed=traceback.format_exc()[-2000:])
    cfg.pop('heartbeat', None)
    _beat(hb)
    res = dict(cfg=cfg, stats=tr.stats, n_batches=tr.n_batches, done=bool(tr.done), borderline=getattr(tr, 'borderline', False))
    tmp = extras.get('tmp', '/tmp')
    ok, rejects, diffs = T.replay_through_model(tr, tmp)
    # projection for this property
    proj = PROJECT[prop]
    pdiffs = []
    if prop not in CONTROL_PROPS:
        rejects = [r for r in rejects if not r.startswith(('TRIGBAD', 'CTLREJECT'))]
    if rejects:
        pdiffs = [('reject', rejects[0])]
    elif diffs:
        i, label, a, b = diffs[0]
        # recompute the projected comparison over all snapshots
        pdiffs = []
        # (diffs only holds the first raw difference; check whether it survives projection)
        if proj(a) != proj(b):
            pdiffs = [(label, a, b)]
        else:
            pdiffs = project_all(tr, tmp, proj)
    _beat(hb)
    res['model_ok'] = not pdiffs
    res['model_diff'] = pdiffs[:2]
    res['events'] = tr.stats['events']
    s = tr.final
    n_est = n_rows = 0
    if prop in ('C02', 'C12'):
        snaps = tr.snaps
        keep = [sn for i, sn in enumerate(snaps) if sn['label'] in ('end_exploration', 'set_discard', 'resume') or i % max(1, len(snaps) // extras.get('max_snaps', 20)) == 0 or i == len(snaps) - 1]
        n_est = estim_compare(tr, keep, tmp, prop=prop)
        _beat(hb)
    if prop in ('C02', 'C03', 'C12'):
        n_rows = posterior_checks(tr, s, prop_rows='C03' if prop != 'C12' else 'C12', prop_w='C02' if prop != 'C12' else 'C12')
        if s.explored:
            v0 = bool(s._discard_exploration)
            try:
                s.discard_exploration = not v0
                n_rows += posterior_checks(tr, s, prop_rows='C03' if prop != 'C12' else 'C12', prop_w='C02' if prop != 'C12' else 'C12')
                s.discard_exploration = v0
            except Exception as e:     # noqa
                tr.fail('C12', 'toggling discard_exploration raised %s' % type(e).__name__)
    if prop == 'C01':
        T.direct_c01(tr, s)     # final state, also for configurations that skip the per-snapshot predicate
    if prop == 'C10':
        c10_direct(tr, s)
    if prop == 'C12':
        c12_direct(tr, s)
    res['n_est'] = n_est
    res['n_rows'] = n_rows
    res['fails'] = {k: [(w, {kk: vv for kk, vv in d.items() if kk != 'traceback'}) for w, d in v[:5]] for k, v in tr.fails.items()}
    res['blob_shapes'] = [(tr.cfg['blob'], n, list(sh)) for n, sh in sorted(tr.blob_shapes)]
    res['n_points'] = len(tr.pid.rows)
    res['calls'] = tr.prob.calls
    res['n_like'] = int(s.n_like)
    res['wall'] = round(time.time() - t0, 1)
    res['sample_events'] = [l[:160] for l in tr.lines if not l.startswith(('X', 'P '))][:6]
    return res


def project_all(tr, tmp, proj):
    """slow path: full projected comparison of every snapshot"""
    path = os.path.join(tmp, 'trace_p_%d.txt' % os.getpid())
    with open(path, 'w') as f:
        f.write(tr.lines[0] + '\n' + '\n'.join(tr.table_lines) + '\n' + '\n'.join(tr.lines[1:]) + '\n')
    out = subprocess.run([os.path.join(BIN, 'shell_checker'), path], stdout=subprocess.PIPE, text=True).stdout.split('\n')
    os.unlink(path)
    blocks, cur = [], []
    for line in out:
        if line == 'END':
            blocks.append(cur)
            cur = []
        elif line and not line.startswith(('REJECT', 'DONE', 'RUNOK', 'RUNBAD', 'TRIGBAD', 'CTLREJECT')):
            cur.append(line)
    for i, (label, exp) in enumerate(tr.expected):
        got = (blocks[i] + ['END']) if i < len(blocks) else ['<missing>']
        pe = [proj(l) for l in exp]
        pg = [proj(l) for l in got]
        if pe != pg:
            for a, b in zip(pe, pg):
                if a != b:
                    return [(label, a[:300], b[:300])]
            return [(label, 'lines %d' % len(pe), 'lines %d' % len(pg))]
    return []


def c10_direct(tr, s):
    prob = tr.prob
    cfg = tr.cfg
    if prob.calls != s.n_like:
        tr.fail('C10', 'n_like=%d but the likelihood was called %d times' % (s.n_like, prob.calls))
    for (a, b, ret, lim, timeout, pred) in tr.returns:
        if ret != pred:
            tr.fail('C10', 'run(n_like_max=%s) returned %s at n_like=%d but (explored and all shells >= n_shell and n_eff >= target) is %s' % (lim, ret, b, pred))
        if (b - a) % cfg['n_batch'] != 0:
            tr.fail('C10', 'a run() call advanced n_like by %d, not a multiple of the batch size %d' % (b - a, cfg['n_batch']))
        if a >= lim and b != a:
            tr.fail('C10', 'run(n_like_max=%d) started a batch although %d evaluations had already been made' % (lim, a))
        if a < lim and b >= lim + cfg['n_batch']:
            tr.fail('C10', 'run(n_like_max=%d) went from %d to %d evaluations: exceeds the limit by a full batch' % (lim, a, b))
        if timeout == 0.0 and b != a:
            tr.fail('C10', 'run(timeout=0) evaluated %d points' % (b - a))
        if not ret and b < lim and timeout != 0.0:
            tr.fail('C10', 'run() returned False at %d evaluations although the limit %d was not reached' % (b, lim))


def c12_direct(tr, s):
    """after exploration: bounds frozen, every shell non-empty and only ever prefix-extended"""
    post = [sn for sn in tr.snaps if sn['explored']]
    for a, b in zip(post, post[1:]):
        if a['bids'] != b['bids']:
            tr.fail('C12', 'the set of bounds changed after exploration had finished: %s -> %s' % (a['bids'], b['bids']))
            break
        for i, (x, y) in enumerate(zip(a['log_l'], b['log_l'])):
            if len(y) < len(x) or not np.array_equal(np.asarray(y)[:len(x)], np.asarray(x), equal_nan=True):
                tr.fail('C12', 'shell %d was altered or reordered after exploration (not a pure append)' % i)
                return
    for sn in post:
        if any(n == 0 for n in sn['n_points']):
            tr.fail('C12', 'a shell is empty after exploration has finished')
            break
    seen = False
    for sn in tr.snaps:
        if sn['explored']:
            seen = True
        elif seen:
            tr.fail('C12', 'exploration resumed after it had finished')
            break


def run_jobs(jobs, tmpdir, prop):
    """run worker() on every job in a pool of 16 under the hang watchdog; returns one result per job (a dict with key
    'hung' for a job that made no progress)"""
    # watchdog: a run() that never returns must not hang the check.  A worker touches its heartbeat file at every
    # observation; a job counts as hung when it has not finished within the limit AND its heartbeat has been silent for
    # `silent` seconds (a slow machine keeps the heartbeat alive, a spinning run() does not)
    limit = 6 * max(j[0].get('max_seconds', 14) for j in jobs) + 90
    silent = 300 if max(j[0].get('max_seconds', 14) for j in jobs) <= 60 else 1500      # thorough tier: one bound over tens of thousands of points on a loaded machine is slow, not hung
    hb = [os.path.join(tmpdir, 'hb_%s_%d' % (prop, i)) for i in range(len(jobs))]
    for i, j in enumerate(jobs):
        j[0]['heartbeat'] = hb[i]
        open(hb[i], 'w').close()
    pool = Pool(16)
    asyncs = [pool.apply_async(worker, (j,)) for j in jobs]
    results = [None] * len(jobs)
    t0 = time.time()
    pending = set(range(len(jobs)))
    while pending:
        for i in sorted(pending):
            if asyncs[i].ready():
                try:
                    results[i] = asyncs[i].get(timeout=1)
                except Exception as e:     # noqa  (worker crash)
                    results[i] = dict(cfg={k: v for k, v in jobs[i][0].items() if k != 'heartbeat'}, hung='%s' % type(e).__name__)
                pending.discard(i)
        now = time.time()
        if now - t0 > limit:
            for i in sorted(pending):
                try:
                    quiet = now - os.path.getmtime(hb[i])
                except OSError:
                    quiet = now - t0
                if quiet > silent or now - t0 > 4 * limit:
                    results[i] = dict(cfg={k: v for k, v in jobs[i][0].items() if k != 'heartbeat'}, hung='no progress for %d s' % quiet)
                    pending.discard(i)
        if pending:
            time.sleep(0.5)
    pool.terminate()
    pool.join()
    return results


def run_family(run: Run, prop, n_runs, forces=None, extras=None):
    """Run n traced configurations for property `prop`; fill coverage; report violations."""
    rng = np.random.default_rng(run.seed)
    extras = dict(extras or {})
    extras['tmp'] = run.tmp
    jobs = []
    for i in range(n_runs):
        force = dict(forces[i % len(forces)]) if forces else {}
        # deterministic cap on the number of batches; the wall-clock cap is only a safety net (it would make coverage depend on load)
        force.setdefault('max_batches', 260 if run.tier == 'quick' else 900)
        force.setdefault('max_seconds', 60 if run.tier == 'quick' else 240)
        cfg = T.make_config(rng, i, run.tier, force)
        jobs.append((cfg, prop, extras))
    results = run_jobs(jobs, run.tmp, prop)
    limit = 6 * max(j[0].get('max_seconds', 14) for j in jobs) + 90
    hung = [r for r in results if 'hung' in r]
    results = [r for r in results if 'hung' not in r]
    tot = {}
    crashed = [r for r in results if 'crashed' in r]
    good = [r for r in results if 'crashed' not in r]
    for r in good:
        for k, v in r['stats'].items():
            tot[k] = tot.get(k, 0) + v
    direct = [(r['cfg'], w, d) for r in good for (w, d) in r['fails'].get(prop, []) + r['fails'].get('ANY', [])]
    others = {k: sum(len(r['fails'].get(k, [])) for r in good) for k in ('C01', 'C02', 'C03', 'C05', 'C09', 'C10', 'C12') if k != prop}
    mism = [(r['cfg'], r['model_diff']) for r in good if not r['model_ok'] and not r.get('borderline')]
    run.cov.update(evaluations=sum(r['events'] for r in good), distinct_nontrivial=sum(1 for r in good if r['stats']['ab'] >= 2 and r['stats']['transfers_used'] > 0),
                   traced_runs=len(good), borderline_dropped=sum(1 for r in good if r.get('borderline')),
                   rule='traced runs of the real sampler (families x n_live x n_batch x networks x blobs x periodic x pools x vectorised x Prior object), single-batch '
                        'stepping with discard toggles and resumes; an evaluation is one event (bound insertion, batch, end of exploration, toggle, resume) replayed through '
                        'the extracted model with state equality; a run is non-trivial when it built >=2 bounds and used transfer points',
                   event_distribution=tot, points=sum(r['n_points'] for r in good), estimator_comparisons=sum(r['n_est'] for r in good),
                   posterior_rows_checked=sum(r['n_rows'] for r in good), disagreements_checked=len(mism), direct_predicate_failures=len(direct),
                   failures_attributed_to_other_properties=others,
                   config_distribution=dict(families=_count(good, 'family'), n_batch=_count(good, 'n_batch'), blobs=_count(good, 'blob'), networks=_count(good, 'n_networks'),
                                            vectorized=_count(good, 'vectorized'), prior_object=_count(good, 'prior_object'), pool_s=_count(good, 'pool_s'), pool_l=_count(good, 'pool_l'),
                                            periodic=_count(good, 'periodic')),
                   samples=[dict(config={k: v for k, v in good[0]['cfg'].items() if k != 'neural_network_kwargs'}, first_events=good[0]['sample_events'])] if good else [])
    if hung:
        run.violation('a traced sampler run did not come back within %d s (run() spins or hangs): %d of %d runs' % (limit, len(hung), len(jobs)),
                      dict(kind='direct', config=hung[0]['cfg'], what='run() does not return', n_failures=len(hung)), True, key='%s:hang' % prop)
    if crashed:
        run.violation('traced run crashed in the harness (fail closed): ' + crashed[0]['crashed'][-600:], dict(kind='harness', config=crashed[0]['cfg'], broken='trace harness'), False)
    if direct:
        cfg, what, d = direct[0]
        run.violation('%s direct predicate fails on the implementation: %s' % (prop, what),
                      dict(kind='direct', config=cfg, what=what, detail=d, n_failures=len(direct)), True, key='%s:%s' % (prop, what[:30]))
    elif mism:
        cfg, dd = mism[0]
        run.violation('correspondence sampler ~ Shell2.step broken for the fields relevant to %s (no direct predicate fails): %s' % (prop, dd[:1]),
                      dict(kind='correspondence', broken='sampler.py add_bound/add_samples/run ~ Shell2.step', config=cfg, difference=dd), False)
    if prop == 'C03':
        blob_shape_cases(run, good)
    return results


RAW_TAIL = {'float': [1], 'int': [1], 'vec3': [1, 3], 'vec1': [1, 1], 'two': None}


def blob_shape_cases(run, good):
    """shape of the blob array against the Gallina shape model (BlobShape.squeeze_keep_batch), inside Coq"""
    from common import coq_eval
    cases = sorted({(kind, n, tuple(sh)) for r in good for (kind, n, sh) in r.get('blob_shapes', [])})
    rows = []
    for kind, n, sh in cases:
        if RAW_TAIL.get(kind) is None:
            raw = [n]            # structured dtype: one record per point
        else:
            raw = [n] + RAW_TAIL[kind]
        rows.append('(%s, %s)' % ('[' + '; '.join(map(str, raw)) + ']', '[' + '; '.join(map(str, sh)) + ']'))
    run.cov['blob_shape_cases'] = [dict(kind=k, n_batch=n, shape=list(sh)) for k, n, sh in cases]
    if not rows:
        return
    body = '''From Coq Require Import List Arith Bool. Import ListNotations.
Require Import NV.BlobShape.
Fixpoint leqb (a b : list nat) : bool := match a, b with [], [] => true | x :: a', y :: b' => Nat.eqb x y && leqb a' b' | _, _ => false end.
Definition cases : list (list nat * list nat) := [%s].
Eval vm_compute in (length cases, map fst (filter (fun ic => negb (leqb (squeeze_keep_batch (fst (snd ic))) (snd (snd ic)))) (combine (seq 0 (length cases)) cases))).
''' % '; '.join(rows)
    rc, out = coq_eval(body, 'cases_C03_shapes')
    import re as _re
    m = _re.search(r'=\s*\(\s*(\d+)\s*,\s*(\[[^\]]*\]|nil)\s*\)', out.replace('\n', ' ').replace('%nat', ''))
    if rc != 0 or not m:
        run.violation('in-Coq evaluation of the blob-shape cases failed: ' + out[-300:], dict(kind='correspondence', broken='cases_C03_shapes.v'), False)
        return
    bad = [int(x) for x in _re.findall(r'\d+', m.group(2))]
    if bad:
        kind, n, sh = cases[bad[0]]
        run.violation('C03: evaluate_likelihood returned a blob array of shape %s for a batch of %d blobs of kind %s: the batch axis or the blob shape is not what the shape model gives' % (list(sh), n, kind),
                      dict(kind='direct', blob=kind, n_batch=n, shape=list(sh)), True, key='C03:blobshape')


def _count(rs, key):
    out = {}
    for r in rs:
        v = str(r['cfg'].get(key))
        out[v] = out.get(v, 0) + 1
    return out


def replay_config(path, prop):
    import json
    r = json.load(open(path))
    cfg = r.get('config')
    if not cfg:
        print(json.dumps(r, indent=1)[:2000])
        return 0
    res = worker((cfg, prop, dict(tmp='/tmp')))
    print(json.dumps({k: res.get(k) for k in ('model_ok', 'model_diff', 'fails', 'n_batches', 'done')}, indent=1, default=str)[:3000])
    bad = (not res.get('model_ok', True)) or res.get('fails', {}).get(prop) or res.get('fails', {}).get('ANY')
    return 1 if bad else 0
