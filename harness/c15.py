"""C15 -- the prior maps the unit cube to parameters as declared.

Tie: every declaration sequence up to a bounded length over a fixed alphabet (exhaustive) plus random longer
ones is run through nautilus.Prior and through the extracted Gallina model (PriorModel.add_parameter,
unit_to_physical, unit_to_dictionary); outcome class, keys, dists, dimensionality and, at query nodes, the
physical vectors and dictionaries must agree.  A sample of the same sequences is re-evaluated inside Coq.
Search: direct predicates of the property evaluated on the implementation alone."""
import itertools
import numbers
import os
import random
import re
import subprocess
import sys
from fractions import Fraction
from multiprocessing import Pool

import numpy as np

from common import BIN, Run, use_repo, coq_eval

NAMES = {'S1': 'a', 'S2': 'b', 'S9': 'zz'}
INV = {v: k for k, v in NAMES.items()}
KEYS = ['N', 'S1', 'S2', 'A0', 'A1', 'A2', 'B']   # None, 'a', 'b', 'x_0', 'x_1', 'x_2', non-string
DISTS = [('U', 0, 1), ('U', 2, 5), ('D', 1), ('F', 3), ('L', 'S1'), ('L', 'S2'), ('L', 'A1'), ('L', 'S9'), ('X',)]
ALPHA = list(itertools.product(KEYS, DISTS))
# random streams also fix parameters to exactly zero (a falsy value)
ALPHA_X = ALPHA + list(itertools.product(KEYS, [('F', 0)]))
_NORM = None


def norm_dist():
    global _NORM
    if _NORM is None:
        from scipy.stats import norm
        _NORM = norm(loc=2.0, scale=0.5)
    return _NORM


def py_key(k):
    if k == 'N':
        return None
    if k == 'B':
        return 5
    if k[0] == 'A':
        return 'x_' + k[1:]
    return NAMES[k]


def py_dist(d):
    if d[0] == 'U':
        return (d[1], d[2])
    if d[0] == 'D':
        return norm_dist()
    if d[0] == 'F':
        return d[1]
    if d[0] == 'L':
        return py_key(d[1])
    return [1, 2]


def canon_key(s):
    if not isinstance(s, str):
        return '?%r' % (s,)
    m = re.fullmatch(r'x_(0|[1-9][0-9]*)', s)
    if m:
        return 'A' + m.group(1)
    return INV.get(s, '?' + s)


def fq(x):
    f = Fraction(x).limit_denominator(10**9)
    return '%d/%d' % (f.numerator, f.denominator)


def canon_dist(d):
    if isinstance(d, str):
        return 'L(%s)' % canon_key(d)
    if isinstance(d, numbers.Number):
        return 'F(%s)' % fq(d)
    if d is norm_dist():
        return 'D(1)'
    if hasattr(d, 'kwds') and 'loc' in d.kwds:
        lo = d.kwds['loc']
        hi = lo + d.kwds['scale']
        return 'U(%s,%s)' % (fq(lo), fq(hi))
    return '?%r' % (d,)


def show(tag, p):
    try:
        return '%s keys=[%s] dists=[%s] dim=%d' % (
            tag, ','.join(canon_key(k) for k in p.keys), ','.join(canon_dist(d) for d in p.dists), p.dimensionality())
    except Exception as e:     # noqa
        return '%s STATE-UNPRINTABLE %s' % (tag, type(e).__name__)


def tok(decl):
    k, d = decl
    return '%s %s' % (k, ' '.join(str(x) for x in d))


# ---------- the property's direct predicates, evaluated on the implementation alone ----------
class Spec:
    """What the property says should have been accepted so far: list of (key string, kind, payload)."""

    def __init__(self):
        self.acc = []

    def classify(self, key, dist):
        """Return ('ok', entry) or ('err', exception class) for the next declaration, from the property text."""
        if key is None:
            key = 'x_%d' % len(self.acc)
        elif not isinstance(key, str):
            return 'err', TypeError
        if key in [a[0] for a in self.acc]:
            return 'err', ValueError       # duplicate or colliding key
        if isinstance(dist, tuple) or hasattr(dist, 'isf'):
            return 'ok', (key, 'free', dist)
        if isinstance(dist, numbers.Number):
            return 'ok', (key, 'fixed', dist)
        if isinstance(dist, str):
            if dist == key or dist not in [a[0] for a in self.acc]:
                return 'err', ValueError   # link to itself or to an undeclared key
            return 'ok', (key, 'link', dist)
        return 'err', TypeError

    def ultimate(self, key):
        seen = 0
        while True:
            e = [a for a in self.acc if a[0] == key][0]
            if e[1] != 'link':
                return e
            key = e[2]
            seen += 1
            assert seen < 1000


def isf_of(dist):
    if isinstance(dist, tuple):
        lo, hi = dist
        return lambda q: lo + (hi - lo) * (1 - q)
    return dist.isf


def check_semantics(p, spec, u1, un):
    """Direct predicates on dimensionality / unit_to_physical / dictionary.  Returns list of failure strings."""
    fails = []
    frees = [a for a in spec.acc if a[1] == 'free']
    d = len(frees)
    if p.dimensionality() != d:
        fails.append('dimensionality()=%r but %d free parameters were accepted' % (p.dimensionality(), d))
        return fails
    if len(p.keys) != len(p.dists):
        fails.append('len(keys)=%d != len(dists)=%d' % (len(p.keys), len(p.dists)))
    if len(set(p.keys)) != len(p.keys):
        fails.append('duplicate key in %r' % (p.keys,))
    for u in (u1[:d], un[:, :d]):
        u = np.array(u, dtype=float)
        try:
            ph = p.unit_to_physical(u)
        except Exception as e:     # noqa
            fails.append('unit_to_physical%s raised %s' % (u.shape, type(e).__name__))
            continue
        if np.shape(ph) != u.shape:
            fails.append('unit_to_physical shape %s -> %s' % (u.shape, np.shape(ph)))
            continue
        for i, fr in enumerate(frees):
            want = isf_of(fr[2])(1 - u[..., i])
            if not np.allclose(ph[..., i], want, rtol=1e-12, atol=1e-12):
                fails.append('unit_to_physical coordinate %d (key %s) is not isf(1-u)' % (i, fr[0]))
        if d == 0:
            continue      # no free parameter: outside the property's domain (the model raises there as well)
        try:
            dic = p.unit_to_dictionary(u)
        except Exception as e:     # noqa
            fails.append('unit_to_dictionary%s raised %s' % (u.shape, type(e).__name__))
            continue
        if sorted(dic.keys()) != sorted(a[0] for a in spec.acc):
            fails.append('dictionary keys %r != declared keys %r' % (sorted(dic.keys()), sorted(a[0] for a in spec.acc)))
            continue
        i = 0
        for a in spec.acc:
            t = spec.ultimate(a[0])
            if t[1] == 'fixed':
                want = np.ones(u[..., 0].shape) * t[2]
            else:
                j = [f[0] for f in frees].index(t[0])
                want = isf_of(t[2])(1 - u[..., j])
            got = dic[a[0]]
            if np.shape(got) != np.shape(want) or not np.allclose(got, want, rtol=1e-12, atol=1e-12):
                fails.append('dictionary[%s] (%s -> %s) wrong' % (a[0], a[1], t[0]))
    return fails


def run_sequences(args):
    """Worker: run a list of declaration sequences (as a prefix tree walk) through implementation and model."""
    seqs, query_every, wid, tmp = args
    use_repo()
    from nautilus import Prior
    rng = np.random.default_rng(12345)
    u1 = (np.arange(16) * 2 + 1) / 32.0
    un = np.array([(np.arange(16) * 2 + 1) / 32.0, (np.arange(16) * 2 + 1) / 64.0, 1 - (np.arange(16) + 1) / 128.0])
    del rng
    fin_path = os.path.join(tmp, 'c15_%d.in' % wid)
    impl_lines = []
    ctx = []          # (sequence index, step) for each expected line
    direct = []       # direct predicate failures
    stats = dict(steps=0, accepted=0, rejected_type=0, rejected_value=0, other_exc=0, queries=0,
                 links=0, chains=0, states=set())
    with open(fin_path, 'w') as fin:
        for si, seq in enumerate(seqs):
            fin.write('RESET\n')
            impl_lines.append('RESET')
            ctx.append((si, -1))
            p = Prior()
            spec = Spec()
            for step, decl in enumerate(seq):
                key, dist = py_key(decl[0]), py_dist(decl[1])
                before = (list(p.keys), list(p.dists))
                kind, want = spec.classify(key, dist)
                fin.write(tok(decl) + '\n')
                stats['steps'] += 1
                try:
                    p.add_parameter(key, dist)
                    tag = 'OK'
                    stats['accepted'] += 1
                except TypeError:
                    tag = 'TypeError'
                    stats['rejected_type'] += 1
                except ValueError:
                    tag = 'ValueError'
                    stats['rejected_value'] += 1
                except Exception as e:     # noqa
                    tag = 'OTHER:' + type(e).__name__
                    stats['other_exc'] += 1
                impl_lines.append(show(tag, p))
                ctx.append((si, step))
                # direct predicates
                if tag != 'OK':
                    if tag.startswith('OTHER'):
                        direct.append((si, step, 'malformed declaration raised %s (neither ValueError nor TypeError)' % tag[6:]))
                    same = (len(p.keys) == len(before[0]) and all(a is b or a == b for a, b in zip(p.keys, before[0]))
                            and len(p.dists) == len(before[1]) and all(a is b for a, b in zip(p.dists, before[1])))
                    if not same:
                        direct.append((si, step, 'rejected declaration changed the prior: keys %r -> %r, %d -> %d dists' % (
                            before[0], p.keys, len(before[1]), len(p.dists))))
                    if kind == 'ok':
                        direct.append((si, step, 'well-formed declaration rejected with %s' % tag))
                    elif want.__name__ != tag and not tag.startswith('OTHER'):
                        direct.append((si, step, 'wrong exception class %s, expected %s' % (tag, want.__name__)))
                else:
                    if kind == 'err':
                        direct.append((si, step, 'malformed declaration accepted (expected %s)' % want.__name__))
                    else:
                        spec.acc.append(want)
                        if want[1] == 'link':
                            stats['links'] += 1
                            if [a for a in spec.acc if a[0] == want[2]][0][1] == 'link':
                                stats['chains'] += 1
                if kind == 'err' and tag == 'OK':
                    break   # the reference can no longer follow this sequence
                if len(p.keys) != len(p.dists):
                    direct.append((si, step, 'keys and dists have different lengths %d, %d' % (len(p.keys), len(p.dists))))
                if len(set(p.keys)) != len(p.keys):
                    direct.append((si, step, 'a key appears twice: %r' % (p.keys,)))
                do_query = (step == len(seq) - 1) and (si % query_every == 0)
                if do_query:
                    stats['queries'] += 1
                    stats['states'].add(impl_lines[-1].split(' ', 1)[1])
                    for f in check_semantics(p, spec, u1, un):
                        direct.append((si, step, f))
                    d = len([a for a in spec.acc if a[1] == 'free'])
                    # model queries: (d,) input and one wrong-length input
                    us = [Fraction(2 * i + 1, 32) for i in range(d)]
                    for uvec in (us, us + [Fraction(1, 2)]):
                        fin.write('U2D %s\n' % ' '.join('%d/%d' % (x.numerator, x.denominator) for x in uvec))
                        try:
                            dic = p.unit_to_dictionary(np.array([float(x) for x in uvec]))
                            line = ('DICT', dic)
                        except (ValueError, IndexError):
                            line = ('DICT ValueError', None)
                        except Exception as e:     # noqa
                            line = ('DICT OTHER:' + type(e).__name__, None)
                        impl_lines.append(line)
                        ctx.append((si, step))
    out = subprocess.run([os.path.join(BIN, 'prior_checker'), 'live', fin_path], stdout=subprocess.PIPE, text=True).stdout.split('\n')
    mism = []
    n_cmp = 0
    for i, exp in enumerate(impl_lines):
        got = out[i] if i < len(out) else '<missing>'
        n_cmp += 1
        if isinstance(exp, tuple):
            if exp[1] is None:
                ok = (got == exp[0])
            else:
                ok = compare_dict(got, exp[1])
        else:
            ok = (got == exp)
        if not ok and len(mism) < 20:
            mism.append((ctx[i][0], ctx[i][1], str(exp)[:300], got[:300]))
    stats['states'] = len(stats['states'])
    os.unlink(fin_path)
    return dict(mism=mism, direct=direct[:50], n_direct=len(direct), stats=stats, n_cmp=n_cmp,
                sample=[tok(d) for d in seqs[len(seqs) // 2]] if seqs else [])


def compare_dict(model_line, dic):
    """model: 'DICT k=n/d ...' with symbolic tokens 1000*d + q for non-uniform distributions."""
    if not model_line.startswith('DICT ') or model_line == 'DICT ValueError':
        return False
    items = [x.split('=') for x in model_line.split()[1:]]
    if sorted(canon_key(k) for k in dic.keys()) != sorted(k for k, _ in items):
        return False
    byk = {canon_key(k): v for k, v in dic.items()}
    for k, v in items:
        f = Fraction(v)
        if f >= 1000:
            q = f - 1000 * (f // 1000)
            want = float(norm_dist().isf(float(q)))
        else:
            want = float(f)
        got = np.asarray(byk[k], dtype=float)
        if got.shape != () or not np.isclose(float(got), want, rtol=1e-12, atol=1e-12):
            return False
    return True


def coq_term_key(k):
    if k == 'N':
        return 'KNone'
    if k == 'B':
        return 'KBad'
    return 'KStr (%s)' % coq_kid(k)


def coq_kid(k):
    return 'Auto %s' % k[1:] if k[0] == 'A' else 'Named %s' % k[1:]


def coq_term_dist(d):
    if d[0] == 'U':
        return 'RFree (FUniform (%d#1) (%d#1))' % (d[1], d[2])
    if d[0] == 'D':
        return 'RFree (FDist %d)' % d[1]
    if d[0] == 'F':
        return 'RFixed (%d#1)' % d[1]
    if d[0] == 'L':
        return 'RLink (%s)' % coq_kid(d[1])
    return 'RBad'


def coq_state(line):
    """'OK keys=[S1,A1] dists=[U(0/1,1/1),F(3/1),L(S1)] dim=1' -> Coq prior term"""
    m = re.match(r'\S+ keys=\[(.*?)\] dists=\[(.*)\] dim=(\d+)$', line)
    ks = [coq_kid(k) for k in m.group(1).split(',') if k]
    ds = []
    for d in re.findall(r'U\([^)]*\)|D\(\d+\)|F\([^)]*\)|L\([^)]*\)', m.group(2)):
        if d[0] == 'U':
            a, b = d[2:-1].split(',')
            ds.append('DFree (FUniform (%s#%s) (%s#%s))' % (*a.split('/'), *b.split('/')))
        elif d[0] == 'D':
            ds.append('DFree (FDist %s)' % d[2:-1])
        elif d[0] == 'F':
            ds.append('DFixed (%s#%s)' % tuple(d[2:-1].split('/')))
        else:
            ds.append('DLink (%s)' % coq_kid(d[2:-1]))
    return 'mkP [%s] [%s]' % ('; '.join(ks), '; '.join(ds)), int(m.group(3))


def in_coq_sample(seqs, run):
    """Re-evaluate a sample inside Coq: the model's final state must equal the implementation's observed one."""
    use_repo()
    from nautilus import Prior
    cases = []
    for seq in seqs:
        p = Prior()
        tags = []
        for decl in seq:
            try:
                p.add_parameter(py_key(decl[0]), py_dist(decl[1]))
                tags.append('OK')
            except (TypeError, ValueError) as e:
                tags.append(type(e).__name__)
            except Exception as e:     # noqa
                tags.append('OTHER')
        line = show('X', p)
        if 'UNPRINTABLE' in line or '?' in line:
            continue
        st, dim = coq_state(line)
        ds = '[%s]' % '; '.join('(%s, %s)' % (coq_term_key(k), coq_term_dist(d)) for k, d in seq)
        cases.append('(%s, (%s, %d))' % (ds, st, dim))
    text = '''From Coq Require Import List QArith. Import ListNotations.
Require Import NV.PriorModel.
Local Open Scope nat_scope.
Definition cases : list (list decl * (prior * nat)) := [
%s].
Definition q_eqb (a b : Q) : bool := Qeq_bool a b.
Definition kid_eq := kid_eqb.
Definition free_eqb (a b : free) : bool := match a, b with FUniform l h, FUniform l' h' => q_eqb l l' && q_eqb h h' | FDist d, FDist d' => Pos.eqb d d' | _, _ => false end.
Definition dist_eqb (a b : dist) : bool := match a, b with DFree f, DFree g => free_eqb f g | DFixed v, DFixed w => q_eqb v w | DLink k, DLink l => kid_eqb k l | _, _ => false end.
Fixpoint list_eqb {A} (e : A -> A -> bool) (a b : list A) : bool := match a, b with [], [] => true | x :: a', y :: b' => e x y && list_eqb e a' b' | _, _ => false end.
Definition ok (c : list decl * (prior * nat)) : bool :=
  let p := run_decls (fst c) in
  list_eqb kid_eqb (keys p) (keys (fst (snd c))) && list_eqb dist_eqb (dists p) (dists (fst (snd c))) && Nat.eqb (dimensionality p) (snd (snd c)).
Definition bad := filter (fun ic => negb (ok (snd ic))) (combine (seq 0 (length cases)) cases).
Eval vm_compute in (length cases, map fst bad).
''' % ';\n'.join(cases)
    rc, out = coq_eval(text, 'cases_C15')
    m = re.search(r'=\s*\((\d+),\s*(\[.*?\]|nil)\)', out, re.S)
    if rc != 0 or not m:
        return None, out[-800:]
    bad = re.findall(r'\d+', m.group(2))
    return (int(m.group(1)), [int(b) for b in bad]), out[-300:]


def main(run: Run, audit):
    tier = run.tier
    rnd = random.Random(run.seed)
    maxlen = 3 if tier == 'quick' else 4
    # exhaustive up to length 3; length 4: sampled (thorough)
    seqs = []
    for L in range(1, 4):
        seqs += [list(s) for s in itertools.product(ALPHA, repeat=L)]
    n_exh = len(seqs)
    extra = []
    if tier == 'thorough':
        for _ in range(1500000):
            extra.append([rnd.choice(ALPHA_X) for _ in range(4)])
    n_rand = 3000 if tier == 'quick' else 200000
    for _ in range(n_rand):
        extra.append([rnd.choice(ALPHA_X) for _ in range(rnd.choice([5, 6, 8, 12]))])
    # mostly-valid stream: bias towards accepted declarations so that long priors with chains arise
    valid_alpha = [a for a in ALPHA_X if a[0] in ('N', 'S1', 'S2', 'A2') and a[1][0] in ('U', 'D', 'F', 'L')]
    for _ in range(n_rand):
        extra.append([rnd.choice(valid_alpha) for _ in range(rnd.choice([4, 6, 9]))])
    allseqs = seqs + extra
    nw = 16
    chunks = [allseqs[i::nw * 4] for i in range(nw * 4)]
    query_every = 1 if tier == 'thorough' else 3
    with Pool(nw) as pool:
        results = pool.map(run_sequences, [(c, query_every, i, run.tmp) for i, c in enumerate(chunks)])
    tot = dict()
    for r in results:
        for k, v in r['stats'].items():
            tot[k] = tot.get(k, 0) + v
    n_cmp = sum(r['n_cmp'] for r in results)
    direct = [(chunks[i][d[0]], d[1], d[2]) for i, r in enumerate(results) for d in r['direct']]
    n_direct = sum(r['n_direct'] for r in results)
    mism = [(chunks[i][m[0]], m[1], m[2], m[3]) for i, r in enumerate(results) for m in r['mism']]
    # two evaluators: a sample inside Coq
    sample = [allseqs[i] for i in sorted(rnd.sample(range(len(allseqs)), min(400, len(allseqs))))]
    coq_res, coq_log = in_coq_sample(sample, run)
    run.cov.update(
        evaluations=len(allseqs), distinct_nontrivial=tot.get('states', 0),
        rule='all declaration sequences of length <=3 over %d keys x %d dists (%d, exhaustive=%s) + %d random longer ones; '
             'non-trivial = distinct resulting prior states at query nodes (dimensionality/physical/dictionary compared)' % (
                 len(KEYS), len(DISTS), n_exh, True, len(extra)),
        exhaustive=False, exhaustive_up_to_length=3, steps=tot.get('steps'), comparisons=n_cmp,
        outcome_distribution={k: tot.get(k) for k in ('accepted', 'rejected_type', 'rejected_value', 'other_exc', 'links', 'chains', 'queries')},
        in_coq_sample=dict(cases=coq_res[0] if coq_res else None, disagreements=coq_res[1] if coq_res else None),
        samples=[r['sample'] for r in results[:3]], disagreements_checked=len(mism), direct_predicate_failures=n_direct)
    if direct:
        direct.sort(key=lambda d: (len(d[0]), d[1]))
        seq, step, what = direct[0]
        run.violation('C15 direct predicate fails on the implementation: %s' % what,
                      dict(sequence=[tok(d) for d in seq], python=[(repr(py_key(k)), repr(py_dist(d)) if d[0] != 'D' else 'scipy.stats.norm(2,0.5)') for k, d in seq],
                           step=step, what=what, n_failures=n_direct, kind='direct'), True,
                      key='C15:' + what.split(':')[0][:40])
    elif mism:
        mism.sort(key=lambda d: (len(d[0]), d[1]))
        seq, step, exp, got = mism[0]
        run.violation('correspondence nautilus.Prior ~ PriorModel broken (no property predicate fails): implementation %s, model %s' % (exp, got),
                      dict(sequence=[tok(d) for d in seq], step=step, implementation=exp, model=got,
                           broken='correspondence prior.py:add_parameter/unit_to_dictionary ~ PriorModel.add_parameter/unit_to_dictionary',
                           kind='correspondence'), False)
    if coq_res is None:
        run.violation('in-Coq evaluation of the C15 sample failed: %s' % coq_log, dict(broken='cases_C15.v (vm_compute)', log=coq_log), False)
    elif coq_res[1] and not direct and not mism:
        run.violation('in-Coq evaluation disagrees with the implementation on sample cases %s' % coq_res[1][:5],
                      dict(broken='cases_C15.v', cases=[[tok(d) for d in sample[i]] for i in coq_res[1][:5]]), False)


def replay(path):
    import json
    use_repo()
    from nautilus import Prior
    r = json.load(open(path))
    p = Prior()
    spec = Spec()
    print('replaying', r.get('sequence'))
    for t in r.get('sequence', []):
        ws = t.split()
        k = ws[0]
        d = tuple([ws[1]] + [int(x) if re.fullmatch(r'-?\d+', x) else x for x in ws[2:]])
        try:
            p.add_parameter(py_key(k), py_dist(d))
            tag = 'OK'
        except Exception as e:     # noqa
            tag = type(e).__name__
        print(' ', t, '->', show(tag, p))
    return 0
