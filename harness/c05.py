"""C05 -- stopping and resuming at any batch boundary does not change the result.

Theorem (Persist.v, generic): if a reload of what the checkpoint protocol left on disk is equivalent to the live state at
every reachable batch boundary, a batch is a function of the state, and the observables respect the equivalence, then
EVERY history of slices and reloads gives the observables of the uninterrupted run.
Tie: (a) the round-trip obligation is discharged exhaustively per run: at every batch boundary a fresh
Sampler(resume=True) is built from a copy of the file and its canonical deep form (every attribute a later batch reads,
every bound recursively, generator state and sharing) is compared with the live object; unknown attributes fail closed;
(b) the equivalence relation is validated by true continuations from sampled (quick) / all (thorough) boundaries,
compared bit for bit with the uninterrupted run; (c) slicing by n_like_max is validated by the stepping run itself."""
import copy
import hashlib
import json
import os
import shutil
import sys
import tempfile
import time
import traceback
from multiprocessing import Pool

import numpy as np

from common import Run, use_repo
import trace as T

SAMPLER_STATE = ['n_like', 'explored', '_discard_exploration', 'shell_n', 'shell_n_sample', 'shell_n_eff', 'shell_log_l_min', 'shell_log_l',
                 'shell_log_v', 'shell_n_sample_exp', 'shell_end_exp', 'points', 'log_l', 'blobs', 'points_t', 'shell_t', 'log_l_t', 'blobs_t',
                 'n_update_iter', 'n_like_iter', 'bounds', 'rng', 'blobs_dtype']
SAMPLER_CONFIG = ['prior', 'likelihood', 'n_dim', 'n_live', 'n_update', 'n_like_new_bound', 'enlarge_per_dim', 'n_points_min', 'split_threshold', 'periodic',
                  'n_networks', 'neural_network_kwargs', 'vectorized', 'pass_dict', 'pool_l', 'pool_s', 'n_batch', 'filepath']
BOUND_ATTRS = {
    'UnitCube': {'n_dim', 'rng'}, 'Ellipsoid': {'n_dim', 'c', 'A', 'B', 'B_inv', 'rng'},
    'UnitCubeEllipsoidMixture': {'n_dim', 'dim_cube', 'cube', 'ellipsoid'},
    'Union': {'n_dim', 'enlarge_per_dim', 'n_points_min', 'cube', 'points_bounds', 'bounds', 'log_v_all', 'block', 'points', 'n_sample', 'n_reject', 'rng'},
    'NeuralBound': {'n_dim', 'outer_bound', 'emulator', 'score_predict_min'},
    'NeuralNetworkEmulator': {'mean', 'scale', 'neural_networks'},
    'NautilusBound': {'n_dim', 'shift', 'neural_bounds', 'outer_bound', 'rng', 'points', 'n_sample', 'n_reject'},
    'PhaseShift': {'periodic', 'centers'},
}
NOT_PERSISTED = {('Union', 'block')}      # read by split() only, which is never called after construction
NET_PREDICT_ATTRS = ['n_layers_', 'activation', 'out_activation_', 'hidden_layer_sizes', 'n_outputs_', 'n_features_in_']


class FailClosed(Exception):
    pass


def canon(x, rngs, path):
    """canonical deep form of a value; `rngs` collects generator objects to expose the sharing pattern"""
    if x is None or isinstance(x, (bool, np.bool_)):
        return ('c', None if x is None else bool(x))
    if isinstance(x, (int, np.integer)):
        return ('i', int(x))
    if isinstance(x, (float, np.floating)):
        return ('f', float(x).hex())
    if isinstance(x, str):
        return ('s', x)
    if isinstance(x, np.ndarray):
        a = np.ascontiguousarray(x)
        if a.dtype.kind in 'iu':
            a = a.astype(np.int64)
        return ('a', a.dtype.str if a.dtype.names is None else str(a.dtype), a.shape, hashlib.sha1(a.tobytes()).hexdigest())
    if isinstance(x, np.random.Generator):
        if id(x) not in rngs:
            rngs[id(x)] = len(rngs)
        st = x.bit_generator.state
        return ('rng', rngs[id(x)], st['bit_generator'], int(st['state']['state']), int(st['state']['inc']), int(st['has_uint32']), int(st['uinteger']))
    if isinstance(x, (list, tuple)):
        return ('l', tuple(canon(v, rngs, path + '[%d]' % i) for i, v in enumerate(x)))
    if isinstance(x, dict):
        return ('d', tuple((k, canon(v, rngs, path + '.' + str(k))) for k, v in sorted(x.items())))
    cls = type(x).__name__
    if cls == 'MLPRegressor':
        d = vars(x)
        out = [('coefs', canon(list(d['coefs_']), rngs, path)), ('intercepts', canon(list(d['intercepts_']), rngs, path))]
        for k in NET_PREDICT_ATTRS:
            if k in d:
                v = d[k]
                out.append((k, canon(tuple(int(t) for t in np.atleast_1d(v)) if k == 'hidden_layer_sizes' else v, rngs, path)))
        return ('net', tuple(out))
    if cls in BOUND_ATTRS:
        d = vars(x)
        extra = set(d) - BOUND_ATTRS[cls]
        if extra:
            raise FailClosed('unknown attribute(s) %s on %s at %s' % (sorted(extra), cls, path))
        return ('o', cls, tuple((k, canon(d[k], rngs, path + '.' + k)) for k in sorted(d) if (cls, k) not in NOT_PERSISTED))
    raise FailClosed('value of unknown type %s at %s' % (cls, path))


def canon_sampler(s):
    d = vars(s)
    extra = set(d) - set(SAMPLER_STATE) - set(SAMPLER_CONFIG) - {'tr', '_last'}
    if extra:
        raise FailClosed('unknown Sampler attribute(s) %s: not covered by the resume comparison' % sorted(extra))
    rngs = {}
    out = {}
    for k in SAMPLER_STATE:
        if k == 'blobs_dtype':
            out[k] = ('s', str(np.dtype(d[k])) if d.get(k) is not None else 'None')
            continue
        v = d.get(k)
        if k in ('shell_n_sample_exp', 'shell_end_exp', 'shell_t', 'points_t', 'log_l_t') and v is not None and len(v) == 0:
            out[k] = ('empty',)
            continue
        out[k] = canon(v, rngs, 'sampler.' + k)
    return out


def first_diff(a, b, path=''):
    if a == b:
        return None
    if isinstance(a, tuple) and isinstance(b, tuple) and len(a) == len(b) and a and a[0] == b[0] and a[0] in ('l', 'o', 'd', 'net'):
        for x, y in zip(a[1:], b[1:]):
            r = first_diff(x, y, path)
            if r:
                return r
    if isinstance(a, tuple) and isinstance(b, tuple) and len(a) == len(b):
        for i, (x, y) in enumerate(zip(a, b)):
            if x != y:
                if isinstance(x, tuple) and isinstance(y, tuple):
                    if len(x) == 2 and isinstance(x[0], str) and len(y) == 2 and x[0] == y[0]:
                        r = first_diff(x[1], y[1], path + '.' + x[0])
                    else:
                        r = first_diff(x, y, path + '[%d]' % i)
                    if r:
                        return r
                return '%s: %r != %r' % (path, str(x)[:80], str(y)[:80])
    return '%s: %r != %r' % (path, str(a)[:80], str(b)[:80])



# ---------------------------------------------------------------------------------------------------------------
# tie of the sampler-file codec model (coq/SamplerCodec.v): dump of the real file, abstraction of the live sampler
# ---------------------------------------------------------------------------------------------------------------
STATIC_KEYS = ['n_dim', 'n_live', 'n_update', 'n_like_new_bound', 'enlarge_per_dim', 'n_points_min', 'split_threshold', 'n_networks', 'n_batch', 'vectorized', 'pass_dict']
ATTR_TAG = {'n_like': 41, 'explored': 42, '_discard_exploration': 43, 'shell_n': 44, 'shell_n_sample': 45, 'shell_n_eff': 46, 'shell_log_l_min': 47, 'shell_log_l': 48,
            'shell_log_v': 49, 'shell_n_sample_exp': 50, 'shell_end_exp': 51, 'n_update_iter': 52, 'n_like_iter': 53,
            'rng_state': 61, 'rng_inc': 62, 'rng_has_uint32': 63, 'rng_uinteger': 64}
DSET_TAG = {'points_t': 57, 'shell_t': 58, 'log_l_t': 59, 'blobs_t': 60}
IDX_TAG = {'points': 54, 'log_l': 55, 'blobs': 56}


class VTok:
    def __init__(self):
        self.d = {}

    def get(self, v):
        if isinstance(v, (str, bytes, np.str_, np.bytes_)):
            key = ('s', str(v if not isinstance(v, (bytes, np.bytes_)) else v.decode()))
        else:
            a = np.asarray(v)
            if a.dtype.kind in 'iub':
                key = ('n', a.shape, a.astype(np.int64).tobytes())
            elif a.dtype.kind == 'f':
                key = ('f', a.shape, a.tobytes())
            else:
                key = (str(a.dtype), a.shape, a.tobytes())
        return self.d.setdefault(key, 1000 + len(self.d))


def subtree_digest(g):
    import h5py
    h = hashlib.sha1()

    def visit(x, prefix):
        for k in sorted(x.attrs):
            v = x.attrs[k]
            h.update(('A%s/%s' % (prefix, k)).encode())
            h.update(np.asarray(v).tobytes() if not isinstance(v, (str, bytes)) else str(v).encode())
        for k in sorted(x):
            it = x[k]
            if isinstance(it, h5py.Dataset):
                a = np.array(it)
                h.update(('D%s/%s%s%s' % (prefix, k, a.shape, a.dtype)).encode())
                h.update(a.tobytes())
            else:
                visit(it, prefix + '/' + k)
    visit(g, '')
    return h.hexdigest()


def dump_file(path, tok, nn_keys):
    """the checkpoint file as (python canonical form, Coq h5 term); bound groups are opaque leaves"""
    import h5py
    import re as _re
    with h5py.File(path, 'r') as f:
        top = sorted(f.keys())
        if 'sampler' not in f:
            raise FailClosed('checkpoint has no sampler group')
        g = f['sampler']
        attrs, dsets = [], []
        for k in g.attrs:
            v = g.attrs[k]
            if k in STATIC_KEYS:
                attrs.append(('(NmI %d%%positive %d)' % (65, STATIC_KEYS.index(k)), tok.get(v)))
            elif k.startswith('neural_network_'):
                attrs.append(('(NmI %d%%positive %d)' % (65, len(STATIC_KEYS) + nn_keys.index(k[len('neural_network_'):])), tok.get(v)))
            elif k in ATTR_TAG:
                attrs.append(('(Nm %d%%positive)' % ATTR_TAG[k], tok.get(v)))
            else:
                raise FailClosed('unknown attribute %r in the sampler group of the checkpoint' % k)
        for k in g:
            if isinstance(g[k], h5py.Group):
                raise FailClosed('unexpected group %r inside the sampler group' % k)
            m = _re.fullmatch(r'(points|log_l|blobs)_(\d+)', k)
            if m:
                dsets.append(('(NmI %d%%positive %s)' % (IDX_TAG[m.group(1)], m.group(2)), tok.get(np.array(g[k]))))
            elif k in DSET_TAG:
                dsets.append(('(Nm %d%%positive)' % DSET_TAG[k], tok.get(np.array(g[k]))))
            else:
                raise FailClosed('unknown dataset %r in the sampler group of the checkpoint' % k)
        kids = []
        bound_tokens = []
        i = 0
        while 'bound_%d' % i in f:
            t = tok.get('bound:' + subtree_digest(f['bound_%d' % i]))
            bound_tokens.append(t)
            kids.append(('(NmI 66%%positive %d)' % i, 'Grp [(Nm 1%%positive, %d%%positive)] [] []' % t))
            i += 1
        extra = [k for k in top if k != 'sampler' and not _re.fullmatch(r'bound_\d+', k)]
        if extra or len(top) != i + 1:
            raise FailClosed('unexpected top-level entries %s in the checkpoint' % extra)
    canon = (tuple(sorted(attrs)), tuple(sorted(dsets)), tuple(kids))
    term = 'Grp [] [] ((Nm 40%%positive, Grp [%s] [%s] []) :: [%s])' % (
        '; '.join('(%s, %d%%positive)' % a for a in sorted(attrs)), '; '.join('(%s, %d%%positive)' % d for d in sorted(dsets)),
        '; '.join('(%s, %s)' % k for k in kids))
    return canon, term, bound_tokens


def abs_sampler(s, tok, bound_tokens, nn_keys):
    """the live sampler as an `sfile` term of SamplerCodec.v (values -> tokens)"""
    def P(t):
        return '%d%%positive' % t

    def L(xs):
        return '[' + '; '.join(xs) + ']'
    static = [tok.get(getattr(s, k)) for k in STATIC_KEYS] + [tok.get(s.neural_network_kwargs[k]) for k in nn_keys]
    st = s.rng.bit_generator.state
    rng = (tok.get(str(st['state']['state'])), tok.get(str(st['state']['inc'])), tok.get(st['has_uint32']), tok.get(st['uinteger']))
    blobs = 'None' if s.blobs is None else '(Some %s)' % L(P(tok.get(b)) for b in s.blobs)
    blobst = 'None' if s.blobs_t is None else '(Some %s)' % P(tok.get(s.blobs_t))
    return ('(mkSF %s %s %s %s %s %s %s %s %s %s %s %s %s %s %s %s %s %s %s %s %s %s (%s, %s, %s, %s))' % (
        L(P(t) for t in static), P(tok.get(s.n_like)), P(tok.get(s.explored)), P(tok.get(s._discard_exploration)),
        P(tok.get(s.shell_n)), P(tok.get(s.shell_n_sample)), P(tok.get(s.shell_n_eff)), P(tok.get(s.shell_log_l_min)), P(tok.get(s.shell_log_l)), P(tok.get(s.shell_log_v)),
        P(tok.get(s.shell_n_sample_exp)), P(tok.get(s.shell_end_exp)), P(tok.get(s.n_update_iter)), P(tok.get(s.n_like_iter)),
        L(P(tok.get(p)) for p in s.points), L(P(tok.get(x)) for x in s.log_l), blobs,
        P(tok.get(s.points_t)), P(tok.get(s.shell_t)), P(tok.get(s.log_l_t)), blobst,
        L('Grp [(Nm 1%%positive, %d%%positive)] [] []' % t for t in bound_tokens), P(rng[0]), P(rng[1]), P(rng[2]), P(rng[3])))


CODEC_PRELUDE = """From Coq Require Import List PArith Bool Arith. Import ListNotations.
Require Import NV.Codec NV.Codec2 NV.SamplerCodec.
Definition sub_assoc {V} (eqv : V -> V -> bool) (a b : list (name * V)) : bool :=
  forallb (fun kv => match assoc (fst kv) b with Some v => eqv (snd kv) v | None => false end) a && Nat.eqb (length a) (length b).
Fixpoint h5_eqb (fuel : nat) (a b : h5) : bool :=
  match fuel with O => false | S f => match a, b with Grp aa ad ak, Grp ba bd bk =>
    sub_assoc Pos.eqb aa ba && sub_assoc Pos.eqb ad bd && sub_assoc (h5_eqb f) ak bk end end.
"""


def fingerprint(s):
    with np.errstate(all='ignore'):
        res = s.posterior(return_blobs=s.blobs is not None)
        h = hashlib.sha1()
        for a in res:
            if isinstance(a, dict):
                for k in sorted(a):
                    h.update(np.ascontiguousarray(a[k]).tobytes())
            else:
                h.update(np.ascontiguousarray(a).tobytes())
        return 'n_like=%d log_z=%s n_eff=%s posterior=%s' % (s.n_like, float(s.log_z).hex(), float(s.n_eff).hex(), h.hexdigest())


def make_sampler(nautilus, cfg, path, prob=None):
    prob = prob or T.Problem(cfg)
    kw = dict(n_live=cfg['n_live'], n_update=cfg.get('n_update'), n_batch=cfg['n_batch'], n_networks=cfg['n_networks'], seed=cfg['seed'],
              filepath=path, resume=True, vectorized=cfg.get('vectorized', False))
    if cfg.get('periodic') is not None:
        kw['periodic'] = np.array(cfg['periodic'])
    if cfg.get('neural_network_kwargs'):
        kw['neural_network_kwargs'] = cfg['neural_network_kwargs']
    like = prob.like_vector if cfg.get('vectorized') else prob.like_scalar
    if cfg.get('prior_object'):
        pr = nautilus.Prior()
        for i in range(cfg['n_dim']):
            pr.add_parameter('p%d' % i, dist=(0, 1))
        prob.prior_obj = pr
        return nautilus.Sampler(pr, like, **kw), prob
    return nautilus.Sampler(prob.prior_fn, like, n_dim=cfg['n_dim'], **kw), prob


def run_args(cfg):
    return dict(n_eff=cfg['n_eff'], n_shell=cfg['n_shell'], discard_exploration=cfg.get('discard_at_end', False))


def continuation(args):
    """true continuation from a copy of the checkpoint at boundary k to the end"""
    cfg, src, k = args
    nautilus = use_repo()
    import warnings
    warnings.filterwarnings('ignore')
    d = tempfile.mkdtemp(prefix='nvc05c_')
    try:
        p = os.path.join(d, 'ck.hdf5')
        shutil.copyfile(src, p)
        s, prob = make_sampler(nautilus, cfg, p)
        n0 = int(s.n_like)
        with np.errstate(all='ignore'):
            s.run(**run_args(cfg))
        fp = fingerprint(s)
        return k, fp, prob.calls == s.n_like - n0, None
    except Exception as e:     # noqa
        return k, None, True, '%s: %s' % (type(e).__name__, str(e)[:200])
    finally:
        shutil.rmtree(d, ignore_errors=True)


def one_config(job):
    cfg, tier, base = job
    nautilus = use_repo()
    import warnings
    warnings.filterwarnings('ignore')
    d = tempfile.mkdtemp(prefix='nvc05_', dir=base)
    out = dict(cfg=cfg, fails=[], boundaries=0, compared=0, continuations=0, phases={})
    try:
        # reference: one uninterrupted run() call
        sref, pref = make_sampler(nautilus, cfg, os.path.join(d, 'ref.hdf5'))
        with np.errstate(all='ignore'):
            sref.run(**run_args(cfg))
        ref = fingerprint(sref)
        out['ref'] = ref
        if pref.calls != sref.n_like:
            out['fails'].append(('uninterrupted run: %d likelihood calls for n_like=%d' % (pref.calls, sref.n_like), None))
        # stepping run with a checkpoint; at every boundary compare a resumed object with the live one
        path = os.path.join(d, 'ck.hdf5')
        s, prob = make_sampler(nautilus, cfg, path)
        rng = np.random.default_rng(cfg['seed'] + 5)
        keep = []
        k = 0
        done = False
        t0 = time.time()
        vtok = VTok()
        nn_keys = sorted((cfg.get('neural_network_kwargs') or {}).keys())
        out['codec_cases'] = []
        prev_term, prev_lens = None, []
        toggles = sorted(int(x) for x in rng.integers(2, 40, size=cfg.get('toggles', 0)))
        toggled = False
        dirty = False
        max_b = cfg.get('max_boundaries', 3000)
        while not done and k < 3000:
            if k >= max_b:
                # enough boundaries examined: finish in one call (still part of the sliced history)
                with np.errstate(all='ignore'):
                    done = s.run(**run_args(cfg))
                break
            ex0, nb0 = bool(s.explored), len(s.bounds)
            stride = 1 if rng.random() < 0.8 else int(rng.integers(1, 3 * cfg['n_batch']))
            by_time = rng.random() < 0.06 and k >= 1 and not dirty      # (not before the first file exists, nor while a toggle awaits its batch)
            nl_before = int(s.n_like)
            #  a slice cut by the time limit instead of the budget (wherever it falls)
            with np.errstate(all='ignore'):
                if by_time:
                    stride = 0
                    done = s.run(timeout=float(rng.choice([0.0, 0.02, 0.1])), **run_args(cfg))
                    out['timeout_slices'] = out.get('timeout_slices', 0) + 1
                else:
                    done = s.run(n_like_max=s.n_like + stride, **run_args(cfg))
            k += 1
            if int(s.n_like) != nl_before:
                dirty = False
            phase = 'first' if k == 1 else ('end-exploration' if s.explored and not ex0 else ('after-bound' if len(s.bounds) != nb0 else ('sampling' if s.explored else 'exploration')))
            out['phases'][phase] = out['phases'].get(phase, 0) + 1
            out['boundaries'] += 1
            if not os.path.exists(path):
                out['fails'].append(('no checkpoint file after batch boundary %d' % k, k))
                break
            snap = os.path.join(d, 'b_%d.hdf5' % k)
            shutil.copyfile(path, snap)
            # the incremental protocol must have left exactly the file a full write of the current state gives
            try:
                scratch = os.path.join(d, 'full.hdf5')
                s.write(scratch, overwrite=True)
                cF, tF, _ = dump_file(snap, vtok, nn_keys)
                cW, tW, btoks = dump_file(scratch, vtok, nn_keys)
                out['full_write_compared'] = out.get('full_write_compared', 0) + 1
                if cF != cW:
                    diff = [a for a, b in zip(cF[0] + cF[1], cW[0] + cW[1]) if a != b][:1] or ['different bound group or number of entries']
                    out['fails'].append(('after batch boundary %d (%s) the checkpoint differs from a full write of the current state (first difference at %s)' % (k, phase, diff[0] if isinstance(diff[0], str) else diff[0][0]), k))
                lens = [len(p) for p in s.points]
                grew = [i for i, (a, b) in enumerate(zip(prev_lens, lens)) if a != b] if len(prev_lens) == len(lens) else None
                pure = (stride == 1 and prev_term is not None and grew is not None and len(grew) <= 1 and len(s.bounds) == nb0 and bool(s.explored) == ex0)
                case = None
                if len(out['codec_cases']) < (24 if tier == 'quick' else 60) and (k % 3 == 0 or phase in ('after-bound', 'end-exploration', 'first')):
                    sh = grew[0] if (pure and grew) else (len(s.bounds) - 1)
                    case = True
                    out['codec_cases'].append(dict(k=k, phase=phase, abs=abs_sampler(s, vtok, btoks, nn_keys), full=tW, cur=tF, prev=prev_term if pure else None, shell=sh))
                prev_term, prev_lens = tF, lens
            except FailClosed as e:
                out['fails'].append((str(e), k))
            try:
                s2, _ = make_sampler(nautilus, cfg, snap)
                if case:
                    # reader model: read_file on the dump of the checkpoint = abstraction of the resumed object
                    scratch2 = os.path.join(d, 'full2.hdf5')
                    s2w = copy.copy(s2)
                    s2w.filepath = None
                    s2w.write(scratch2, overwrite=True)
                    _, _, btoks2 = dump_file(scratch2, vtok, nn_keys)
                    dfl = (vtok.get(np.zeros((0, s2.n_dim))), vtok.get(np.zeros(0, dtype=int)), vtok.get(np.zeros(0)))
                    out['codec_cases'][-1].update(resumed=abs_sampler(s2, vtok, btoks2, nn_keys), n=len(s2.bounds), dflt=dfl)
                # every bound is read back by the class its stored type names (BoundList.r_sbound)
                import h5py
                with h5py.File(snap, 'r') as fchk:
                    for bi, b2 in enumerate(s2.bounds):
                        tname = fchk['bound_%d' % bi].attrs['type']
                        tname = tname.decode() if isinstance(tname, bytes) else str(tname)
                        if type(b2).__name__ != tname:
                            out['fails'].append(('after a resume at batch boundary %d (%s) bound %d is a %s, the checkpoint stores a %s' % (k, phase, bi, type(b2).__name__, tname), k))
                            break
                ca, cb = canon_sampler(s), canon_sampler(s2)
                out['compared'] += 1
                for key in SAMPLER_STATE:
                    if ca[key] != cb[key]:
                        out['fails'].append(('resumed sampler differs from the live one at batch boundary %d (%s): %s' % (k, phase, first_diff(ca[key], cb[key], key)), k))
                        break
            except FailClosed as e:
                out['fails'].append((str(e), k))
            except Exception as e:     # noqa
                out['fails'].append(('resume at batch boundary %d raised %s: %s' % (k, type(e).__name__, str(e)[:150]), k))
            keep.append((k, phase, snap))
            if toggles and toggles[0] <= k and not toggled and cfg.get('toggles'):
                # C12/C05 interplay: a toggle is persisted by the next batch
                toggles.pop(0)
                s.discard_exploration = not s._discard_exploration
                dirty = True
                toggled = bool(toggles)
            if out['fails'] and len(out['fails']) > 3:
                break
        fin = fingerprint(s)
        if not cfg.get('toggles') and fin != ref:
            out['fails'].append(('run cut into %d run() calls ends differently from the uninterrupted run: %s vs %s' % (k, fin[:90], ref[:90]), None))
        if prob.calls != s.n_like:
            out['fails'].append(('sliced run: %d likelihood calls for n_like=%d' % (prob.calls, s.n_like), None))
        # continuations
        if not cfg.get('toggles'):
            if tier == 'quick':
                want = {}
                for kk, ph, sn in keep:
                    want.setdefault(ph, []).append((kk, sn))
                chosen = []
                for ph, lst in want.items():
                    chosen.append(lst[0])
                    if len(lst) > 2:
                        chosen.append(lst[len(lst) // 2])
                chosen = chosen[:8]
            else:
                chosen = [(kk, sn) for kk, ph, sn in keep]
            out['chosen'] = chosen
        else:
            out['chosen'] = []
        out['keepdir'] = d
        return out
    except Exception:     # noqa
        out['fails'].append(('harness exception: ' + traceback.format_exc()[-800:], None))
        return out


def configs(tier, seed):
    base = dict(family='gauss', n_dim=2, n_live=60, n_batch=20, n_update=20, n_networks=0, blob='none', seed=7 + seed % 1000, n_shell=10, n_eff=250, max_boundaries=110 if tier == 'quick' else 3000,
                neural_network_kwargs=dict(hidden_layer_sizes=(12, 6), max_iter=100))
    cs = [dict(base), dict(base, n_networks=1, blob='float', n_live=80, family='periodic', periodic=[0], n_dim=3, discard_at_end=True),
          dict(base, blob='two', vectorized=True, n_batch=7, n_live=40, n_update=10, family='twomode'),
          dict(base, prior_object=True, blob='vec3', family='halfspace', n_dim=3, toggles=3),
          # tiny live set: empty shells are removed when exploration ends (the file must be renumbered with the memory)
          dict(base, n_live=10, n_update=1, n_batch=2, blob='float', discard_at_end=True, n_shell=5, n_eff=100, max_boundaries=300 if tier == 'quick' else 3000),
          # the first shell (the unit cube) is empty when exploration ends and is removed: bound_0 on file is a nautilus bound
          dict(base, family='twomode', seed=22, n_live=8, n_update=1, n_batch=3, blob='float', n_shell=10, n_eff=60, max_boundaries=130 if tier == 'quick' else 3000)]
    if tier == 'thorough':
        cs += [dict(base, blob='int', n_batch=1, n_live=30, n_update=8, n_eff=80), dict(base, family='funnel', n_dim=3, n_live=100, n_batch=50, blob='vec1'),
               dict(base, n_networks=2, n_live=100, n_dim=4, blob='none'), dict(base, family='plateau', blob='float', discard_at_end=True),
               dict(base, periodic=[0, 1], family='periodic', n_dim=2, n_networks=1, toggles=2), dict(base, n_live=12, n_update=1, n_batch=3, blob='two', discard_at_end=False, n_shell=5, n_eff=100, family='twomode')]
    # random tiny configurations (they sit on many guards at once): two in the quick tier, sixteen in the thorough tier
    for i in range(2 if tier == 'quick' else 16):
        r = np.random.default_rng([seed, 700 + i])
        fam = ['gauss', 'twomode', 'halfspace', 'funnel', 'plateau', 'periodic', 'constant'][int(r.integers(0, 7))]
        c = dict(base, family=fam, n_dim=int(r.choice([2, 3])), n_live=int(r.choice([6, 10, 16, 30])), n_batch=int(r.choice([1, 2, 4, 8])), n_update=int(r.choice([1, 2, 6])),
                 blob=str(r.choice(['none', 'float', 'two', 'vec3', 'int'])), seed=int(r.integers(1, 10 ** 6)), n_shell=int(r.choice([1, 4, 12])), n_eff=int(r.choice([30, 80])),
                 max_boundaries=120 if tier == 'quick' else 400, discard_at_end=bool(r.random() < 0.5), toggles=int(r.choice([0, 0, 2])), vectorized=bool(r.random() < 0.3),
                 prior_object=bool(r.random() < 0.2), periodic=[0] if fam == 'periodic' else ([1] if r.random() < 0.2 else None))
        if fam == 'constant':
            c['n_eff'] = 30
        cs.append(c)
    return cs


def main(run: Run, audit):
    base = run.tmp
    cfgs = configs(run.tier, run.seed)
    with Pool(min(16, len(cfgs))) as pool:
        outs = pool.map(one_config, [(c, run.tier, base) for c in cfgs], chunksize=1)
    jobs = [(o['cfg'], sn, kk) for o in outs for (kk, sn) in o.get('chosen', [])]
    # continuations under a watchdog: a resumed run() that spins must not hang the check
    pool = Pool(16)
    asyncs = [pool.apply_async(continuation, (j,)) for j in jobs]
    t_end = time.time() + (1800 if run.tier == 'quick' else 10800)
    conts = []
    for j, a in zip(jobs, asyncs):
        try:
            conts.append(a.get(timeout=max(1.0, t_end - time.time())))
        except Exception as e:     # noqa  (multiprocessing.TimeoutError or a worker crash)
            conts.append((j[2], None, True, 'no return from the resumed run() (%s): it spins or hangs' % type(e).__name__))
    pool.terminate()
    pool.join()
    fails = []
    n_cont = 0
    for o in outs:
        fails += [(o['cfg'], w, k) for w, k in o['fails']]
    refs = {json.dumps(o['cfg'], sort_keys=True): o.get('ref') for o in outs}
    for (cfg, sn, kk), (k, fp, once, err) in zip(jobs, conts):
        n_cont += 1
        ref = refs[json.dumps(cfg, sort_keys=True)]
        if err:
            fails.append((cfg, 'continuation from batch boundary %d raised %s' % (k, err), k))
        elif fp != ref:
            fails.append((cfg, 'resume at batch boundary %d and run to the end: %s, uninterrupted run: %s' % (k, fp[:100], (ref or '')[:100]), k))
        elif not once:
            fails.append((cfg, 'continuation from batch boundary %d evaluated points again (likelihood calls != new n_like)' % k, k))
    # sampler-file codec model inside Coq: model writer = real full write; model update of the previous file = real file
    from common import coq_eval
    import re as _re
    codec = [(o['cfg'], c) for o in outs for c in o.get('codec_cases', [])]
    n_codec = 0
    broken = []

    def ev(sh):
        if not sh:
            return []
        defs = []
        for i, (_, c) in sh:
            defs.append('Definition a%d := %s.\nDefinition f%d : h5 := %s.\nDefinition c%d : h5 := %s.' % (i, c['abs'], i, c['full'], i, c['cur']))
            chk = 'h5_eqb 6 (write_file a%d) f%d' % (i, i)
            if c['prev'] is not None:
                defs.append('Definition p%d : h5 := %s.' % (i, c['prev']))
                chk += '; h5_eqb 6 (upd_file p%d a%d %d) c%d' % (i, i, c['shell'], i)
            if c.get('resumed'):
                defs.append('Definition r%d := %s.' % (i, c['resumed']))
                chk += '; match read_file (sf_static r%d) %d (%d%%positive, %d%%positive, %d%%positive) c%d with Some r => h5_eqb 6 (write_file r) (write_file r%d) | None => false end' % (
                    (i, c['n']) + tuple(c['dflt']) + (i, i))
            defs.append('Definition chk%d := [%s].' % (i, chk))
        body = CODEC_PRELUDE + '\n'.join(defs) + '\nEval vm_compute in [%s].\n' % '; '.join('(%d%%nat, chk%d)' % (i, i) for i, _ in sh)
        rc, o_ = coq_eval(body, 'cases_C05', timeout=900)
        if rc != 0:
            return [('coq', o_[-500:])]
        return [(int(m.group(1)), [x.strip() == 'true' for x in m.group(2).split(';')]) for m in _re.finditer(r'\(\s*(\d+)\s*,\s*\[([^\]]*)\]\s*\)', o_.replace('\n', ' ').replace('%nat', ''))]
    from concurrent.futures import ThreadPoolExecutor
    idx = list(enumerate(codec))
    with ThreadPoolExecutor(8) as ex:
        cres = list(ex.map(ev, [idx[i::8] for i in range(8)]))
    seen = set()
    for rr in cres:
        for item in rr:
            if item[0] == 'coq':
                broken.append(item[1])
                continue
            i, bits = item
            seen.add(i)
            n_codec += len(bits)
            if not all(bits):
                cfg_i, c = codec[i]
                what = 'the model writer (SamplerCodec.write_file) of the live state differs from the real full write' if not bits[0] else \
                       ('write_shell_update applied to the previous file differs from the model update (SamplerCodec.upd_file) of that file' if (c['prev'] is not None and not bits[1]) else
                        'the model reader (SamplerCodec.read_file) applied to the checkpoint differs from the object Sampler(resume=True) builds')
                broken.append('batch boundary %d (%s): %s' % (c['k'], c['phase'], what))
    if len(seen) != len(codec) and not broken:
        broken.append('no Coq verdict for %d sampler-codec cases' % (len(codec) - len(seen)))
    # control state across resumes: traced runs with resumes replayed through the control layer (Shell2Ctl): the
    # thresholds and update counters of a resumed sampler must be those of the model's uninterrupted history
    import shellfam
    import trace as T
    rng = np.random.default_rng(run.seed + 5)
    n_ctl = 6 if run.tier == 'quick' else 24
    cjobs = []
    for i in range(n_ctl):
        force = dict(resumes=3 + i % 3, toggles=i % 2, max_batches=200 if run.tier == 'quick' else 700, max_seconds=60 if run.tier == 'quick' else 240,
                     family=['gauss', 'plateau', 'twomode', 'funnel', 'halfspace', 'periodic'][i % 6], direct_every=False)
        cjobs.append((T.make_config(rng, i, run.tier, force), 'C05', dict(tmp=run.tmp)))
    cres_ctl = shellfam.run_jobs(cjobs, run.tmp, 'C05')
    ctl_events = ctl_resumes = 0
    for r in cres_ctl:
        if 'hung' in r:
            fails.append((r['cfg'], 'a traced run with resumes did not come back (run() spins or hangs after a resume): ' + r['hung'], -1))
            continue
        if 'crashed' in r:
            fails.append((r['cfg'], 'harness exception in the traced control-layer run: ' + r['crashed'][-300:], -1))
            continue
        ctl_events += r['events']
        ctl_resumes += r['stats']['resumes']
        for w, d in r['fails'].get('C05', []) + r['fails'].get('ANY', []):
            fails.append((r['cfg'], w, d.get('batch', -1)))
        if not r['model_ok'] and not r.get('borderline'):
            broken.append('control layer (thresholds, update counters, trigger) of a traced run with resumes differs from Shell2Ctl.cstep: %s' % (r['model_diff'][:1],))
    for o in outs:
        if o.get('keepdir'):
            shutil.rmtree(o['keepdir'], ignore_errors=True)
    phases = {}
    for o in outs:
        for p, n in o['phases'].items():
            phases[p] = phases.get(p, 0) + n
    run.cov.update(evaluations=sum(o['boundaries'] for o in outs) + n_cont, distinct_nontrivial=sum(o['compared'] for o in outs),
                   rule='every batch boundary of every configured run: fresh Sampler(resume=True) from a copy of the file, canonical deep comparison with the live object (exhaustive per run); '
                        'true continuations to the end from boundaries of every phase (quick) or all boundaries (thorough); the stepping run uses mixed run(n_like_max) strides',
                   exhaustive=True, configurations=len(cfgs), boundaries=sum(o['boundaries'] for o in outs), boundary_phases=phases, continuations=n_cont, full_write_comparisons=sum(o.get('full_write_compared', 0) for o in outs), sampler_codec_model_checks=n_codec, timeout_slices=sum(o.get('timeout_slices', 0) for o in outs), control_layer_events=ctl_events, control_layer_resumes=ctl_resumes,
                   direct_predicate_failures=len(fails),
                   samples=[dict(config={k: v for k, v in outs[0]['cfg'].items() if k != 'neural_network_kwargs'}, reference=outs[0].get('ref'), boundaries=outs[0]['boundaries'])])
    if fails:
        cfg, what, k = fails[0]
        found = 'harness exception' not in what and 'unknown' not in what
        run.violation('C05 %s: %s' % ('direct predicate fails on the implementation' if found else 'comparison could not be completed (fail closed)', what),
                      dict(kind='direct' if found else 'correspondence', config=cfg, boundary=k, what=what, n_failures=len(fails),
                           broken=None if found else 'resume comparison (harness/c05.py canonical form)'), found, key='C05:' + what[:30])
    elif broken:
        run.violation('C05: correspondence of the sampler-file codec model with the implementation broken (no direct predicate fails): ' + broken[0],
                      dict(kind='correspondence', broken='sampler.py write / write_shell_update ~ SamplerCodec.write_file / upd_file; run()/add_bound counters ~ Shell2Ctl.cstep', what=broken[:5]), False)


def replay(path):
    r = json.load(open(path))
    print(json.dumps(r, indent=1)[:1500])
    if 'config' not in r:
        return 0
    base = tempfile.mkdtemp(prefix='nvc05r_')
    try:
        o = one_config((r['config'], 'quick', base))
        print(o['fails'][:3])
        return 1 if o['fails'] else 0
    finally:
        shutil.rmtree(base, ignore_errors=True)
