"""C06 -- a kill at any instant leaves an atomic, loadable checkpoint.

Tie: a checkpointed run is executed under strace; every system call touching the checkpoint path P or any other file
of its directory (the temporary, T) is translated into an operation of the file-system model (Crash.v) and the
extracted recogniser `atomic_trace` is run on the COMPLETE trace: by theorem C06_atomic every prefix -- every write
system call as a crash point -- then leaves P equal to a completely written state.  An unparsable or unknown system
call on those paths fails closed.
Search / validation of the model: real kills (strace fault injection: SIGKILL at the N-th pwrite64), after which the
surviving file must load, equal one of the completed states, and a re-run of the same script must finish with the
result of the uninterrupted run."""
import json
import os
import re
import shutil
import subprocess
import sys
import tempfile
from concurrent.futures import ThreadPoolExecutor

import numpy as np

from common import BIN, Run, env_for_impl, VERIF, PY

CHILD = os.path.join(VERIF, 'harness', 'ckpt_child.py')
SYSCALLS = 'open,openat,openat2,creat,write,pwrite64,pwritev,pwritev2,writev,ftruncate,truncate,close,unlink,unlinkat,rename,renameat,renameat2,sendfile,copy_file_range,link,linkat,symlink,symlinkat,mmap,fallocate'


def configs(tier, seed):
    base = dict(family='gauss', n_dim=2, n_live=40 if tier == 'quick' else 60, n_batch=20, n_update=10 if tier == 'quick' else 20, n_networks=0, blob='none', seed=1 + seed % 1000, n_shell=5, n_eff=120 if tier == 'quick' else 300,
                neural_network_kwargs=dict(hidden_layer_sizes=(12, 6), max_iter=100))
    cs = [dict(base), dict(base, blob='float', periodic=[0], family='periodic', n_dim=3, discard_at_end=True)]
    if tier == 'thorough':
        cs += [dict(base, n_networks=1, n_live=80), dict(base, blob='vec3', n_batch=7, n_live=40, n_update=10), dict(base, family='halfspace', n_dim=3, blob='int'),
               dict(base, n_batch=50, n_live=100, n_update=None)]
    return cs


SECCOMP = []


def have_strace():
    global SECCOMP
    try:
        p = subprocess.run(['strace', '--seccomp-bpf', '-f', '-o', '/dev/null', '-e', 'trace=close', 'true'], stdout=subprocess.PIPE, stderr=subprocess.PIPE, timeout=20)
        if p.returncode == 0:
            SECCOMP = ['--seccomp-bpf']
            return True
        p = subprocess.run(['strace', '-o', '/dev/null', '-e', 'trace=close', 'true'], stdout=subprocess.PIPE, stderr=subprocess.PIPE, timeout=20)
        return p.returncode == 0
    except Exception:     # noqa
        return False


SHIM = os.path.join(VERIF, 'native', 'killshim.so')


def have_shim():
    src = os.path.join(VERIF, 'native', 'killshim.c')
    if not os.path.exists(SHIM) or os.path.getmtime(SHIM) < os.path.getmtime(src):
        subprocess.run(['gcc', '-O2', '-shared', '-fPIC', '-o', SHIM, src, '-ldl'], stdout=subprocess.PIPE, stderr=subprocess.PIPE)
    return os.path.exists(SHIM)


def run_child(cfg, d, strace_log=None, inject=None, py_ops=None, timeout=600):
    cfgp = os.path.join(d, 'cfg.json')
    json.dump(cfg, open(cfgp, 'w'))
    cmd = [PY, CHILD, cfgp, os.path.join(d, 'ck.hdf5'), os.path.join(d, 'completed.log')]
    if py_ops:
        cmd += ['--python-level-ops', py_ops]
    env = env_for_impl()
    if inject and have_shim():
        # SIGKILL at the n-th pwrite of the process: before the write, after it, or after a torn (half) write
        env['LD_PRELOAD'] = SHIM
        env['NV_KILL_AT'] = str(inject)
        env['NV_KILL_MODE'] = ['before', 'after', 'torn'][inject % 3]
    elif inject:
        cmd = ['strace', '-f', '-y', '-o', '/dev/null', '-e', 'trace=pwrite64', '-e', 'inject=pwrite64:signal=KILL:when=%d' % inject] + cmd
    if strace_log:
        cmd = ['strace'] + SECCOMP + ['-f', '-y', '-o', strace_log, '-e', 'trace=' + SYSCALLS] + cmd
    p = subprocess.run(cmd, env=env, stdout=subprocess.PIPE, stderr=subprocess.STDOUT, text=True, timeout=timeout, cwd=d)
    return p.returncode, p.stdout[-2000:]


class Unparsable(Exception):
    pass


def translate(logpath, ckpt):
    """strace log -> model ops for P (= ckpt) and T (= any other file in its directory)"""
    d = os.path.dirname(ckpt)
    fdmode = {}       # (pid-agnostic) fd -> ('P'|'T', writable)

    def which(path):
        path = os.path.normpath(path)
        if os.path.dirname(path) != d:
            return None
        base = os.path.basename(path)
        if base in ('completed.log', 'cfg.json') or base.endswith('.py'):
            return None
        return 'P' if path == ckpt else 'T'
    ops = []
    nwrites = 0
    for raw in open(logpath, errors='replace'):
        line = raw.strip()
        if 'resumed>' in line or 'unfinished' in line:
            # interleaved calls of several threads: only tolerated when they do not concern our paths
            if d in line and ('ck.hdf5' in line):
                raise Unparsable('interleaved system call on the checkpoint: ' + line[:200])
            continue
        m = re.match(r'\d+\s+(\w+)\((.*)\)\s+=\s+(-?\d+|\?)(.*)$', line)
        if not m:
            continue
        call, args, ret = m.group(1), m.group(2), m.group(3)
        if ret == '?' or ret.startswith('-'):
            failed = True
        else:
            failed = False
        if call in ('open', 'openat', 'openat2', 'creat'):
            pm = re.search(r'"([^"]+)"', args)
            if not pm:
                continue
            w = which(pm.group(1) if os.path.isabs(pm.group(1)) else os.path.join(d, pm.group(1)))
            if not w or failed:
                continue
            flags = args
            fd = ret
            writable = ('O_RDWR' in flags or 'O_WRONLY' in flags or call == 'creat')
            fdmode[fd] = (w, writable)
            if not writable:
                continue
            if 'O_EXCL' in flags:
                ops.append('creatx ' + w)
            elif 'O_TRUNC' in flags or call == 'creat':
                ops.append('creat ' + w)
            elif 'O_CREAT' in flags and 'O_APPEND' not in flags:
                ops.append('creat ' + w)       # create-if-missing without truncation behaves like create for a missing file
            else:
                ops.append('openrw ' + w)
        elif call in ('write', 'pwrite64', 'pwritev', 'pwritev2', 'writev', 'ftruncate', 'fallocate'):
            pm = re.match(r'(\d+)<([^>]+)>', args)
            if not pm:
                continue
            w = which(pm.group(2))
            if w and not failed:
                ops.append('write ' + w)
                nwrites += 1
        elif call in ('sendfile', 'copy_file_range'):
            pm = re.findall(r'(\d+)<([^>]+)>', args)
            if len(pm) >= 2:
                if call == 'sendfile':
                    dst, src = which(pm[0][1]), which(pm[1][1])
                else:
                    src, dst = which(pm[0][1]), which(pm[1][1])
                if dst and not failed:
                    if src == 'P' and dst == 'T':
                        if not ops or ops[-1] != 'copy':
                            ops.append('copy')
                    else:
                        ops.append('write ' + dst)
        elif call == 'close':
            pm = re.match(r'(\d+)<([^>]+)>', args)
            if pm and which(pm.group(2)):
                w, writable = fdmode.pop(pm.group(1), (which(pm.group(2)), True))
                if writable:
                    ops.append('close ' + which(pm.group(2)))
        elif call in ('unlink', 'unlinkat'):
            pm = re.search(r'"([^"]+)"', args)
            if pm and not failed:
                w = which(pm.group(1) if os.path.isabs(pm.group(1)) else os.path.join(d, pm.group(1)))
                if w:
                    ops.append('unlink ' + w)
        elif call in ('rename', 'renameat', 'renameat2'):
            pm = re.findall(r'"([^"]+)"', args)
            if len(pm) == 2 and not failed:
                a, b = (which(x if os.path.isabs(x) else os.path.join(d, x)) for x in pm)
                if a and b:
                    ops.append('rename %s %s' % (a, b))
                elif a or b:
                    raise Unparsable('rename across the checkpoint directory boundary: ' + line[:200])
        elif call in ('truncate', 'link', 'linkat', 'symlink', 'symlinkat'):
            pm = re.findall(r'"([^"]+)"', args)
            if any(which(x if os.path.isabs(x) else os.path.join(d, x)) for x in pm) and not failed:
                raise Unparsable('unmodelled system call on the checkpoint: ' + line[:200])
        elif call == 'mmap':
            pm = re.search(r'(\d+)<([^>]+)>', args)
            if pm and which(pm.group(2)) and 'PROT_WRITE' in args and 'MAP_SHARED' in args:
                raise Unparsable('writable shared mapping of the checkpoint: ' + line[:200])
    return ops, nwrites


def recogniser(ops, d):
    p = os.path.join(d, 'ops.txt')
    with open(p, 'w') as f:
        f.write('\n'.join(ops) + '\n')
    out = subprocess.run([os.path.join(BIN, 'crash_checker'), p], stdout=subprocess.PIPE, text=True).stdout
    m = re.search(r'ops=(\d+) atomic=(\w+)', out)
    return (m.group(2) == 'true', int(m.group(1))) if m else (None, 0)


def read_log(path):
    dig, end = [], None
    if os.path.exists(path):
        for l in open(path):
            if l.startswith(('W ', 'U ')):
                dig.append(l.split()[1])
            elif l.startswith('END'):
                end = l.strip()
    return dig, end


def kill_point(args):
    """run with SIGKILL at the n-th pwrite64; check the surviving file; re-run to completion"""
    cfg, n, ref_digests, ref_end, base = args
    d = tempfile.mkdtemp(prefix='nvk_', dir=base)
    try:
        rc, out = run_child(cfg, d, inject=n)
        ck = os.path.join(d, 'ck.hdf5')
        done, end = read_log(os.path.join(d, 'completed.log'))
        if end is not None:
            return dict(n=n, killed=False)
        k = len(done)
        res = dict(n=n, killed=True, completed=k)
        if done != ref_digests[:k]:
            return dict(res, fail='the killed run diverged from the reference run before the kill (not deterministic)', soft=True)
        if not os.path.exists(ck):
            if k >= 1:
                return dict(res, fail='checkpoint file missing after a kill although %d checkpoint(s) had been completed' % k)
            # no checkpoint yet: the re-run starts from scratch; whatever the killed run left behind (a partial temporary
            # file) must not be in its way
            rc2, out2 = run_child(cfg, d)
            done2, end2 = read_log(os.path.join(d, 'completed.log'))
            if end2 is None:
                return dict(res, fail='re-running the script after a kill during the first checkpoint write did not finish: %s' % out2[-300:])
            if 'ok=True' not in end2:
                return dict(res, fail='re-run after a kill during the first checkpoint write stopped without success: %s' % end2[:160])
            return dict(res, state='none-yet', same_result_as_uninterrupted=(end2 == ref_end))
        sys.path.insert(0, os.path.dirname(CHILD))
        from ckpt_child import h5_digest
        try:
            dg = h5_digest(ck)
        except Exception as e:     # noqa
            return dict(res, fail='checkpoint unreadable after the kill: %s: %s' % (type(e).__name__, str(e)[:120]))
        allowed = set(ref_digests[max(0, k - 1):k + 1])
        if dg not in allowed:
            where = 'an older state' if dg in ref_digests else 'a state the run never completely wrote (mixture)'
            return dict(res, fail='after the kill the checkpoint holds %s' % where)
        res['state'] = 'last-completed' if (k >= 1 and dg == ref_digests[k - 1]) else 'being-written'
        # a leftover temporary must not be in the way; the re-run continues and reproduces the uninterrupted result
        rc2, out2 = run_child(cfg, d)
        done2, end2 = read_log(os.path.join(d, 'completed.log'))
        if end2 is None:
            return dict(res, fail='re-running the script after the kill did not finish: %s' % out2[-300:])
        if 'ok=True' not in end2:
            return dict(res, fail='re-run after the kill stopped without success: %s' % end2[:160])
        # (a kill between the incremental update of the last exploration batch and the full write at the end of
        #  exploration legitimately costs one extra batch on the re-run, so equality with the reference is not demanded)
        res['same_result_as_uninterrupted'] = (end2 == ref_end)
        return res
    finally:
        shutil.rmtree(d, ignore_errors=True)


def main(run: Run, audit):
    base = run.tmp
    cfgs = configs(run.tier, run.seed)
    strace_ok = have_strace()
    run.cov['strace_available'] = strace_ok
    run.cov['kill_mechanism'] = 'LD_PRELOAD shim native/killshim.c (SIGKILL before / after / in the middle of the n-th pwrite)' if have_shim() else 'strace fault injection'
    fails, broken = [], []
    tot_ops = tot_writes = n_kill = 0
    states = {}
    samples = []
    all_res = []
    for ci, cfg in enumerate(cfgs):
        d = tempfile.mkdtemp(prefix='nvc06_', dir=base)
        slog = os.path.join(d, 'strace.log')
        pyops = os.path.join(d, 'pyops.txt')
        rc, out = run_child(cfg, d, strace_log=slog if strace_ok else None, py_ops=None if strace_ok else pyops)
        ref_digests, ref_end = read_log(os.path.join(d, 'completed.log'))
        if ref_end is None:
            broken.append('reference run %d did not finish: rc=%s %s' % (ci, rc, out[-400:]))
            continue
        try:
            if strace_ok:
                ops, nwrites = translate(slog, os.path.join(d, 'ck.hdf5'))
            else:
                ops = [l.strip() for l in open(pyops) if l.strip()]
                nwrites = sum(1 for o in ops if o.startswith('write'))
        except Unparsable as e:
            broken.append('system-call trace of run %d not recognised (fail closed): %s' % (ci, e))
            continue
        atomic, nops = recogniser(ops, d)
        tot_ops += nops
        tot_writes += nwrites
        samples.append(dict(config={k: v for k, v in cfg.items() if k != 'neural_network_kwargs'}, checkpoints=len(ref_digests), ops=nops, write_syscalls=nwrites,
                            atomic_trace=atomic, first_ops=ops[:14]))
        renames = sum(1 for o in ops if o == 'rename T P')
        if atomic is None:
            broken.append('crash_checker produced no verdict')
        elif not atomic:
            # find the first offending op for the report
            bad = next((o for o in ops if re.match(r'(creat|creatx|openrw|write|unlink|close) P|rename P', o)), ops[0] if ops else '?')
            broken.append('the system-call protocol of run %d is not recognised as atomic (first offending operation: %s)' % (ci, bad))
        elif renames < len(ref_digests):
            broken.append('run %d completed %d checkpoints but only %d atomic renames onto the checkpoint were seen' % (ci, len(ref_digests), renames))
        # kill injection
        if (strace_ok or have_shim()) and nwrites > 0:
            if run.tier == 'quick':
                pts = sorted(set([1, 2, 3, nwrites - 1, nwrites // 2] + list(np.random.default_rng(run.seed + ci).integers(1, max(2, nwrites), size=19 if ci == 0 else 7))))
            else:
                step = max(1, nwrites // (400 if ci < 2 else 80))
                pts = list(range(1, nwrites, step))
            pts = [int(p) for p in pts if 0 < p < nwrites]
            with ThreadPoolExecutor(16) as ex:
                res = list(ex.map(kill_point, [(cfg, n, ref_digests, ref_end, base) for n in pts]))
            all_res += res
            for r in res:
                if r.get('killed'):
                    n_kill += 1
                    states[r.get('state', 'fail')] = states.get(r.get('state', 'fail'), 0) + 1
                if r.get('fail') and not r.get('soft'):
                    fails.append((cfg, r['n'], r['fail']))
                elif r.get('fail'):
                    broken.append(r['fail'])
        shutil.rmtree(d, ignore_errors=True)
    run.cov.update(evaluations=tot_writes + n_kill, distinct_nontrivial=n_kill if n_kill else len(samples),
                   rule='crash points: every write system call of every traced run is covered by the recogniser + theorem (exhaustive per run); in addition real SIGKILLs are '
                        'injected at sampled (quick) / strided (thorough) pwrite64 calls and the surviving file is loaded, compared with the completed states, and the script re-run',
                   exhaustive=True, traced_runs=len(samples), model_ops=tot_ops, write_syscalls_covered=tot_writes, real_kills=n_kill, kill_outcomes=states, reruns_identical_to_uninterrupted=sum(1 for x in all_res if x.get('same_result_as_uninterrupted')),
                   disagreements_checked=len(broken), direct_predicate_failures=len(fails), samples=samples[:2])
    if fails:
        cfg, n, what = fails[0]
        run.violation('C06 direct predicate fails on the implementation: kill at pwrite64 #%d: %s' % (n, what),
                      dict(kind='direct', config=cfg, kill_at_pwrite64=n, what=what, n_failures=len(fails)), True, key='C06:' + what[:30])
    elif broken:
        run.violation('C06: %s' % broken[0], dict(kind='correspondence', broken='system-call protocol ~ Crash.atomic_trace / kill-injection harness', what=broken[:5]), False)


def replay(path):
    r = json.load(open(path))
    print(json.dumps(r, indent=1)[:2000])
    if r.get('kind') != 'direct':
        return 0
    cfg, n = r['config'], r['kill_at_pwrite64']
    base = tempfile.mkdtemp(prefix='nvc06r_')
    try:
        d = tempfile.mkdtemp(dir=base)
        run_child(cfg, d)
        ref_digests, ref_end = read_log(os.path.join(d, 'completed.log'))
        res = kill_point((cfg, n, ref_digests, ref_end, base))
        print(res)
        return 1 if res.get('fail') else 0
    finally:
        shutil.rmtree(base, ignore_errors=True)
