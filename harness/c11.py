"""C11 -- same seed, same result, however the likelihood is evaluated or observed.

Tie (this is where the weight is): paired runs on one seed must be bit-identical: twice; scalar vs vectorised likelihood;
likelihood pools of several sizes and an order-scrambling pool at equal batch size; verbose on/off; checkpoint file on/off;
dense, sparse and single-probe interleavings of the read-only accessors between single-batch slices, each accessor
call bracketed by a canonical deep snapshot (purity including generator state and bound caches)."""
import contextlib
import hashlib
import io
import time
import json
import os
import shutil
import sys
import tempfile
import traceback
import warnings
from multiprocessing import Pool

import numpy as np

from common import Run, use_repo
import trace as T
import c05

ACCESSORS = ['log_z', 'n_eff', 'eta', 'f_live', 'log_v_live', 'posterior', 'shell_bound_occupation', 'shell_association', 'posterior_blobs']


def build(nautilus, cfg, variant, tmp):
    prob = T.Problem(cfg)
    kw = dict(n_live=cfg['n_live'], n_update=cfg.get('n_update'), n_batch=cfg['n_batch'], n_networks=cfg['n_networks'], seed=cfg['seed'],
              vectorized=variant.get('vectorized', False), neural_network_kwargs=cfg.get('neural_network_kwargs', {}))
    if cfg.get('periodic') is not None:
        kw['periodic'] = np.array(cfg['periodic'])
    pl = variant.get('pool_l')
    if pl:
        kw['pool'] = (T.FakePool(pl, variant.get('scramble', 0)), None)
    if variant.get('pool_real'):
        kw['pool'] = (int(variant['pool_real']), None)      # a real multiprocessing.Pool created by the sampler itself
    if cfg.get('lik_tilt'):
        kw['likelihood_kwargs'] = dict(tilt=cfg['lik_tilt'])
    if variant.get('file'):
        kw['filepath'] = os.path.join(tmp, 'c11_%d.hdf5' % os.getpid())
        kw['resume'] = False
    like = prob.like_vector if variant.get('vectorized') else prob.like_scalar
    return nautilus.Sampler(prob.prior_fn, like, n_dim=cfg['n_dim'], **kw), prob


def call_accessor(s, name, rng):
    with np.errstate(all='ignore'):
        if name == 'log_v_live':
            # helper of the exploration phase (not among the accessors the property names): only meaningful before exploration ends
            return s.log_v_live if not s.explored else None
        if name in ('log_z', 'n_eff', 'eta', 'f_live'):
            return getattr(s, name)
        if name == 'posterior':
            return s.posterior() if sum(len(p) for p in s.points) else None
        if name == 'posterior_blobs':
            return s.posterior(return_blobs=True) if (s.blobs is not None and sum(len(p) for p in s.points)) else None
        if name == 'shell_bound_occupation':
            return s.shell_bound_occupation() if len(s.bounds) and all(len(p) for p in s.points) else None
        if name == 'shell_association':
            return s.shell_association(rng.random((20, s.n_dim))) if len(s.bounds) else None


def one_run(job):
    if job is None:
        return None
    cfg, variant, tmpbase = job
    nautilus = use_repo()
    warnings.filterwarnings('ignore')
    tmp = tempfile.mkdtemp(prefix='nvc11_', dir=tmpbase)
    out = dict(variant=variant, fails=[], accessor_calls=0)
    try:
        s, prob = build(nautilus, cfg, variant, tmp)
        args = dict(n_eff=cfg['n_eff'], n_shell=cfg['n_shell'], discard_exploration=cfg.get('discard_at_end', False))
        buf = io.StringIO()
        pattern = variant.get('accessors')
        with contextlib.redirect_stdout(buf):
            if pattern is None:
                with np.errstate(all='ignore'):
                    s.run(verbose=variant.get('verbose', False), **args)
            else:
                rng = np.random.default_rng(variant.get('aseed', 0))
                done = False
                k = 0
                single = int(rng.integers(3, 40)) if pattern == 'single' else None
                while not done and k < 5000:
                    with np.errstate(all='ignore'):
                        done = s.run(n_like_max=s.n_like + 1, **args)
                    k += 1
                    if pattern == 'dense':
                        names = list(rng.permutation(ACCESSORS)[:int(rng.integers(1, 5))])
                    elif pattern == 'sparse':
                        names = list(rng.permutation(ACCESSORS)[:1]) if rng.random() < 0.06 else []
                    else:
                        names = ['posterior', 'log_z'] if k == single else []
                    for nm in names:
                        try:
                            try:
                                before = c05.canon_sampler(s)
                            except c05.FailClosed as e:
                                out['failclosed'] = str(e)
                                before = None
                            call_accessor(s, nm, rng)
                            out['accessor_calls'] += 1
                            if before is None:
                                continue
                            after = c05.canon_sampler(s)
                            if before != after:
                                key = [kk for kk in before if before[kk] != after[kk]][0]
                                out['fails'].append('accessor %s is not read-only: %s changed at batch %d (%s)' % (nm, key, k, c05.first_diff(before[key], after[key], key)))
                        except c05.FailClosed as e:
                            out['failclosed'] = str(e)
                        except Exception as e:     # noqa
                            out['fails'].append('accessor %s raised %s: %s' % (nm, type(e).__name__, str(e)[:100]))
        out['fp'] = c05.fingerprint(s)
        if variant.get('pool_real') and getattr(s, 'pool_l', None) is not None:
            try:
                s.pool_l.pool.terminate()
            except Exception:     # noqa
                pass
        out['printed'] = len(buf.getvalue())
        out['stored'] = hashlib.sha1(b''.join(np.ascontiguousarray(p).tobytes() for p in s.points)).hexdigest()
        return out
    except Exception:     # noqa
        out['crashed'] = traceback.format_exc()[-1200:]
        return out
    finally:
        shutil.rmtree(tmp, ignore_errors=True)


def configs(tier, seed):
    base = dict(family='gauss', n_dim=2, n_live=60, n_batch=20, n_update=20, n_networks=0, blob='float', seed=11 + seed % 1000, n_shell=10, n_eff=300,
                neural_network_kwargs=dict(hidden_layer_sizes=(12, 6), max_iter=100))
    cs = [dict(base, lik_tilt=0.7), dict(base, family='twomode', blob='none', n_batch=12, n_live=50, prior_identity=True, lik_inplace=True),
          dict(base, n_networks=1, n_live=80, family='periodic', periodic=[0], n_dim=3, blob='two', discard_at_end=True),
          # a likelihood plateau (-inf half space) during exploration, and non-nested bounds whose transfer candidates are used up over several batches
          dict(base, family='halfspace', n_dim=2, blob='float', n_batch=10, n_live=50, prior_inplace=True), dict(base, family='funnel', n_dim=2, blob='vec3', n_batch=10, n_live=60, n_eff=200),
          # tiny batches: the transfer candidates of a new bound are used up over many batches (and many checkpoint updates)
          dict(base, family='twomode', n_dim=2, blob='two', n_batch=2, n_live=40, n_update=10, n_eff=150, n_shell=5)]
    if tier == 'thorough':
        cs += [dict(base, family='halfspace', n_dim=3, blob='vec3', n_batch=30), dict(base, family='funnel', n_dim=3, n_live=100, n_batch=60, blob='int'),
               dict(base, n_live=30, n_batch=6, n_update=8, n_eff=100, blob='none', prior_identity=True, lik_inplace=True)]
    return cs


def variants(tier):
    v = [dict(name='reference'), dict(name='again'), dict(name='vectorized', vectorized=True), dict(name='pool2', pool_l=2), dict(name='pool3', pool_l=3),
         dict(name='pool-scrambled', pool_l=4, scramble=7), dict(name='pool-real-2', pool_real=2), dict(name='verbose', verbose=True), dict(name='file', file=True),
         dict(name='accessors-dense', accessors='dense', aseed=1), dict(name='accessors-sparse', accessors='sparse', aseed=2),
         dict(name='accessors-single-a', accessors='single', aseed=3), dict(name='accessors-single-b', accessors='single', aseed=4),
         dict(name='accessors-single-c', accessors='single', aseed=5), dict(name='accessors-sparse-b', accessors='sparse', aseed=6)]
    if tier == 'thorough':
        v += [dict(name='accessors-single-%d' % i, accessors='single', aseed=10 + i) for i in range(10)] + [dict(name='vectorized-file', vectorized=True, file=True), dict(name='pool6', pool_l=6)]
    return v


def main(run: Run, audit):
    cfgs = configs(run.tier, run.seed)
    vs = variants(run.tier)
    jobs = [(c, v, run.tmp) for c in cfgs for v in vs]
    # under a watchdog: a run() that never returns (a variant may drive the sampler out of the unit cube) must end in a verdict
    pool = Pool(16)
    todo = [j if not j[1].get('pool_real') else None for j in jobs]
    asyncs = [pool.apply_async(one_run, (j,)) for j in todo]
    t_end = time.time() + (1500 if run.tier == 'quick' else 7200)
    res = []
    for j, a in zip(todo, asyncs):
        try:
            res.append(a.get(timeout=max(1.0, t_end - time.time())))
        except Exception as e:     # noqa  (multiprocessing.TimeoutError or a worker crash)
            res.append(dict(variant=j[1], fails=['run() did not return (%s): it spins or hangs' % type(e).__name__], accessor_calls=0, hung=True) if j is not None else None)
    pool.terminate()
    pool.join()
    # a sampler that creates a real multiprocessing pool cannot run inside a daemonic worker: these run here
    res = [r if r is not None else one_run(j) for r, j in zip(res, jobs)]
    fails, broken = [], []
    n_pairs = n_acc = 0
    k = 0
    for c in cfgs:
        group = res[k:k + len(vs)]
        k += len(vs)
        ref = group[0]
        for r in group:
            if 'crashed' in r:
                fails.append((c, r['variant'], 'run raised: ' + r['crashed'][-300:]))
                continue
            n_acc += r['accessor_calls']
            for f in r['fails']:
                fails.append((c, r['variant'], f))
            if r.get('hung'):
                continue
            if r.get('failclosed'):
                broken.append('%s' % r['failclosed'])
            if r is ref or 'fp' not in ref:
                continue
            n_pairs += 1
            if r['fp'] != ref['fp'] or r['stored'] != ref['stored']:
                fails.append((c, r['variant'], 'result differs from the reference run with the same seed: %s vs %s%s' % (r['fp'][:110], ref['fp'][:110], '' if r['stored'] == ref['stored'] else ' (stored unit-cube points differ)')))
        vb = [r for r in group if r['variant'].get('verbose')]
        if vb and 'printed' in vb[0] and vb[0]['printed'] == 0:
            broken.append('verbose run printed nothing: the verbose path was not exercised')
    run.cov.update(evaluations=len(jobs), distinct_nontrivial=n_pairs,
                   rule='per configuration one reference run and paired variants on the same seed (again, vectorised, likelihood pools 2/3/scrambled 4, verbose, checkpoint file, '
                        'dense / sparse / single-probe accessor interleavings between single-batch slices); non-trivial = pairs compared bit for bit',
                   configurations=len(cfgs), variants=[v['name'] for v in vs], accessor_calls_bracketed_by_snapshots=n_acc, direct_predicate_failures=len(fails),
                   samples=[dict(config={kk: vv for kk, vv in cfgs[0].items() if kk != 'neural_network_kwargs'}, reference=res[0].get('fp'))])
    if fails:
        c, v, what = fails[0]
        run.violation('C11 direct predicate fails on the implementation (variant %s): %s' % (v['name'], what),
                      dict(kind='direct', config=c, variant=v, what=what, n_failures=len(fails)), True, key='C11:' + v['name'])
    elif broken:
        run.violation('C11: comparison could not be completed (fail closed): ' + broken[0], dict(kind='correspondence', broken='paired-run harness / canonical snapshot', what=broken[:5]), False)


def replay(path):
    r = json.load(open(path))
    print(json.dumps(r, indent=1)[:1500])
    if 'config' not in r:
        return 0
    base = tempfile.mkdtemp(prefix='nvc11r_')
    try:
        a = one_run((r['config'], dict(name='reference'), base))
        b = one_run((r['config'], r['variant'], base))
        print(a.get('fp'), b.get('fp'), b.get('fails'))
        return 1 if (a.get('fp') != b.get('fp') or b.get('fails')) else 0
    finally:
        shutil.rmtree(base, ignore_errors=True)
