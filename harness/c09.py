"""C09 -- writing and reading back any bound preserves its behaviour.

Tie: real bound objects of every class / option / history are (a) abstracted to terms of the codec model, (b) written
with their own write()/update() and the HDF5 group dumped to an `h5` term, (c) read back and abstracted again.  Inside
Coq (vm_compute): the model's writer produces exactly the dumped group (modulo entry order), the model's reader applied
to the dump returns the persisted record, and an incremental update equals a full write.  In Python: the record of the
object read back equals the persisted record.  Unknown attributes on any object fail closed.
Search: behavioural predicates on the implementation: contains on probes, log_v, sample streams under a cloned
generator, update-then-read versus the live object."""
import os
import re
import sys
import tempfile
import warnings
from concurrent.futures import ThreadPoolExecutor

import numpy as np

from common import Run, use_repo, coq_eval

TAGS = {'type': 1, 'n_dim': 2, 'c': 3, 'A': 4, 'B': 5, 'B_inv': 6, 'dim_cube': 7, 'cube': 8, 'ellipsoid': 9, 'log_v_all': 10,
        'enlarge_per_dim': 11, 'n_points_min': 12, 'n_sample': 13, 'n_reject': 14, 'unit': 15, 'bound_class': 16, 'bound': 17,
        'points_bound': 18, 'points': 19, 'periodic': 20, 'centers': 21, 'score_predict_min': 22, 'outer_bound': 23, 'emulator': 24,
        'n_networks': 25, 'coefs': 26, 'intercepts': 27, 'mean': 28, 'scale': 29, 'shift': 30, 'n_neural_bounds': 31, 'neural_bound': 32}
CONST = {'UnitCube': 101, 'Ellipsoid': 102, 'UnitCubeEllipsoidMixture': 103, 'MultiEllipsoid': 104, True: 105, False: 106,
         'PhaseShift': 107, 'NautilusBound': 108}
KNOWN_ATTRS = {
    'UnitCube': {'n_dim', 'rng'}, 'Ellipsoid': {'n_dim', 'c', 'A', 'B', 'B_inv', 'rng'},
    'UnitCubeEllipsoidMixture': {'n_dim', 'dim_cube', 'cube', 'ellipsoid'},
    'Union': {'n_dim', 'enlarge_per_dim', 'n_points_min', 'cube', 'points_bounds', 'bounds', 'log_v_all', 'block', 'points', 'n_sample', 'n_reject', 'rng'},
    'NeuralBound': {'n_dim', 'outer_bound', 'emulator', 'score_predict_min'},
    'NeuralNetworkEmulator': {'mean', 'scale', 'neural_networks'},
    'NautilusBound': {'n_dim', 'shift', 'neural_bounds', 'outer_bound', 'rng', 'points', 'n_sample', 'n_reject'},
    'PhaseShift': {'periodic', 'centers'},
}


class FailClosed(Exception):
    pass


class Tok:
    """opaque value tokens by (kind, shape, bytes); key strings of emulator attributes get tags of their own"""

    def __init__(self):
        self.d = {}
        self.meta = {}
        self.keys = {}

    def get(self, v):
        if isinstance(v, (bytes, str, np.str_, np.bytes_)):
            v = v.decode() if isinstance(v, (bytes, np.bytes_)) else str(v)
            if v in CONST:
                return CONST[v]
            key = ('s', (), v.encode())
        elif isinstance(v, (bool, np.bool_)):
            return CONST[bool(v)]
        else:
            a = np.asarray(v)
            if a.dtype.kind in 'iuf':
                key = ('n', a.shape, a.astype(float).tobytes())
            elif a.dtype.kind == 'b':
                key = ('b', a.shape, a.tobytes())
            elif a.dtype.kind in 'SUO':
                key = ('s', a.shape, str(a.tolist()).encode())
            else:
                key = (a.dtype.kind, a.shape, a.tobytes())
        if key not in self.d:
            self.d[key] = 1000 + len(self.d)
            self.meta[self.d[key]] = v
        return self.d[key]

    def key(self, s):
        return self.keys.setdefault(s, 1 + len(self.keys))


def P(t):
    return '%d%%positive' % t


def L(xs):
    return '[' + '; '.join(xs) + ']'


def check_attrs(obj):
    cls = type(obj).__name__
    if cls not in KNOWN_ATTRS:
        raise FailClosed('unknown class %s in a bound' % cls)
    extra = set(vars(obj)) - KNOWN_ATTRS[cls]
    if extra:
        raise FailClosed('unknown attribute(s) %s on %s: not covered by the codec model' % (sorted(extra), cls))


# ---------- abstraction of live objects to model terms ----------
def abs_cube(c, tok):
    check_attrs(c)
    return '(mkCube %s)' % P(tok.get(c.n_dim))


def abs_ell(e, tok):
    check_attrs(e)
    return '(mkEll %s %s %s %s %s)' % tuple(P(tok.get(getattr(e, k))) for k in ['n_dim', 'c', 'A', 'B', 'B_inv'])


def opt(x, f, tok):
    return 'None' if x is None else '(Some %s)' % f(x, tok)


def abs_member(m, tok):
    if type(m).__name__ == 'Ellipsoid':
        return '(MEll %s)' % abs_ell(m, tok)
    check_attrs(m)
    return '(MMix (mkMix %s %s %s %s))' % (P(tok.get(m.n_dim)), P(tok.get(m.dim_cube)), opt(m.cube, abs_cube, tok), opt(m.ellipsoid, abs_ell, tok))


def abs_mix(m, tok):
    check_attrs(m)
    return '(mkMix %s %s %s %s)' % (P(tok.get(m.n_dim)), P(tok.get(m.dim_cube)), opt(m.cube, abs_cube, tok), opt(m.ellipsoid, abs_ell, tok))


def abs_union(u, tok, persisted=False):
    check_attrs(u)
    if not hasattr(u, 'cube'):
        raise FailClosed("Union object has no attribute 'cube'")
    blk = 'None' if (persisted or not hasattr(u, 'block')) else '(Some %s)' % P(tok.get(u.block))
    return '(mkUnion %s %s %s %s %s %s %s %s %s %s %s)' % (
        P(tok.get(u.n_dim)), P(tok.get(u.log_v_all)), P(tok.get(u.enlarge_per_dim)), P(tok.get(u.n_points_min)), P(tok.get(u.n_sample)),
        P(tok.get(u.n_reject)), opt(u.cube, abs_cube, tok), L(abs_member(m, tok) for m in u.bounds), L(P(tok.get(p)) for p in u.points_bounds),
        P(tok.get(u.points)), blk)


def storable(v):
    import h5py
    try:
        with h5py.File('probe.h5', 'w', driver='core', backing_store=False) as f:
            f.attrs['x'] = v
        return True
    except (TypeError, ValueError):
        return False


def abs_network(nw, tok, stored_keys=None):
    d = vars(nw)
    items = []
    for k in d:
        if k in ('coefs_', 'intercepts_'):
            continue
        if stored_keys is not None:
            if k not in stored_keys:
                continue
        elif not storable(d[k]):
            continue
        items.append((tok.key(k), tok.get(d[k])))
    items.sort()
    return '(mkNet %s %s %s)' % (L('(%s, %s)' % (P(k), P(v)) for k, v in items), L(P(tok.get(c)) for c in nw.coefs_), L(P(tok.get(c)) for c in nw.intercepts_))


def abs_emu(e, tok, stored=None):
    check_attrs(e)
    return '(mkEmu %s %s %s %s)' % (P(tok.get(len(e.neural_networks))),
                                    L(abs_network(nw, tok, None if stored is None else stored[i]) for i, nw in enumerate(e.neural_networks)),
                                    P(tok.get(e.mean)), P(tok.get(e.scale)))


def abs_neural(n, tok, stored=None):
    check_attrs(n)
    return '(mkNeural %s %s %s %s)' % (P(tok.get(n.n_dim)), P(tok.get(n.score_predict_min)), abs_ell(n.outer_bound, tok),
                                      'None' if n.emulator is None else '(Some %s)' % abs_emu(n.emulator, tok, stored))


def abs_shift(s, tok):
    check_attrs(s)
    return '(mkShift %s %s)' % (P(tok.get(s.periodic)), P(tok.get(s.centers)))


def abs_naut(b, tok, persisted=False, stored=None):
    check_attrs(b)
    return '(mkNaut %s %s %s %s %s %s %s %s)' % (
        P(tok.get(b.n_dim)), opt(b.shift, abs_shift, tok), P(tok.get(len(b.neural_bounds))),
        L(abs_neural(n, tok, None if stored is None else stored[i]) for i, n in enumerate(b.neural_bounds)),
        abs_union(b.outer_bound, tok, persisted), P(tok.get(b.points)), P(tok.get(b.n_sample)), P(tok.get(b.n_reject)))


# ---------- dump of an HDF5 group to an h5 term ----------
def name_of(s, tok, in_emulator):
    m = re.fullmatch(r'(bound|points_bound|neural_bound)_(\d+)', s)
    if m:
        return (1, TAGS[m.group(1)], int(m.group(2)), 0, '(NmI %s %s)' % (P(TAGS[m.group(1)]), m.group(2)))
    if in_emulator:
        m = re.fullmatch(r'(coefs|intercepts)_(\d+)_(\d+)', s)
        if m:
            return (3, TAGS[m.group(1)], int(m.group(2)), int(m.group(3)), '(NmKI %s %s %s)' % (P(TAGS[m.group(1)]), m.group(2), m.group(3)))
        if s in ('mean', 'scale', 'n_networks'):
            return (0, TAGS[s], 0, 0, '(Nm %s)' % P(TAGS[s]))
        k, i = s.rsplit('_', 1)
        if not i.isdigit():
            raise FailClosed('unparsable emulator key %r' % s)
        return (2, tok.key(k), int(i), 0, '(NmK %s %s)' % (P(tok.key(k)), i))
    if s in TAGS:
        return (0, TAGS[s], 0, 0, '(Nm %s)' % P(TAGS[s]))
    raise FailClosed('unknown HDF5 key %r' % s)


def dump(g, tok, in_emulator=False):
    import h5py
    at = sorted((name_of(k, tok, in_emulator), tok.get(v)) for k, v in g.attrs.items())
    ds = sorted((name_of(k, tok, in_emulator), tok.get(np.array(v))) for k, v in g.items() if isinstance(v, h5py.Dataset))
    ks = sorted(((name_of(k, tok, in_emulator), dump(v, tok, k == 'emulator')) for k, v in g.items() if isinstance(v, h5py.Group)), key=lambda t: t[0])
    return 'Grp %s %s %s' % (L('(%s, %s)' % (n[4], P(t)) for n, t in at), L('(%s, %s)' % (n[4], P(t)) for n, t in ds), L('(%s, %s)' % (n[4], t) for n, t in ks))


def stored_keys(g):
    """per neural bound, per network: the attribute keys present in the file"""
    out = []
    i = 0
    while 'neural_bound_%d' % i in g:
        nb = g['neural_bound_%d' % i]
        per = {}
        if 'emulator' in nb:
            for k in nb['emulator'].attrs:
                if k == 'n_networks':
                    continue
                kk, j = k.rsplit('_', 1)
                per.setdefault(int(j), set()).add(kk)
        out.append(per)
        i += 1
    return out


# ---------- construction of bounds ----------
def clone_rng(rng):
    r = np.random.default_rng()
    r.bit_generator.state = rng.bit_generator.state
    return r


def make_points(rng, d, kind):
    if kind == 'two':
        p = np.vstack([rng.normal(0.3, 0.03, (90, d)), rng.normal(0.7, 0.03, (90, d))])
    elif kind == 'face':
        p = rng.normal(0.5, 0.05, (150, d))
        p[:, 0] = rng.random(150)
    elif kind == 'corner':
        p = np.abs(rng.normal(0.0, 0.05, (150, d)))
    else:
        p = rng.normal(0.5, 0.06, (150, d))
    return np.clip(p, 1e-6, 1 - 1e-6)


def build_cases(nb, seed, tier):
    """yield (label, class name, object, reader(group, rng) -> object)"""
    B = nb.bounds
    from nautilus.bounds.basic import UnitCubeEllipsoidMixture
    from nautilus.bounds.neural import NeuralBound
    rng0 = np.random.default_rng(seed)
    dims = [2, 3, 5] if tier == 'quick' else [2, 3, 4, 5, 8]
    cases = []
    for d in dims:
        rng = np.random.default_rng(int(rng0.integers(1 << 30)))
        cases.append(('cube-%d' % d, 'cube', B.UnitCube.compute(d, rng=rng)))
        rng = np.random.default_rng(int(rng0.integers(1 << 30)))
        cases.append(('ell-%d' % d, 'ell', B.Ellipsoid.compute(make_points(rng0, d, 'one'), rng=rng)))
        for kind in ('face', 'one', 'corner'):
            rng = np.random.default_rng(int(rng0.integers(1 << 30)))
            cases.append(('mix-%s-%d' % (kind, d), 'mix', UnitCubeEllipsoidMixture.compute(make_points(rng0, d, kind), rng=rng)))
    hist = [(0, 0, 0), (2, 0, 40), (3, 1, 0), (1, 0, 1500)] if tier == 'quick' else [(0, 0, 0), (1, 0, 0), (2, 0, 40), (3, 1, 0), (3, 1, 70), (1, 0, 1500), (4, 2, 10)]
    for d in dims[:3] if tier == 'quick' else dims:
        for unit in (True, False):
            for cls in (B.Ellipsoid, UnitCubeEllipsoidMixture):
                for nsplit, ntrim, nsamp in hist:
                    rng = np.random.default_rng(int(rng0.integers(1 << 30)))
                    pts = make_points(rng0, d, 'two' if cls is B.Ellipsoid else 'face')
                    if ntrim:
                        pts = np.vstack([pts, np.clip(rng0.normal(0.5, 0.3, (d + 8, d)), 1e-6, 1 - 1e-6)])
                    u = B.Union.compute(pts, unit=unit, bound_class=cls, n_points_min=d + 5, rng=rng)
                    for _ in range(nsplit):
                        u.split()
                    for _ in range(ntrim):
                        u.trim(threshold=3.0)
                    if nsamp:
                        u.sample(nsamp)
                    cases.append(('union-%d-%s-%s-s%dt%dn%d' % (d, 'unit' if unit else 'free', cls.__name__[:3], nsplit, ntrim, nsamp), 'union', u))
    # unions with more than ten members (two-digit group names: bound_10, bound_11, ...), split until nothing splits any more
    for d in (2, 3):
        for cls in (B.Ellipsoid, UnitCubeEllipsoidMixture):
            rng = np.random.default_rng(int(rng0.integers(1 << 30)))
            centres = rng0.random((13, d)) * 0.8 + 0.1
            pts = np.clip(np.vstack([rng0.normal(c, 0.004, (30, d)) for c in centres]), 1e-6, 1 - 1e-6)
            u = B.Union.compute(pts, unit=True, bound_class=cls, n_points_min=d + 5, rng=rng)
            for _ in range(40):
                if not u.split():
                    break
            u.sample(40)
            cases.append(('union-%d-many%d-%s' % (d, len(u.bounds), cls.__name__[:3]), 'union', u))
    nets = [0, 1] if tier == 'quick' else [0, 1, 3]
    nn_kwargs = dict(hidden_layer_sizes=(12, 6), max_iter=150)
    for d in dims[:2] if tier == 'quick' else dims[:4]:
        for nn in nets:
            rng = np.random.default_rng(int(rng0.integers(1 << 30)))
            pts = rng0.random((300, d))
            ll = -np.sum((pts - 0.5) ** 2, axis=1) * 40
            lmin = np.sort(ll)[-100]
            cases.append(('neural-%d-n%d' % (d, nn), 'neural', NeuralBound.compute(pts, ll, lmin, n_networks=nn, neural_network_kwargs=nn_kwargs, rng=rng)))
            for periodic in (None, [0]) if tier == 'quick' else (None, [0], [0, d - 1]):
                for nsamp in (0, 250) if tier == 'quick' else (0, 250, 2500):
                    rng = np.random.default_rng(int(rng0.integers(1 << 30)))
                    pts = rng0.random((400, d))
                    c = 0.5 if periodic is None else 0.02
                    dist = np.abs(pts - c)
                    if periodic is not None:
                        dist[:, periodic] = np.minimum(dist[:, periodic], 1 - dist[:, periodic])
                    ll = -np.sum(dist ** 2, axis=1) * 40
                    lmin = np.sort(ll)[-120]
                    b = B.NautilusBound.compute(pts, ll, lmin, -2.0 * d, n_networks=nn, neural_network_kwargs=nn_kwargs,
                                                periodic=None if periodic is None else np.array(periodic), n_points_min=d + 10,
                                                split_threshold=1.0 if nsamp else 100, rng=rng)
                    b.sample(1000, return_points=False)
                    if nsamp:
                        b.sample(nsamp)
                    cases.append(('nautilus-%d-n%d-%s-s%d' % (d, nn, 'per' if periodic else 'np', nsamp), 'naut', b))
    return cases


READERS = {'cube': ('UnitCube', 'r_cube', 'w_cube', abs_cube), 'ell': ('Ellipsoid', 'r_ell', 'w_ell', abs_ell),
           'mix': ('UnitCubeEllipsoidMixture', None, 'w_mix', abs_mix), 'union': ('Union', None, 'w_union', None),
           'neural': ('NeuralBound', None, 'w_neural', None), 'naut': ('NautilusBound', None, 'w_naut', None)}


def behaviour(nb, kind, b, b2, rng_probe, label):
    """direct predicates: the object read back behaves like the original"""
    fails = []
    d = int(b.n_dim)
    probes = [rng_probe.random((400, d))]
    if kind in ('union',):
        probes += [np.vstack(b.points_bounds)]
    if kind in ('naut',):
        probes += [np.vstack(b.outer_bound.points_bounds) if b.shift is None else b.shift.transform(np.vstack(b.outer_bound.points_bounds), inverse=True)]
    probes = np.vstack(probes)
    with np.errstate(all='ignore'):
        try:
            c1, c2 = np.asarray(b.contains(probes)), np.asarray(b2.contains(probes))
        except Exception as e:     # noqa
            return ['%s: contains() raised %s: %s' % (label, type(e).__name__, str(e)[:100])]
    if not np.array_equal(c1, c2):
        fails.append('%s: contains() differs on %d of %d probe points after the round trip' % (label, int(np.sum(c1 != c2)), len(probes)))
    if kind != 'neural':
        try:
            if kind in ('union', 'naut', 'ell', 'mix', 'cube'):
                v1, v2 = b.log_v, b2.log_v
                if not (v1 == v2):
                    fails.append('%s: log_v %r != %r after the round trip' % (label, v1, v2))
            for n in (7, 60, 1100):
                s1, s2 = b.sample(n), b2.sample(n)
                if not np.array_equal(s1, s2):
                    fails.append('%s: sample stream differs after the round trip (call with n=%d)' % (label, n))
                    break
            if kind in ('union', 'naut') and not (b.log_v == b2.log_v):
                fails.append('%s: log_v differs after further sampling' % label)
        except Exception as e:     # noqa
            fails.append('%s: sample()/log_v raised %s: %s' % (label, type(e).__name__, str(e)[:100]))
    return fails


def run_case(nb, case, path, idx):
    """returns (coq_text or None, python_failures, stats)"""
    import h5py
    label, kind, b = case
    tok = Tok()
    fails = []
    cls = type(b)
    has_rng = hasattr(b, 'rng')
    coq = []
    try:
        with h5py.File(path, 'w') as f:
            g = f.create_group('g')
            b.write(g)
            tree = dump(g, tok, False)
            st = stored_keys(g) if kind == 'naut' else None
            st_neural = None
            if kind == 'neural' and 'emulator' in g:
                per = {}
                for k in g['emulator'].attrs:
                    if k != 'n_networks':
                        kk, j = k.rsplit('_', 1)
                        per.setdefault(int(j), set()).add(kk)
                st_neural = per
        src = b.rng if has_rng else (b.ellipsoid.rng if getattr(b, 'ellipsoid', None) is not None else (b.cube.rng if getattr(b, 'cube', None) is not None else None))
        if kind == 'neural':
            src = b.outer_bound.rng
        rng2 = clone_rng(src) if src is not None else np.random.default_rng(1)
        with h5py.File(path, 'r') as f:
            b2 = cls.read(f['g'], rng=rng2) if kind != 'neural' else cls.read(f['g'], rng=rng2)
        # records
        if kind == 'cube':
            rec, rec2, pers = abs_cube(b, tok), abs_cube(b2, tok), abs_cube(b, tok)
        elif kind == 'ell':
            rec, rec2, pers = abs_ell(b, tok), abs_ell(b2, tok), abs_ell(b, tok)
        elif kind == 'mix':
            rec, rec2, pers = abs_mix(b, tok), abs_mix(b2, tok), abs_mix(b, tok)
        elif kind == 'union':
            rec, rec2, pers = abs_union(b, tok), abs_union(b2, tok), abs_union(b, tok, persisted=True)
        elif kind == 'neural':
            rec, rec2, pers = abs_neural(b, tok), abs_neural(b2, tok, st_neural), abs_neural(b, tok)
        else:
            rec, rec2, pers = abs_naut(b, tok), abs_naut(b2, tok, persisted=True, stored=st), abs_naut(b, tok, persisted=True)
        if rec2 != pers:
            fails.append('%s: the record of the object read back differs from the persisted record of the original' % label)
    except FailClosed as e:
        return None, ['%s: %s' % (label, e)], dict(kind=kind)
    except Exception as e:     # noqa
        return None, ['%s: write/read raised %s: %s' % (label, type(e).__name__, str(e)[:150])], dict(kind=kind)
    fails += behaviour(nb, kind, b, b2, np.random.default_rng(idx), label)
    # incremental update (union / nautilus): write, sample more, update, compare with a full write
    upd = None
    if kind in ('union', 'naut') and not fails:
        try:
            with h5py.File(path, 'w') as f:
                g = f.create_group('g')
                b.write(g)
                rec0 = abs_union(b, tok) if kind == 'union' else abs_naut(b, tok)
                b.sample(333)
                b.update(g)
                tree_u = dump(g, tok, False)
                rec1 = abs_union(b, tok) if kind == 'union' else abs_naut(b, tok)
                g2 = f.create_group('full')
                b.write(g2)
                tree_f = dump(g2, tok, False)
            if tree_u != tree_f:
                fails.append('%s: group after write+sample+update differs from a full write of the same state' % label)
            rng3 = clone_rng(b.rng)
            with h5py.File(path, 'r') as f:
                b3 = cls.read(f['g'], rng=rng3)
            fails += behaviour(nb, kind, b, b3, np.random.default_rng(idx + 7), label + ' (after update)')
            upd = (rec0, rec1, tree_u)
        except FailClosed as e:
            fails.append('%s: %s' % (label, e))
        except Exception as e:     # noqa
            fails.append('%s: update path raised %s: %s' % (label, type(e).__name__, str(e)[:150]))
    # Coq side
    bools = {t: np.asarray(a) for t, a in tok.meta.items() if isinstance(a, np.ndarray) and a.dtype == bool}
    ints = {}
    for t, a in tok.meta.items():
        try:
            aa = np.asarray(a)
            if aa.shape == () and aa.dtype.kind in 'iu':
                ints[t] = int(aa)
        except Exception:     # noqa
            pass
    lens = {t: np.asarray(a).shape[0] for t, a in tok.meta.items() if isinstance(a, np.ndarray) and np.asarray(a).ndim == 1 and np.asarray(a).dtype.kind in 'fiu'}
    i = idx
    coq.append('Definition anyc%d (t : tok) : bool := %s false.' % (i, ''.join('if Pos.eqb t %s then %s else ' % (P(t), 'true' if a.any() else 'false') for t, a in bools.items())))
    coq.append('Definition allc%d (t : tok) : bool := %s true.' % (i, ''.join('if Pos.eqb t %s then %s else ' % (P(t), 'true' if a.all() else 'false') for t, a in bools.items())))
    coq.append('Definition alen%d (t : tok) : nat := %s 0.' % (i, ''.join('if Pos.eqb t %s then %d else ' % (P(t), n) for t, n in lens.items())))
    coq.append('Definition tnat%d (t : tok) : nat := %s 0.' % (i, ''.join('if Pos.eqb t %s then %d else ' % (P(t), n) for t, n in ints.items() if 0 <= n < 1000)))
    knl = tok.keys.get('n_layers_', 9999)
    coq.append('Definition nlay%d (l : list (positive * tok)) : nat := match find (fun kv => Pos.eqb (fst kv) %s) l with Some kv => tnat%d (snd kv) - 1 | None => 0 end.' % (i, P(knl), i))
    coq.append('Definition rec%d := %s.\nDefinition pers%d := %s.\nDefinition g%d : h5 := %s.' % (i, rec, i, pers, i, tree))
    w = READERS[kind][2]
    if kind == 'cube':
        r = 'r_cube g%d' % i
    elif kind == 'ell':
        r = 'r_ell g%d' % i
    elif kind == 'mix':
        r = 'r_mix anyc%d allc%d g%d' % (i, i, i)
    elif kind == 'union':
        r = 'r_union anyc%d allc%d alen%d g%d' % (i, i, i, i)
    elif kind == 'neural':
        r = 'r_neural tnat%d nlay%d g%d' % (i, i, i)
    else:
        r = 'r_naut anyc%d allc%d alen%d tnat%d nlay%d g%d' % (i, i, i, i, i, i)
    coq.append('Definition chk%d : list bool := [h5_eqb 12 (%s rec%d) g%d; match %s with Some x => true | None => false end; match %s with Some x => h5_eqb 12 (%s x) (%s pers%d) | None => false end%s].' % (
        i, w, i, i, r, r, w, w, i,
        '' if upd is None else '; h5_eqb 12 (%s (%s %s) %s) (%s)' % ('upd_union_grp' if kind == 'union' else 'upd_naut_grp', w, upd[0], upd[1], upd[2])))
    return '\n'.join(coq), fails, dict(kind=kind, entries=tree.count('%positive'))


PRELUDE = '''From Coq Require Import List PArith Bool Arith. Import ListNotations.
Require Import NV.Codec NV.Codec2.
Definition sub_assoc {V} (eqv : V -> V -> bool) (a b : list (name * V)) : bool :=
  forallb (fun kv => match assoc (fst kv) b with Some v => eqv (snd kv) v | None => false end) a && Nat.eqb (length a) (length b).
Fixpoint h5_eqb (fuel : nat) (a b : h5) : bool :=
  match fuel with O => false | S f => match a, b with Grp aa ad ak, Grp ba bd bk =>
    sub_assoc Pos.eqb aa ba && sub_assoc Pos.eqb ad bd && sub_assoc (h5_eqb f) ak bk end end.
'''


def main(run: Run, audit):
    nb = use_repo()
    warnings.filterwarnings('ignore')
    import nautilus.bounds     # noqa
    cases = build_cases(nb, run.seed % 100000, run.tier)
    tmp = run.tmp
    texts, fails, kinds = [], [], {}
    for idx, case in enumerate(cases):
        text, f, st = run_case(nb, case, os.path.join(tmp, 'c09_%d.h5' % idx), idx)
        kinds[st['kind']] = kinds.get(st['kind'], 0) + 1
        fails += f
        if text is not None:
            texts.append((idx, case[0], text))
    # Coq evaluation in shards
    shards = [texts[i::8] for i in range(8)]

    def runshard(sh):
        if not sh:
            return []
        body = PRELUDE + '\n'.join(t for _, _, t in sh) + '\nEval vm_compute in [%s].\n' % '; '.join('(%d, chk%d)' % (i, i) for i, _, _ in sh)
        rc, out = coq_eval(body, 'cases_C09', timeout=900)
        if rc != 0:
            return [('coq', None, out[-600:])]
        res = []
        for m in re.finditer(r'\(\s*(\d+)\s*,\s*\[([^\]]*)\]\s*\)', out.replace('\n', ' ')):
            res.append((int(m.group(1)), [x.strip() == 'true' for x in m.group(2).split(';')], None))
        return res
    with ThreadPoolExecutor(8) as ex:
        outs = list(ex.map(runshard, shards))
    mism, broken, n_ok = [], [], 0
    names = {i: l for i, l, _ in texts}
    seen = set()
    for o in outs:
        for i, bits, err in o:
            if i == 'coq':
                broken.append(err)
                continue
            seen.add(i)
            if all(bits):
                n_ok += 1
            else:
                what = ['writer model != written group', 'reader model fails on the written group', 'reader model result != persisted record', 'incremental update != model update'][bits.index(False)]
                mism.append((names[i], what))
    missing = [names[i] for i in names if i not in seen]
    if missing and not broken:
        broken.append('no Coq verdict for cases %s' % missing[:5])
    run.cov.update(evaluations=len(cases), distinct_nontrivial=len(cases) - kinds.get('cube', 0),
                   rule='bound objects of every class x dimension x option (unit / free, ellipsoid / mixture members, 0-3 networks, periodic) x history (fresh, split, trimmed, sampled, updated); '
                        'non-trivial = everything but the bare unit cube; each case is checked by the codec model inside Coq (writer = file, reader(file) = persisted record, update = full write) and behaviourally',
                   by_class=kinds, coq_cases_ok=n_ok, disagreements_checked=len(mism), direct_predicate_failures=len(fails),
                   samples=[c[0] for c in cases[:3]] + [c[0] for c in cases[-3:]])
    if fails:
        run.violation('C09 direct predicate fails on the implementation: ' + fails[0], dict(kind='direct', what=fails[0], all=fails[:10], seed=run.seed % 100000, tier=run.tier), True,
                      key='C09:' + fails[0].split(':')[1][:30] if ':' in fails[0] else None)
    elif mism or broken:
        what = ('%s: %s' % mism[0]) if mism else broken[0]
        run.violation('correspondence of the codec model with the implementation broken (no behavioural predicate fails): ' + what,
                      dict(kind='correspondence', broken='bounds write/read/update ~ Codec.v/Codec2.v', what=what, others=mism[:10]), False)


def replay(path):
    import json
    r = json.load(open(path))
    print(json.dumps(r, indent=1)[:3000])
    return 0
