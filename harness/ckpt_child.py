"""Child process of the C06 / C05 checks: one checkpointed sampler run.
usage: ckpt_child.py <config.json> <checkpoint path> <log path> [--python-level-ops <ops path>]
After every COMPLETED write()/write_shell_update() the logical content of the checkpoint is digested and appended to
the log (flushed), so that a killed run tells how many checkpoints it had completed."""
import hashlib
import json
import os
import sys

sys.path.insert(0, os.path.dirname(os.path.abspath(__file__)))
import numpy as np


def h5_digest(path):
    import h5py
    h = hashlib.sha1()

    def visit(g, prefix):
        for k in sorted(g.attrs):
            v = g.attrs[k]
            h.update(('A:%s/%s=' % (prefix, k)).encode())
            h.update(np.asarray(v).tobytes() if not isinstance(v, (str, bytes)) else str(v).encode())
        for k in sorted(g):
            it = g[k]
            if isinstance(it, h5py.Dataset):
                a = np.array(it)
                h.update(('D:%s/%s:%s:%s=' % (prefix, k, a.shape, a.dtype)).encode())
                h.update(a.tobytes())
            else:
                visit(it, prefix + '/' + k)
    with h5py.File(path, 'r') as f:
        visit(f, '')
    return h.hexdigest()


def main():
    cfg = json.load(open(sys.argv[1]))
    path, logp = sys.argv[2], sys.argv[3]
    from common import use_repo
    nautilus = use_repo()
    import warnings
    warnings.filterwarnings('ignore')
    import trace as T
    ops_path = sys.argv[sys.argv.index('--python-level-ops') + 1] if '--python-level-ops' in sys.argv else None
    log = open(logp, 'a')
    if ops_path:
        install_python_level_tracer(ops_path, path)

    class S(nautilus.Sampler):
        def write(self, filepath, overwrite=False):
            super().write(filepath, overwrite=overwrite)
            log.write('W %s\n' % h5_digest(filepath))
            log.flush()
            os.fsync(log.fileno())

        def write_shell_update(self, filepath, shell):
            super().write_shell_update(filepath, shell)
            log.write('U %s\n' % h5_digest(filepath))
            log.flush()
            os.fsync(log.fileno())

    prob = T.Problem(cfg)
    kw = dict(n_live=cfg['n_live'], n_update=cfg.get('n_update'), n_batch=cfg['n_batch'], n_networks=cfg['n_networks'], seed=cfg['seed'],
              filepath=path, resume=True, vectorized=cfg.get('vectorized', False))
    if cfg.get('periodic') is not None:
        kw['periodic'] = np.array(cfg['periodic'])
    if cfg.get('neural_network_kwargs'):
        kw['neural_network_kwargs'] = cfg['neural_network_kwargs']
    like = prob.like_vector if cfg.get('vectorized') else prob.like_scalar
    s = S(prob.prior_fn, like, n_dim=cfg['n_dim'], **kw)
    log.write('START n_like=%d\n' % s.n_like)
    log.flush()
    with np.errstate(all='ignore'):
        ok = s.run(n_eff=cfg['n_eff'], n_shell=cfg['n_shell'], n_like_max=cfg.get('n_like_max', np.inf),
                   discard_exploration=cfg.get('discard_at_end', False))
    with np.errstate(all='ignore'):
        pts, lw, ll = s.posterior()[:3]
    fin = hashlib.sha1(np.ascontiguousarray(pts).tobytes() + np.ascontiguousarray(lw).tobytes() + np.ascontiguousarray(ll).tobytes()).hexdigest()
    log.write('END ok=%s n_like=%d log_z=%s n_eff=%s posterior=%s\n' % (ok, s.n_like, float(s.log_z).hex(), float(s.n_eff).hex(), fin))
    log.flush()


def install_python_level_tracer(ops_path, ckpt):
    """fallback when strace is not available: record the file operations visible at the Python level"""
    import builtins
    import shutil
    import h5py
    out = open(ops_path, 'a')
    d = os.path.dirname(os.path.abspath(ckpt))

    def cls(p):
        p = os.path.abspath(str(p))
        if os.path.dirname(p) != d:
            return None
        return 'P' if p == os.path.abspath(ckpt) else 'T'

    def emit(s):
        out.write(s + '\n')
        out.flush()
    orig_init = h5py.File.__init__
    orig_close = h5py.File.close

    def init(self, name, mode='r', *a, **k):
        c = cls(name)
        orig_init(self, name, mode, *a, **k)
        self._nv = None
        if c and mode != 'r':
            self._nv = c
            emit({'w': 'creat', 'x': 'creatx', 'w-': 'creatx'}.get(mode, 'openrw') + ' ' + c)
            emit('write ' + c)

    def close(self):
        c = getattr(self, '_nv', None)
        orig_close(self)
        if c:
            emit('close ' + c)
            self._nv = None
    h5py.File.__init__ = init
    h5py.File.close = close
    for mod, name in ((os, 'replace'), (os, 'rename')):
        orig = getattr(mod, name)

        def f(a, b, _orig=orig, **k):
            r = _orig(a, b, **k)
            if cls(a) and cls(b):
                emit('rename %s %s' % (cls(a), cls(b)))
            return r
        setattr(mod, name, f)
    for mod, name in ((os, 'remove'), (os, 'unlink')):
        orig = getattr(mod, name)

        def g(a, _orig=orig, **k):
            r = _orig(a, **k)
            if cls(a):
                emit('unlink ' + cls(a))
            return r
        setattr(mod, name, g)
    orig_copy = shutil.copyfile

    def cp(a, b, **k):
        r = orig_copy(a, b, **k)
        if cls(a) == 'P' and cls(b) == 'T':
            emit('creat T')
            emit('copy')
            emit('close T')
        elif cls(b):
            emit('creat ' + cls(b))
            emit('write ' + cls(b))
            emit('close ' + cls(b))
        return r
    shutil.copyfile = cp
    import nautilus.sampler as ns
    if hasattr(ns, 'copyfile'):
        ns.copyfile = cp


if __name__ == '__main__':
    main()
