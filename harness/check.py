"""Entry point: ./check <ID> --tier quick|thorough ; ./check <ID> --replay <path> ; ./check --setup"""
import argparse
import importlib
import os
import sys
import time
import traceback

sys.path.insert(0, os.path.dirname(os.path.abspath(__file__)))
import common
from common import Run, build, audit_property_file, forbidden_tokens

KERNEL = 'Coq 8.16.1 kernel (coqc, full .vo build; vm_compute; no native_compute)'
EXTRACTION = 'extraction with ExtrOcamlBasic only (bool/option/unit/list/prod/sumbool/sumor mapped to OCaml types; nat, positive, Z, Q kept as extracted inductives), OCaml 4.13.1, ocaml/<x>_driver.ml'

SHELL_TRUST = ['harness/trace.py: TracedSampler (subclass wrapping add_bound, sample_shell, evaluate_likelihood, add_samples), ids by exact byte pattern, inference of replaced proposals / used transfer candidates from observables, contains table filled by calling bound.contains',
               'modelled not verified: bound construction and geometry (contains is an arbitrary oracle in the theorems), numpy Generator, the floating-point decisions of run() (f_live, n_eff target, arg-max shell, acceptance of a bound) which enter as oracle bits']

# per property: harness module, property file, theorems that must be present (each with Print Assumptions beneath)
PROPS = {
    'C15': dict(module='c15', pfile='P_C15',
                required=['C15_inv', 'C15_dim', 'C15_physical', 'C15_physical_total', 'C15_physical_rows', 'C15_monotone',
                          'C15_dict', 'C15_reject', 'C15_reject_duplicate', 'C15_reject_auto_collision', 'C15_reject_self_link',
                          'C15_reject_undeclared_link', 'C15_reject_bad_type', 'C15_asis_reject_refuted', 'C15_asis_dup_refuted'],
                trusted=[KERNEL, EXTRACTION,
                         'harness/c15.py: canonicalisation of Python keys/dists to model tokens, tolerance 1e-12 on float values',
                         'modelled not verified: scipy.stats distributions (isf is an oracle), numpy broadcasting in unit_to_physical']),
    'C16': dict(module='c16', pfile='P_C16',
                required=['C16_grid_range', 'C16_grid_others', 'C16_grid_inverse', 'C16_grid_gap', 'C16_float_range', 'C16_float_inverse', 'C16_float_asis_refuted'],
                trusted=[KERNEL, 'model evaluated inside Coq by vm_compute on generated cases_C16_*.v (no extraction)',
                         'axioms (C16_float_range and C16_float_inverse only): primitive float/int63 operations and the stdlib FloatAxioms specs (add/sub/opp/ltb/leb, Prim2SF_valid, SF2Prim_Prim2SF, Prim2SF_SF2Prim), ClassicalDedekindReals.sig_forall_dec, sig_not_dec, Classical_Prop.classic, FunctionalExtensionality.functional_extensionality_dep (through Reals and Flocq)',
                         'harness/c16.py: hex-float literal printing, grid scaling by 2^21',
                         'modelled not verified: numpy remainder (npy_divmod) semantics on (-1,2), written into PhaseFloat.fmod1 and compared bit for bit']),
    'C13': dict(module='c13', pfile='P_C13',
                required=['C13_wf', 'C13_split', 'C13_trim', 'C13_trim_asis_refuted', 'C13_topup', 'C13_topup_halves', 'C13_topup_asis_refuted'],
                trusted=[KERNEL, EXTRACTION,
                         'harness/c13.py: derivation of the oracle data (blocked attempts, labels, trim decision) from observable records; exact dyadic volumes exp(log_v)',
                         'modelled not verified: GaussianMixture clustering, MVEE construction of the halves, ellipsoids_overlap (all oracle data checked by the model step)']),
    'C01': dict(module='c01', pfile='P_C01', required=['C01_partition', 'C01_assoc', 'C01_disjoint', 'C01_limbo'], trusted=[KERNEL, EXTRACTION] + SHELL_TRUST),
    'C02': dict(module='c02', pfile='P_C02', required=['C02_aligned', 'C02_fraction', 'C02_volume', 'C02_evidence', 'C02_weights', 'C02_kish', 'C02_exec_volume', 'C02_exec_shell_evidence', 'C02_exec_shell_neff', 'C02_exec_evidence', 'C02_exec_neff'],
                trusted=[KERNEL, EXTRACTION] + SHELL_TRUST + ['the exact evaluator EstimExec (dyadic sums) used for the comparison is proved to compute the specification statistics of Estim.v (C02_exec_*)', 'exp/log at the boundary of the exact model and the 1e-9 tolerance in harness/shellfam.py']),
    'C03': dict(module='c03', pfile='P_C03', required=['C03_rows', 'C03_once', 'C03_posterior', 'C03_blob_shape', 'C03_squeeze_asis_refuted'], trusted=[KERNEL, EXTRACTION] + SHELL_TRUST),
    'C10': dict(module='c10', pfile='P_C10', required=['C10_batch', 'C10_counter', 'C10_support', 'C10_stored', 'C10_lockstep', 'C10_stored_nocand', 'C10_count', 'C10_loop_stored', 'C10_budget', 'C10_success', 'C10_branch', 'C10_stop_refines', 'C10_stop_rule'], trusted=[KERNEL, EXTRACTION] + SHELL_TRUST + ['oracle bits of the run() loop: n_eff >= target and f_live <= target recomputed by the harness from the public accessors (floating point is not modelled), time-out only exercised as timeout=0; order of log-likelihood values given to the control layer as ranks computed by numpy']),
    'C12': dict(module='c12', pfile='P_C12', required=['C12_frozen', 'C12_nonempty', 'C12_toggle', 'C12_view'], trusted=[KERNEL, EXTRACTION] + SHELL_TRUST),
    'C09': dict(module='c09', pfile='P_C09',
                required=['C09_cube', 'C09_ellipsoid', 'C09_mixture', 'C09_union', 'C09_shift', 'C09_emulator', 'C09_neural', 'C09_nautilus', 'C09_update_union', 'C09_update_nautilus'],
                trusted=[KERNEL, 'model evaluated inside Coq by vm_compute on generated cases_C09.v (no extraction)',
                         'harness/c09.py: abstraction of live objects through __dict__ (unknown attributes fail closed), HDF5 group dump, value tokens by byte pattern',
                         'modelled not verified: h5py/HDF5 storing and returning values unchanged, MLPRegressor.predict reading only restored attributes (checked behaviourally), numpy Generator state cloning']),
    'C06': dict(module='c06', pfile='P_C06', required=['C06_atomic', 'C06_inplace_refuted', 'C06_update_refuted'],
                trusted=[KERNEL, EXTRACTION, 'harness/c06.py: strace log parser (unknown system calls on the checkpoint paths fail closed), mapping of every non-checkpoint file of the checkpoint directory to the temporary T',
                         'modelled not verified: POSIX rename atomicity, page-cache persistence across process kill (no power loss), HDF5-internal consistency of a completely written and closed file']),
    'C05': dict(module='c05', pfile='P_C05', required=['C05_any_history', 'C05_update_full_write', 'C05_batch_frame', 'C05_toggle_frame', 'C05_read_write', 'C05_read_update', 'C05_bounds_read', 'C05_bounds_read_asis_refuted', 'C05_resume_chain', 'C05_control_core', 'C05_control_aligned', 'C05_control_counters', 'C05_control_zoom', 'C05_control_iters', 'C05_control_threshold', 'C05_control_threshold_unique'],
                trusted=[KERNEL, 'harness/c05.py: canonical deep form of Sampler and bound objects (attribute lists explicit, unknown attributes fail closed; Union.block whitelisted as never read after construction; of an MLPRegressor the weights and the attributes predict() reads)',
                         'the hypotheses of the generic theorem other than the round trip (a batch is a function of the compared state; observables respect the comparison) are validated by bit-for-bit continuations, not proved',
                         'sampler-file codec (SamplerCodec.v) evaluated inside Coq on dumps of the real files: values are opaque tokens by byte pattern, bound groups opaque subtrees (their codec is C09); control layer (Shell2Ctl.v) extracted with ExtrOcamlBasic, order of log-likelihood values supplied as ranks computed by numpy',
                         'modelled not verified: numpy Generator determinism, h5py']),
    'C14': dict(module='c14', pfile='P_C14', required=['C14_floor_or_next', 'C14_expectation', 'C14_boost_le_1', 'C14_no_duplicates', 'C14_aligned', 'C14_order', 'C14_weights'],
                trusted=[KERNEL, 'model evaluated inside Coq by vm_compute on generated cases_C14.v',
                         'axioms (C14_expectation only, through Reals and Coquelicot): ClassicalDedekindReals.sig_forall_dec, FunctionalExtensionality.functional_extensionality_dep',
                         'harness/c14.py: recording generator proxy, exact dyadic conversion of the float relative weights and draws, dont-care band 1e-12 around the threshold',
                         'modelled not verified: numpy Generator.random being uniform on [0,1) (the redraw ensemble supports it at 6.2 sigma per sample)']),
    'C07': dict(module='c07', pfile='P_C07',
                required=['C07_ell_sample', 'C07_chol_frame', 'C07_mvee_enclose', 'C07_union_sample', 'C07_mixture', 'C07_neural_sub', 'C07_nautilus_sub', 'C07_nautilus_sample', 'C07_split_keeps', 'C07_trim_keeps', 'C07_covered_contained'],
                trusted=[KERNEL, 'model evaluated inside Coq by vm_compute on generated cases_C07.v (exact rationals)', 'mathcomp 1.15 (ssreflect, algebra) for the matrix theorems; no axioms',
                         'harness/c07.py: exact dyadic conversion of the implementation matrices, dont-care band 1e-9 around the surface',
                         'modelled not verified: floating-point rounding inside numpy/LAPACK (Cholesky, inverse, einsum), the Khachiyan iteration (its output is checked: rescaled quadratic forms of the construction points), MLPRegressor scores (oracle bits)']),
    'C08': dict(module='c08', pfile=['P_C08', 'P_C08_det', 'P_C08_real'],
                required=['C08_uniform', 'C08_accept', 'C08_filter', 'C08_sample', 'C08_accepted', 'C08_merge', 'C08_det', 'C08_radial', 'C08_radius'],
                trusted=[KERNEL, 'model evaluated inside Coq by vm_compute on generated cases_C08.v', 'mathcomp for C08_det; no axioms', 'C08_radial / C08_radius use the real numbers of the standard library (axioms ClassicalDedekindReals.sig_forall_dec, sig_not_dec, Classical_Prop.classic, FunctionalExtensionality.functional_extensionality_dep)',
                         'harness/c08.py: recording generator proxy, member proxies, multiplicities recomputed with the real members',
                         'NOT proved: the Lebesgue measure of an ellipsoid (no measure theory available): the constant pi^(d/2)/Gamma(d/2+1) and the calibration are checked numerically; uniformity of numpy multinomial / normal / shuffle / random is an oracle',
                         'the statistical checks (occupancy, calibration) are support at a false-alarm level below 1e-9 each, not proof']),
    'C04': dict(module='c04', pfile='P_C04', required=['C04_shell_unbiased', 'C04_shell_limit', 'C04_unbiased', 'C04_volumes_sum'],
                trusted=[KERNEL, 'PARTIAL: the theorems are on finite cell spaces and reduce unbiasedness to C01, C02, C08; continuum limit, adaptive stopping, pseudo-importance bias and "within the reported error" are NOT proved',
                         'harness/c04.py: closed-form evidence of the test problems (erf, elementary integrals), t-thresholds frozen after calibration on the unchanged tree',
                         'the seed ensembles are statistical support at a false-alarm level below 1e-6 per test, not proof']),
    'C11': dict(module='c11', pfile='P_C11', required=['C11_accessors', 'C11_pool'],
                trusted=[KERNEL, 'the theorems are light (a pure accessor cannot change a functional model; gathering by index undoes any scheduling order); the weight of this check is on the paired bit-identical runs',
                         'harness/c11.py and c05.py: fingerprint of the results and canonical deep snapshot (unknown attributes fail closed)',
                         'modelled not verified: real multiprocessing / dask pools (an in-process order-scrambling pool stands in for worker scheduling)']),
}


def main():
    ap = argparse.ArgumentParser()
    ap.add_argument('pid', nargs='?')
    ap.add_argument('--tier', default=os.environ.get('VERIF_TIER', 'quick'), choices=['quick', 'thorough'])
    ap.add_argument('--replay')
    ap.add_argument('--setup', action='store_true')
    ap.add_argument('--no-build', action='store_true')
    a = ap.parse_args()
    seed = int(os.environ.get('VERIF_SEED', '20260930'))
    if a.setup:
        ok, log = build()
        import subprocess
        subprocess.run(['gcc', '-O2', '-shared', '-fPIC', '-o', os.path.join(common.VERIF, 'native', 'killshim.so'), os.path.join(common.VERIF, 'native', 'killshim.c'), '-ldl'])
        print(log[-3000:])
        print('setup', 'ok' if ok else 'FAILED')
        return 0 if ok else 1
    if a.pid not in PROPS:
        print('unknown property', a.pid)
        return 2
    cfg = PROPS[a.pid]
    mod = importlib.import_module(cfg['module'])
    if a.replay:
        return mod.replay(a.replay)
    run = Run(a.pid, a.tier, seed, level=cfg.get('level', 'proof'))
    audit = dict(ok=False, theorems={}, problems=[], required=cfg['required'], pfile=' '.join(cfg['pfile']) if isinstance(cfg['pfile'], list) else cfg['pfile'], trusted_base=cfg['trusted'])
    # backstop: a call into the implementation that never returns must end in a verdict, not in a hung check
    import threading
    deadline = int(os.environ.get('VERIF_DEADLINE', '5400' if a.tier == 'quick' else '43200'))

    def on_deadline():
        try:
            run.violation('the check did not complete within %d s: some call into the implementation does not return (or the machine is far too slow); '
                          'no verdict on the property could be reached' % deadline, dict(broken='harness run did not terminate', kind='correspondence', deadline=deadline), False)
            run.finish(audit)
        finally:
            import multiprocessing
            for p in multiprocessing.active_children():
                try:
                    p.kill()
                except Exception:     # noqa
                    pass
            os._exit(1)
    timer = threading.Timer(deadline, on_deadline)
    timer.daemon = True
    timer.start()
    try:
        ok, log = (True, '') if a.no_build else build()
        audit['build_ok'] = ok
        toks = forbidden_tokens()
        pfiles = cfg['pfile'] if isinstance(cfg['pfile'], list) else [cfg['pfile']]
        res = dict(theorems={}, problems=[], ok=True)
        for pf in pfiles:
            src = open(os.path.join(common.COQ, pf + '.v')).read() if os.path.exists(os.path.join(common.COQ, pf + '.v')) else ''
            req = [r for r in cfg['required'] if ('Theorem %s ' % r) in src or ('Theorem %s:' % r) in src]
            one = audit_property_file(pf, req)
            res['theorems'].update(one['theorems'])
            res['problems'] += one['problems']
            res['ok'] = res['ok'] and one['ok']
        missing = [r for r in cfg['required'] if r not in res['theorems']]
        if missing:
            res['problems'].append('required theorems not found in %s: %s' % (pfiles, missing))
            res['ok'] = False
        audit.update(theorems=res['theorems'], problems=res['problems'] + toks, ok=res['ok'] and not toks and ok)
        run.cov['build_ok'] = ok
        run.cov['audit_problems'] = audit['problems']
        run.cov['axioms_used'] = sorted({x for v in res['theorems'].values() for x in v})
        proof_broken = None
        if not ok:
            proof_broken = 'Coq/OCaml build failed: ' + log[-1500:]
        elif audit['problems']:
            proof_broken = 'audit of %s failed: %s' % (cfg['pfile'], '; '.join(audit['problems'])[:1500])
        run.proof_broken = proof_broken
        mod.main(run, audit)
        if proof_broken and not any(v[2] for v in run.violations):
            # a theorem no longer checks and the search found no failing input on the implementation
            run.violation(proof_broken, dict(broken=proof_broken, kind='proof'), False)
    except Exception:
        tb = traceback.format_exc()
        run.violation('check crashed (fail closed): ' + tb[-1500:], dict(broken='harness exception', traceback=tb), False)
    timer.cancel()
    return run.finish(audit)


if __name__ == '__main__':
    sys.exit(main())
