"""Traced sampler runs: the implementation is driven through its documented public methods, every add_bound /
add_samples / end-of-exploration / discard toggle / resume becomes an event with the oracle data the model needs, and
the state after every event is recorded so that the extracted shell machine can be compared step by step.

No source hooks: TracedSampler subclasses nautilus.Sampler and wraps public methods."""
import copy
import math
import os
import shutil
import subprocess
import tempfile
import traceback

import numpy as np

from common import BIN, use_repo


class Ids:
    """opaque ids by exact byte pattern"""

    def __init__(self):
        self.d = {}
        self.rows = []

    def get(self, row, dtype=float):
        a = np.ascontiguousarray(row, dtype=dtype)
        k = a.tobytes()
        if k not in self.d:
            self.d[k] = len(self.d) + 1
            self.rows.append(a)
        return self.d[k]

    def has(self, row, dtype=float):
        return np.ascontiguousarray(row, dtype=dtype).tobytes() in self.d


class BoundProxy:
    def __init__(self, real, log):
        object.__setattr__(self, '_r', real)
        object.__setattr__(self, '_log', log)

    def sample(self, *a, **k):
        pts = self._r.sample(*a, **k)
        self._log.append(np.array(pts))
        return pts

    def __getattr__(self, n):
        return getattr(self._r, n)

    def __setattr__(self, n, v):
        setattr(self._r, n, v)


HEARTBEAT = [None]      # path of the heartbeat file of the traced run in this process (see shellfam.run_jobs)


def _beat():
    if HEARTBEAT[0]:
        try:
            os.utime(HEARTBEAT[0], None)
        except OSError:
            pass


class FakePool:
    """in-process pool with a `map` and a `size`: results in order, evaluation order scrambled"""

    def __init__(self, size, scramble_seed=0, pickle_func=False):
        self.size = size
        self._rng = np.random.default_rng(scramble_seed)
        self._pickle = pickle_func

    def map(self, func, iterable):
        _beat()
        items = list(iterable)
        order = self._rng.permutation(len(items))
        out = [None] * len(items)
        for i in order:
            # a real pool hands every worker a pickled copy of the function (and of the object it is bound to)
            f = copy.deepcopy(func) if self._pickle else func
            out[i] = f(copy.deepcopy(items[i]) if self._pickle else items[i])
        return out


class Trace:
    def __init__(self, cfg):
        self.cfg = cfg
        self.pid = Ids()
        self.vid = Ids()
        self.wid = Ids()
        self.wid.d[b'noblob'] = 1
        self.wid.rows.append(None)
        self.bidmap = {}        # id(bound object) -> bid
        self.bound_obj = {}     # bid -> current bound object
        self.keep = []          # keep objects alive so that id() stays unique
        self.lines = []         # events for the model
        self.expected = []      # expected state dump after each X
        self.snaps = []         # numeric snapshots (for the estimator model)
        self.fails = {}         # property id -> list of (what, detail)
        self.stats = dict(events=0, ab=0, abf=0, batches=0, transfers_used=0, multi_round=0, later_rejected=0,
                          later_nonempty_batches=0, ee=0, sd=0, resumes=0, empty_removed=0, sampling_batches=0,
                          exploration_batches=0, neg_inf=0)
        self.eval_log = []      # (points passed to evaluate_likelihood)
        self.blob_shapes = set()  # (batch size, shape of the blob array evaluate_likelihood returned)
        self.call_log = 0       # number of likelihood calls seen by the instrumented likelihood

    in_run = False
    iter_open = False
    seen_explored = False
    run_args = None

    def check_ee(self, s):
        """emit the end-of-exploration event as soon as it is observable"""
        if s.explored and not self.seen_explored:
            self.seen_explored = True
            self.event('EE %d' % (1 if s._discard_exploration else 0))
            self.stats['ee'] += 1
            self.stats['empty_removed'] += len(self.bound_obj) - len(s.bounds)
            self.snapshot(s, 'end_exploration')

    def fail(self, prop, what, **detail):
        self.fails.setdefault(prop, []).append((what, detail))

    pending_ct = None

    def counters(self, s):
        return (int(getattr(s, 'n_update_iter', 0)), int(getattr(s, 'n_like_iter', 0)))

    def fill_ct(self, s):
        """run() updates n_update_iter / n_like_iter after add_bound / add_samples return: read them at the next observation"""
        if self.pending_ct is not None:
            self.pending_ct['nui'], self.pending_ct['nli'] = self.counters(s)
            self.pending_ct = None

    def bid(self, b):
        return self.bidmap[id(b)]

    def new_bound(self, b):
        n = len(self.bound_obj) + 1
        self.bidmap[id(b)] = n
        self.bound_obj[n] = b
        self.keep.append(b)
        return n

    def blob_id(self, row):
        if row is None:
            return 1
        a = np.ascontiguousarray(row)
        k = a.tobytes() + str(a.dtype).encode()
        if k not in self.wid.d:
            self.wid.d[k] = len(self.wid.d) + 1
            self.wid.rows.append(a)
        return self.wid.d[k]

    def event(self, line):
        self.lines.append(line)
        self.stats['events'] += 1

    def snapshot(self, s, label):
        """state dump in the driver's format + numeric data"""
        _beat()
        out = []
        nb = len(s.bounds)
        has_blobs = s.blobs is not None
        for i in range(nb):
            nse = int(s.shell_n_sample_exp[i]) if s.explored and len(s.shell_n_sample_exp) == nb else 0
            ee = int(s.shell_end_exp[i]) if s.explored and len(s.shell_end_exp) == nb else 0
            P = s.points[i]
            bl = [self.blob_id(b) for b in s.blobs[i]] if has_blobs else [1] * len(P)
            out.append('SH %d ns=%d nse=%d ee=%d pts=%s lls=%s bls=%s' % (
                self.bid(s.bounds[i]), int(s.shell_n_sample[i]), nse, ee,
                ','.join(str(self.pid.get(p)) for p in P), ','.join(str(self.vid.get([v])) for v in s.log_l[i]),
                ','.join(str(x) for x in bl)))
        tp = s.points_t if len(s.shell_t) > 0 else []
        tb = [self.blob_id(b) for b in s.blobs_t] if (s.blobs_t is not None and len(s.shell_t) > 0) else [1] * len(tp)
        out.append('T pts=%s lls=%s bls=%s from=%s' % (
            ','.join(str(self.pid.get(p)) for p in tp), ','.join(str(self.vid.get([v])) for v in (s.log_l_t if len(tp) else [])),
            ','.join(str(x) for x in tb), ','.join(str(int(x)) for x in (s.shell_t if len(tp) else []))))
        out.append('ST nlike=%d explored=%s discard=%s' % (int(s.n_like), 'true' if s.explored else 'false',
                                                          'true' if s._discard_exploration else 'false'))
        # control layer: thresholds now, counters as run() leaves them after this call returns (filled at the next observation)
        self.fill_ct(s) if label not in ('add_bound', 'add_samples') else None
        ct = dict(lmin=[self.vid.get([v]) for v in s.shell_log_l_min], nui=None, nli=None)
        if label in ('add_bound', 'add_samples'):
            self.pending_ct = ct
        else:
            ct['nui'], ct['nli'] = self.counters(s)
        out.append(ct)
        out.append('END')
        self.lines.append('X')
        self.expected.append((label, out))
        if self.cfg.get('direct_every', True):
            # after a batch only the rows just appended can be new offenders; everything is re-checked after a bound
            # insertion, the end of exploration, a toggle or a resume
            direct_c01(self, s, only_last=self.cfg['n_batch'] + 64 if label == 'add_samples' else None)
        # numeric snapshot
        with np.errstate(all='ignore'):
            try:
                log_z = s.log_z
                n_eff = s.n_eff
                eta = s.eta
            except Exception as e:     # noqa
                log_z = n_eff = eta = None
                self.fail('C02', 'accessor raised %s' % type(e).__name__, label=label)
        self.snaps.append(dict(
            label=label, explored=bool(s.explored), discard=bool(s._discard_exploration),
            bound_log_v=[float(b.log_v) for b in s.bounds],
            n_sample=[int(x) for x in s.shell_n_sample],
            n_sample_exp=[int(x) for x in s.shell_n_sample_exp] if s.explored else [0] * nb,
            end_exp=[int(x) for x in s.shell_end_exp] if s.explored else [0] * nb,
            log_l=[np.array(x) for x in s.log_l], shell_n=[int(x) for x in s.shell_n],
            shell_log_v=[float(x) for x in s.shell_log_v], shell_log_l=[float(x) for x in s.shell_log_l],
            shell_n_eff=[float(x) for x in s.shell_n_eff], log_z=log_z, n_eff=n_eff, eta=eta,
            n_points=[len(p) for p in s.points], n_blobs=[len(b) for b in s.blobs] if has_blobs else None,
            n_like=int(s.n_like), bids=[self.bid(b) for b in s.bounds]))


def make_traced(nautilus):
    Sampler = nautilus.Sampler

    class TracedSampler(Sampler):
        tr = None

        def _open_iteration(self):
            """first wrapped call of a loop iteration: pending end-of-exploration event, then the guard's oracle bits"""
            tr = self.tr
            tr.fill_ct(self)
            tr.check_ee(self)
            if tr.in_run and not tr.iter_open:
                with np.errstate(all='ignore'):
                    neff_ok = bool(self.n_eff >= tr.run_args['n_eff'])
                tr.lines.append('IT 0 %d' % (1 if neff_ok else 0))
                tr.iter_open = True

        def add_bound(self, verbose=False):
            n0 = len(self.bounds)
            if n0 > 0:
                self._open_iteration()
            _beat()
            ok = super().add_bound(verbose=verbose)
            _beat()
            tr = self.tr
            if len(self.bounds) == n0 + 1:
                b = self.bounds[-1]
                tr.event('AB %d' % tr.new_bound(b))
                tr.stats['ab'] += 1
            elif len(self.bounds) == n0:
                tr.event('ABF')
                tr.stats['abf'] += 1
            else:
                tr.fail('C01', 'add_bound changed the number of bounds from %d to %d' % (n0, len(self.bounds)))
            tr.snapshot(self, 'add_bound')
            return ok

        def sample_shell(self, index, shell_t=None):
            tr = self.tr
            log = []
            real = self.bounds[index]
            self.bounds[index] = BoundProxy(real, log)
            try:
                res = super().sample_shell(index, shell_t)
            finally:
                self.bounds[index] = real
            pts = res[0]
            idx_t = res[2] if shell_t is not None else np.zeros(0, dtype=int)
            ret_ids = [tr.pid.get(p) for p in pts]
            retset = set(ret_ids)
            later = self.bounds[index:][1:] if index != -1 else []
            rounds = []
            used_left = [int(x) for x in idx_t]
            for props in log:
                ids = [tr.pid.get(p) for p in props]
                insh = np.ones(len(props), bool)
                for b in later:
                    insh &= ~b.contains(props)
                tr.stats['later_rejected'] += int(np.sum(~insh))
                repl = [i for i, m in zip(ids, insh) if m and i not in retset]
                used = used_left[:len(repl)]
                used_left = used_left[len(repl):]
                rounds.append((ids, repl, used))
            if used_left:
                # more transfers used than replaced proposals: hand them to the last round; the model will reject
                if rounds:
                    rounds[-1] = (rounds[-1][0], rounds[-1][1], rounds[-1][2] + used_left)
            if len(later) > 0:
                tr.stats['later_nonempty_batches'] += 1
            if len(rounds) > 1:
                tr.stats['multi_round'] += 1
            tr.stats['transfers_used'] += len(idx_t)
            self._last = (index, shell_t is not None, rounds, ret_ids, res[1])
            return res

        def evaluate_likelihood(self, points):
            _beat()
            self.tr.eval_log.append(np.array(points))
            res = super().evaluate_likelihood(points)
            if res[1] is not None:
                self.tr.blob_shapes.add((len(points), tuple(int(x) for x in np.shape(res[1]))))
            return res

        def add_samples(self, shell, verbose=False):
            tr = self.tr
            self._open_iteration()
            nb = len(self.bounds)
            self._last = None
            n_like0 = self.n_like
            r = super().add_samples(shell, verbose=verbose)
            tr.iter_open = False
            if self._last is None:
                tr.fail('C01', 'add_samples did not go through sample_shell')
                return r
            index, tm, rounds, ret_ids, n_bound = self._last
            sh = shell if shell >= 0 else nb + shell
            k = len(ret_ids)
            ll = self.log_l[sh][len(self.log_l[sh]) - k:] if k else []
            if self.blobs is not None:
                bb = self.blobs[sh][len(self.blobs[sh]) - k:] if k else []
                vals = [(tr.vid.get([v]), tr.blob_id(w)) for v, w in zip(ll, bb)]
            else:
                vals = [(tr.vid.get([v]), 1) for v in ll]
            tr.stats['neg_inf'] += int(np.sum(np.isneginf(ll))) if k else 0
            tr.event('AS %d' % (-1 if shell == -1 else shell))
            for rd in rounds:
                tr.lines.append('R %d %s %d %s %d %s' % (len(rd[0]), ' '.join(map(str, rd[0])), len(rd[1]), ' '.join(map(str, rd[1])),
                                                        len(rd[2]), ' '.join(map(str, rd[2]))))
            tr.lines.append('V %s' % ' '.join('%d %d' % v for v in vals))
            if not self.explored and tr.in_run:
                # the stopping rule of the exploration phase as run() is about to evaluate it (a pure accessor of the state)
                with np.errstate(all='ignore'):
                    fl = bool(self.f_live <= tr.run_args.get('f_live', 0.01))
                tr.lines.append('FL %d' % (1 if fl else 0))
            tr.stats['batches'] += 1
            tr.stats['sampling_batches' if self.explored else 'exploration_batches'] += 1
            # C10 direct predicates on this batch
            ev = tr.eval_log[-1] if tr.eval_log else np.zeros((0, self.n_dim))
            if len(ev) != self.n_batch:
                tr.fail('C10', 'a step evaluated %d points, batch size is %d' % (len(ev), self.n_batch))
            if self.n_like - n_like0 != len(ev):
                tr.fail('C10', 'n_like advanced by %d but %d points were passed to the likelihood' % (self.n_like - n_like0, len(ev)))
            if len(ev) and not np.all((ev >= 0) & (ev < 1)):
                tr.fail('C10', 'a point outside the unit hypercube was passed to the prior/likelihood', point=[float(x).hex() for x in ev[~np.all((ev >= 0) & (ev < 1), axis=1)][0]])
            tr.snapshot(self, 'add_samples')
            return r

    return TracedSampler


# ---------------------------------------------------------------------------------------------------------------
# likelihood families (pure functions of the unit-cube point), blob kinds, priors
# ---------------------------------------------------------------------------------------------------------------
def lik_gauss(x, w=0.08, c=0.5):
    s = 0.0
    for v in x:
        s += (float(v) - c) * (float(v) - c)
    return -s / (2 * w * w)


def lik_twomode(x):
    a = lik_gauss(x, 0.05, 0.3)
    b = lik_gauss(x, 0.05, 0.7)
    m = max(a, b)
    return m + math.log(math.exp(a - m) + math.exp(b - m))


def lik_funnel(x):
    # non-nested: narrow in x1 where x0 is small
    x0 = float(x[0])
    w = 0.02 + 0.3 * x0
    s = -((x0 - 0.3) ** 2) / (2 * 0.15 ** 2)
    for v in x[1:]:
        s += -((float(v) - 0.5) ** 2) / (2 * w * w) - math.log(w)
    return s


def lik_halfspace(x):
    # zero likelihood for x0 < 0.4, log-ramp above
    x0 = float(x[0])
    if x0 < 0.4:
        return -math.inf
    return math.log(x0 - 0.4 + 1e-3) + lik_gauss(x[1:], 0.1, 0.5)


def lik_plateau(x):
    # steps: many equal likelihood values
    r = math.sqrt(sum((float(v) - 0.5) ** 2 for v in x))
    return -float(int(r * 12))


def lik_periodic(x):
    # peak wrapping around x0 = 0 (declared periodic by the config)
    d = min(float(x[0]), 1 - float(x[0]))
    return -(d * d) / (2 * 0.05 ** 2) + lik_gauss(x[1:], 0.1, 0.5)


def lik_constant(x):
    return 0.0


def lik_gaussflat(x):
    # tightly constrained in the first coordinate, flat in all others (a nuisance parameter: the bound keeps a unit-cube dimension)
    return -0.5 * ((float(x[0]) - 0.5) / 0.05) ** 2


FAMILIES = dict(gauss=lik_gauss, twomode=lik_twomode, funnel=lik_funnel, halfspace=lik_halfspace, plateau=lik_plateau,
                periodic=lik_periodic, constant=lik_constant, gaussflat=lik_gaussflat)


def blob_of(kind, x, ll):
    if kind == 'none':
        return None
    if kind == 'float':
        return (float(x[0]) * 2.0,)
    if kind == 'int':
        return (int(float(x[0]) * 1000),)
    if kind == 'vec3':
        return (np.array([float(x[0]), float(x[1]), float(x[0]) + float(x[1])]),)
    if kind == 'vec1':
        return (np.array([float(x[1])]),)
    if kind == 'two':
        return (float(x[0]), int(float(x[1]) * 100))
    raise ValueError(kind)


class Problem:
    """A likelihood/prior pair with an exact re-evaluator on unit-cube points."""

    def __init__(self, cfg):
        self.cfg = cfg
        self.f = FAMILIES[cfg['family']]
        self.calls = 0
        self.arg_log = []
        import threading
        self._lock = threading.Lock()

    # the prior: identity-like affine map so that the likelihood families stay on the unit cube
    def prior_fn(self, u):
        if self.cfg.get('prior_identity'):
            return u                      # the very array the sampler handed over
        if self.cfg.get('prior_inplace'):
            # a prior function that modifies its argument in place (doubling is exact; the likelihood halves again)
            u *= 2.0
            return u
        return np.array(u)

    def like_scalar(self, arg, tilt=0.0):
        with self._lock:
            self.calls += 1
        x = self._unpack(arg)
        if self.cfg.get('pool_l') == 'executor':
            import time as _t
            _t.sleep(0.0004 * (int(abs(float(x[0])) * 1e6) % 4))      # point-dependent run time
        ll = self.f(x)
        if tilt:
            ll = ll + tilt * float(x[0])       # only reached through likelihood_kwargs (configurations with lik_tilt)
        b = blob_of(self.cfg['blob'], x, ll)
        if self.cfg.get('lik_inplace') and isinstance(arg, np.ndarray):
            arg[...] = 0.25                # a likelihood that scribbles over its argument
        return ll if b is None else (ll,) + b

    def like_vector(self, args, tilt=0.0):
        if isinstance(args, dict):
            n = len(next(iter(args.values())))
            rows = [{k: v[i] for k, v in args.items()} for i in range(n)]
        else:
            rows = list(args)
        res = [self.like_scalar(r, tilt=tilt) for r in rows]
        if self.cfg.get('lik_inplace') and isinstance(args, np.ndarray):
            args[...] = 0.25
        if self.cfg['blob'] == 'none':
            return np.array(res)
        cols = list(zip(*res))
        return tuple(np.array(c) for c in cols)

    def _unpack(self, arg):
        if isinstance(arg, dict):
            return [arg['p%d' % i] for i in range(self.cfg['n_dim'])]
        if self.cfg.get('prior_inplace') and not self.cfg.get('prior_object'):
            return [float(v) / 2.0 for v in arg]
        return arg

    def eval_unit(self, u):
        """(log_l, blob tuple or None) for a unit-cube point, the same arithmetic as the sampler's path"""
        if self.cfg.get('prior_object'):
            # the Prior object rounds: isf(1 - u) is not bit-identical to u
            x = [float(v) for v in self.prior_obj.unit_to_physical(np.array(u, dtype=float))]
        else:
            x = [float(v) for v in u]
        ll = self.f(x)
        if self.cfg.get('lik_tilt'):
            ll = ll + self.cfg['lik_tilt'] * float(x[0])
        return ll, blob_of(self.cfg['blob'], x, ll)


def build_sampler(nautilus, cfg, tr, prob, filepath=None, resume=False):
    TS = make_traced(nautilus)
    kw = dict(n_live=cfg['n_live'], n_update=cfg.get('n_update'), n_batch=cfg['n_batch'], n_networks=cfg['n_networks'],
              seed=cfg['seed'], vectorized=cfg.get('vectorized', False), filepath=filepath, resume=resume,
              n_like_new_bound=cfg.get('n_like_new_bound'), enlarge_per_dim=cfg.get('enlarge_per_dim', 1.1),
              n_points_min=cfg.get('n_points_min'), split_threshold=cfg.get('split_threshold', 100))
    if cfg.get('periodic') is not None:
        kw['periodic'] = np.array(cfg['periodic'])
    if cfg.get('pool_s'):
        kw['pool'] = (None, FakePool(cfg['pool_s'], cfg['seed'], pickle_func=True))
    if cfg.get('pool_l') == 'real':
        # an integer: the sampler creates a real multiprocessing pool itself and caches the likelihood in the workers
        kw['pool'] = (2, kw.get('pool', (None, None))[1])
    elif cfg.get('pool_l') == 'executor':
        # a user-supplied concurrent.futures executor: results must come back in submission order whatever the run times
        from concurrent.futures import ThreadPoolExecutor
        kw['pool'] = (ThreadPoolExecutor(max_workers=3), kw.get('pool', (None, None))[1])
    elif cfg.get('pool_l'):
        kw['pool'] = (FakePool(cfg['pool_l'], cfg['seed'] + 1), kw.get('pool', (None, None))[1])
    if cfg.get('neural_network_kwargs'):
        kw['neural_network_kwargs'] = cfg['neural_network_kwargs']
    if cfg.get('lik_tilt'):
        kw['likelihood_kwargs'] = dict(tilt=cfg['lik_tilt'])      # a keyword with a default, overridden through the sampler
    like = prob.like_vector if cfg.get('vectorized') else prob.like_scalar
    if cfg.get('prior_object'):
        pr = nautilus.Prior()
        for i in range(cfg['n_dim']):
            pr.add_parameter('p%d' % i, dist=(0, 1))
        prob.prior_obj = pr
        s = TS(pr, like, **kw)
    else:
        s = TS(prob.prior_fn, like, n_dim=cfg['n_dim'], **kw)
    s.tr = tr
    return s


def make_config(rng, i, tier='quick', force=None):
    """Structured configurations: the i-th one cycles through the families; random choices from one PRNG."""
    fams = ['gauss', 'twomode', 'halfspace', 'funnel', 'plateau', 'periodic', 'gauss', 'constant']
    fam = fams[i % len(fams)]
    n_dim = int(rng.choice([2, 2, 3, 4])) if tier == 'quick' else int(rng.choice([2, 3, 4, 5]))
    cfg = dict(family=fam, n_dim=n_dim, n_live=int(rng.choice([30, 50, 80, 120])), n_batch=int(rng.choice([1, 7, 20, 50])),
               n_update=None if rng.random() < 0.5 else int(rng.choice([5, 15, 40])),
               n_networks=0 if (rng.random() < 0.7 or fam == 'constant') else 1,
               blob=str(rng.choice(['none', 'float', 'int', 'vec3', 'two', 'vec1'])),
               seed=int(rng.integers(1, 2 ** 31)), vectorized=bool(rng.random() < 0.3),
               prior_object=bool(rng.random() < 0.25), prior_inplace=bool(rng.random() < 0.3),
               pool_s=3 if rng.random() < 0.2 else None, pool_l=(lambda r: 2 if r < 0.14 else ('executor' if r < 0.24 else None))(rng.random()),
               periodic=[0] if fam == 'periodic' else ([0, 1] if rng.random() < 0.1 else None),
               n_shell=int(rng.choice([1, 5, 30])), n_eff=int(rng.choice([100, 300, 600])),
               discard_at_end=bool(rng.random() < 0.5), toggles=int(rng.choice([0, 0, 1, 3])), resumes=int(rng.choice([0, 0, 1, 2])),
               neural_network_kwargs=dict(hidden_layer_sizes=(20, 10), max_iter=200))
    # bounds with many ellipsoids inside the sampler: small minimum cluster size and eager splitting
    r1, r2 = rng.random(), rng.random()
    cfg['n_points_min'] = None if r1 < 0.65 else int([n_dim + 2, n_dim + 6, 12][int((r1 - 0.65) / 0.35 * 3) % 3])
    cfg['split_threshold'] = 100 if r2 < 0.65 else [1.0, 5.0][int((r2 - 0.65) / 0.35 * 2) % 2]
    # the other trigger of a bound attempt: few likelihood calls since the last one (boundary: one batch)
    r3 = rng.random()
    cfg['n_like_new_bound'] = None if r3 < 0.7 else (cfg['n_batch'] if r3 < 0.85 else 3 * cfg['n_batch'] + 1)
    # the stopping rule of the exploration phase is an argument of run(): mostly the default, sometimes much earlier or later
    r5 = rng.random()
    cfg['f_live'] = 0.01 if r5 < 0.7 else (0.3 if r5 < 0.9 else 1e-4)
    # tiny regime (one configuration in five): very small live sets and update intervals put the run on many guards at once
    # (empty shells removed at the end of exploration -- also the first one --, bounds built from a handful of points)
    r4 = rng.random()
    if r4 < 0.2:
        # (a live set must have more points than dimensions: the library cannot build an ellipsoid otherwise and says so)
        cfg.update(n_live=max(int([5, 8, 12][int(r4 / 0.2 * 3) % 3]), 2 * n_dim), n_update=int([1, 2][int(r4 / 0.2 * 2) % 2]), n_batch=int([1, 2, 3, 5][int(r4 / 0.2 * 4) % 4]),
                   n_networks=0, n_eff=min(cfg['n_eff'], 100), resumes=max(cfg['resumes'], 1))
    if cfg['n_batch'] == 1 and r4 >= 0.2:
        cfg['n_live'] = 30
        cfg['n_eff'] = min(cfg['n_eff'], 100)
        cfg['n_networks'] = 0
        cfg['n_update'] = cfg['n_update'] or 15
    if fam == 'constant':
        cfg['n_eff'] = 50
        cfg['n_shell'] = 1
    if cfg['n_networks'] and cfg['n_live'] < 50:
        cfg['n_live'] = 50
    if force:
        cfg.update(force)
    if cfg.get('vectorized') and cfg.get('pool_l'):
        cfg['pool_l'] = None
    return cfg


def run_traced(cfg, max_batches=400):
    """Run one configuration with single-batch stepping, toggles and resumes.  Returns the Trace."""
    nautilus = use_repo()
    import warnings
    warnings.filterwarnings('ignore')
    tr = Trace(cfg)
    HEARTBEAT[0] = cfg.get('heartbeat')
    prob = Problem(cfg)
    tr.prob = prob
    tmp = tempfile.mkdtemp(prefix='nvtr_')
    want_file = cfg.get('resumes', 0) > 0 or cfg.get('with_file')
    path = os.path.join(tmp, 'ck.hdf5') if want_file else None
    rng = np.random.default_rng(cfg['seed'] + 17)
    try:
        s = build_sampler(nautilus, cfg, tr, prob, filepath=path, resume=False)
        tr.lines.append('N %d' % cfg['n_batch'])
        est_batches = cfg.get('max_batches') or (max_batches if cfg['n_batch'] >= 7 else 4 * max_batches)
        toggle_at = sorted(int(x) for x in rng.integers(1, 60, size=cfg.get('toggles', 0)))
        # resumes early (few bounds) and anywhere in the run (many bounds, sampling phase)
        resume_at = sorted(int(x) if i % 2 == 0 else int(2 + (x - 2) * max(1, (est_batches - 2)) // 58) for i, x in enumerate(rng.integers(2, 60, size=cfg.get('resumes', 0))))
        k = 0
        done = False
        tr.returns = []
        import time as _time
        t_start = _time.time()
        step_rng = np.random.default_rng(cfg['seed'] + 29)
        toggle_dirty = False
        ee_resumed = False
        early_done = False
        while not done and k < est_batches and _time.time() - t_start < cfg.get('max_seconds', 25):
            nl0 = int(s.n_like)
            stride = 1
            timeout = np.inf
            if cfg.get('step_mode') == 'mixed':
                u = step_rng.random()
                if u < 0.15:
                    stride = 0                                  # limit already reached: nothing may happen
                elif u < 0.25:
                    stride = -int(step_rng.integers(1, 50))      # limit below the current count
                elif u < 0.45:
                    stride = int(step_rng.choice([cfg['n_batch'], cfg['n_batch'] + 1, 2 * cfg['n_batch'], 2 * cfg['n_batch'] + 1, 3 * cfg['n_batch'] - 1]))
                elif u < 0.5:
                    timeout = 0.0                               # time limit reached at once
                    stride = 10 * cfg['n_batch']
            lim = max(0, nl0 + stride)
            tr.run_args = dict(n_eff=cfg['n_eff'], n_shell=cfg['n_shell'], f_live=cfg.get('f_live', 0.01))
            tr.lines.append('RUN %d %d %d' % (lim, cfg['n_shell'], 1 if cfg.get('discard_at_end', False) else 0))
            tr.in_run = True
            tr.iter_open = False
            try:
                with np.errstate(all='ignore'):
                    done = s.run(n_eff=cfg['n_eff'], n_shell=cfg['n_shell'], n_like_max=lim, timeout=timeout, f_live=cfg.get('f_live', 0.01),
                                 discard_exploration=cfg.get('discard_at_end', False))
            except Exception as e:     # noqa
                tr.fail('ANY', 'run() raised %s: %s' % (type(e).__name__, str(e)[:200]), traceback=traceback.format_exc()[-1500:], batch=k)
                tr.in_run = False
                break
            tr.fill_ct(s)
            tr.check_ee(s)
            tr.in_run = False
            with np.errstate(all='ignore'):
                neff_ok = bool(s.n_eff >= cfg['n_eff'])
            tr.lines.append('ENDRUN %d %d %d' % (1 if timeout == 0.0 else 0, 1 if neff_ok else 0, 1 if done else 0))
            k += max(1, (int(s.n_like) - nl0) // max(1, cfg['n_batch']))
            with np.errstate(all='ignore'):
                pred = bool(s.explored and np.all(np.asarray(s.shell_n) >= cfg['n_shell']) and s.n_eff >= cfg['n_eff'])
            tr.returns.append((nl0, int(s.n_like), bool(done), lim, timeout, pred))
            if int(s.n_like) != nl0:
                toggle_dirty = False        # a batch ran: write_shell_update has persisted the flag
            if cfg.get('early_posterior') and not early_done and len(s.bounds) == 1 and int(s.n_like) > 0:
                # a read-only accessor while exactly one shell exists (what it returns must not alias the stored samples)
                early_done = True
                with np.errstate(all='ignore'):
                    s.posterior(return_blobs=s.blobs is not None)
            # scheduled resumes, plus one right after exploration has ended (empty shells have just been removed and the
            # file renumbered) whenever the configuration resumes at all
            while ((resume_at and resume_at[0] <= k) or (cfg.get('resumes', 0) > 0 and s.explored and not ee_resumed)) \
                    and path is not None and os.path.exists(path) and not toggle_dirty:
                if resume_at and resume_at[0] <= k:
                    resume_at.pop(0)
                if s.explored:
                    ee_resumed = True
                old_bids = [tr.bid(b) for b in s.bounds]
                old_tables = {tr.bid(b): b for b in s.bounds}
                p2 = os.path.join(tmp, 'ck_resume_%d.hdf5' % k)
                shutil.copyfile(path, p2)
                os.replace(p2, path)
                s_new = build_sampler(nautilus, cfg, tr, prob, filepath=path, resume=True)
                if bool(s_new._discard_exploration) != bool(s._discard_exploration):
                    # (a toggle that no batch has persisted yet never reaches this point: toggle_dirty)
                    for pr in ('C05', 'C12'):
                        tr.fail(pr, 'the view chosen with discard_exploration (%s) is lost across a resume: the resumed sampler has %s' % (
                            bool(s._discard_exploration), bool(s_new._discard_exploration)), batch=k)
                if len(s_new.bounds) != len(old_bids):
                    tr.fail('C05', 'resumed sampler has %d bounds, the running one had %d' % (len(s_new.bounds), len(old_bids)), batch=k)
                    break
                for b, bid in zip(s_new.bounds, old_bids):
                    tr.bidmap[id(b)] = bid
                    tr.keep.append(b)
                    # behaviour of the re-read bound on all points seen so far
                    if tr.pid.rows:
                        allp = np.array(tr.pid.rows)
                        if not np.array_equal(b.contains(allp), old_tables[bid].contains(allp)):
                            tr.fail('C09', 'a bound read back from the checkpoint answers contains() differently', batch=k, bid=bid)
                    tr.bound_obj[bid] = b
                s = s_new
                tr.stats['resumes'] += 1
                tr.seen_explored = bool(s.explored)
                tr.snapshot(s, 'resume')
                if any(k in tr.fails for k in ('C01', 'C05', 'C09')):
                    # the resumed object is already wrong (a direct predicate failed on it): do not run it further, it may never return
                    done = True
                    break
            while toggle_at and toggle_at[0] <= k:
                toggle_at.pop(0)
                v = not s._discard_exploration
                before = _stat_bytes(s)
                s.discard_exploration = v
                toggle_dirty = True          # not on disk until the next batch: a resume now would (rightly) not see it
                tr.event('SD %d' % (1 if v else 0))
                tr.stats['sd'] += 1
                tr.snapshot(s, 'set_discard')
                # C12: toggling back restores every statistic bit for bit
                s2 = copy.copy(s)
                for key in ('shell_n', 'shell_n_eff', 'shell_log_l', 'shell_log_v'):
                    setattr(s2, key, np.array(getattr(s, key)))
                s2.discard_exploration = not v
                if _stat_bytes(s2) != before:
                    tr.fail('C12', 'toggling discard_exploration there and back does not restore the statistics bit for bit', batch=k)
        if cfg.get('pool_l') == 'real' and getattr(s, 'pool_l', None) is not None:
            try:
                s.pool_l.pool.terminate()
            except Exception:     # noqa
                pass
        tr.final = s
        tr.done = done
        tr.n_batches = k
        finish_tables(tr, s)
    finally:
        shutil.rmtree(tmp, ignore_errors=True)
    return tr


def _stat_bytes(s):
    # a shell that has never been sampled (no proposals yet: only the first bound of a run stopped before its first batch)
    # has no estimator: its slots hold the placeholder nan until the first update turns them into the empty-shell
    # convention (-inf volume); they are left out of the bit-for-bit comparison
    keep = np.asarray(s.shell_n_sample) > 0
    return b''.join(np.ascontiguousarray(np.asarray(getattr(s, k))[keep]).tobytes() for k in ('shell_n', 'shell_n_eff', 'shell_log_l', 'shell_log_v'))


def finish_tables(tr, s):
    """P lines: in_cube, lik id, blob id, contains row for every point id seen."""
    if not tr.pid.rows:
        tr.table_lines = control_tables(tr, s)
        return
    pts = np.array(tr.pid.rows)
    nb = len(tr.bound_obj)
    rows = np.zeros((nb, len(pts)), dtype=bool)
    borderline = False
    perm = np.random.default_rng(5).permutation(len(pts))
    for bid, b in tr.bound_obj.items():
        with np.errstate(all='ignore'):
            r1 = np.asarray(b.contains(pts))
            r2 = np.asarray(b.contains(pts[perm]))
        rows[bid - 1] = r1
        if not np.array_equal(r1[perm], r2):
            borderline = True
    tr.borderline = borderline
    cube = np.all((pts >= 0) & (pts < 1), axis=1)
    dt = s.blobs_dtype
    lines = []
    for j, p in enumerate(pts):
        ll, b = tr.prob.eval_unit(p)
        lid = tr.vid.get([ll])
        if b is None:
            wid = 1
        else:
            arr = np.array([b], dtype=dt) if dt is not None else np.array([b])
            arr = arr.reshape((1,) + tuple(n for n in arr.shape[1:] if n != 1))
            wid = tr.blob_id(arr[0])
        lines.append('P %d %d %d %d %s' % (j + 1, 1 if cube[j] else 0, lid, wid, ''.join('1' if v else '0' for v in rows[:, j])))
    lines += control_tables(tr, s)
    tr.table_lines = lines
    tr.contains_rows = rows
    tr.points_arr = pts


def control_tables(tr, s):
    """CC / NI / VR lines of the control layer (the order oracle of the log-likelihood ids) and the final form of the
    expected CT lines.  Skipped (no CC line, CT lines dropped) if a NaN log-likelihood makes the values unordered."""
    tr.fill_ct(s)
    ni = tr.vid.get([-np.inf])
    vals = np.array([float(r[0]) for r in tr.vid.rows])
    ok = not np.any(np.isnan(vals))
    lines = []
    rank = {}
    if ok:
        uniq = np.unique(vals)
        rk = np.searchsorted(uniq, vals)
        rank = {i + 1: int(r) for i, r in enumerate(rk)}
        lines.append('CC %d %d %d %d' % (int(s.n_live), int(s.n_update), int(s.n_like_new_bound), int(s.n_points_min)))
        lines.append('NI %d' % ni)
        lines += ['VR %d %d' % (i, r) for i, r in rank.items()]
    tr.control = ok
    for label, out in tr.expected:
        for j, l in enumerate(out):
            if isinstance(l, dict):
                if ok:
                    nui, nli = (l['nui'], l['nli']) if l['nui'] is not None else tr.counters(s)
                    out[j] = 'CT nui=%d nli=%d lmin=%s' % (nui, nli, ','.join(str(rank[v]) for v in l['lmin']))
                else:
                    out[j] = None
        out[:] = [l for l in out if l is not None]
    return lines


def replay_through_model(tr, tmpdir):
    """Run the extracted shell machine on the trace; returns (ok, first_difference)"""
    path = os.path.join(tmpdir, 'trace_%d.txt' % os.getpid())
    with open(path, 'w') as f:
        f.write(tr.lines[0] + '\n')
        f.write('\n'.join(tr.table_lines) + '\n')
        f.write('\n'.join(tr.lines[1:]) + '\n')
    out = subprocess.run([os.path.join(BIN, 'shell_checker'), path], stdout=subprocess.PIPE, text=True).stdout.split('\n')
    os.unlink(path)
    # split into X blocks
    blocks, cur, rejects = [], [], []
    for line in out:
        if line.startswith(('REJECT', 'RUNBAD', 'TRIGBAD', 'CTLREJECT')):
            rejects.append(line)
        elif line.startswith('RUNOK'):
            tr.run_ok = getattr(tr, 'run_ok', 0) + 1
        elif line == 'END':
            blocks.append(cur)
            cur = []
        elif line.startswith('DONE'):
            pass
        elif line:
            cur.append(line)
    diffs = []
    for i, (label, exp) in enumerate(tr.expected):
        got = blocks[i] + ['END'] if i < len(blocks) else ['<missing>']
        if got != exp:
            # first differing line
            for a, b in zip(exp, got):
                if a != b:
                    diffs.append((i, label, a[:300], b[:300]))
                    break
            else:
                diffs.append((i, label, 'lines %d' % len(exp), 'lines %d' % len(got)))
            break
    return (not rejects and not diffs), rejects, diffs


# ---------------------------------------------------------------------------------------------------------------
# direct predicates of the properties on the final / intermediate implementation state
# ---------------------------------------------------------------------------------------------------------------
def direct_c01(tr, s, only_last=None):
    """each stored point in the cube, in its own bound, outside every later bound, association = own shell"""
    for i, P in enumerate(s.points):
        if len(P) == 0:
            continue
        P = np.asarray(P)
        if only_last is not None:
            P = P[-only_last:]
        if not np.all((P >= 0) & (P < 1)):
            tr.fail('C01', 'shell %d stores a point outside the unit hypercube' % i)
        with np.errstate(all='ignore'):
            inb = np.asarray(s.bounds[i].contains(P))
        if not np.all(inb):
            tr.fail('C01', 'shell %d stores %d point(s) outside its own bound' % (i, int(np.sum(~inb))), point=[float(x).hex() for x in P[~inb][0]])
        for k in range(i + 1, len(s.bounds)):
            with np.errstate(all='ignore'):
                ink = np.asarray(s.bounds[k].contains(P))
            if np.any(ink):
                tr.fail('C01', 'shell %d stores %d point(s) that lie inside the later bound %d' % (i, int(np.sum(ink)), k), point=[float(x).hex() for x in P[ink][0]])
                break
        with np.errstate(all='ignore'):
            assoc = s.shell_association(P)
        if not np.all(assoc == i):
            tr.fail('C01', 'shell_association of a point stored in shell %d is %d' % (i, int(assoc[assoc != i][0])))
