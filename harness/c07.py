"""C07 -- bounds are sound: samples lie inside, construction points are enclosed.

Tie (a), structural: for real bounds of every composite class the member-level contains() bits of probe points are
recorded and the composite answer is recomputed from them by the Gallina composition model (GeomQ.v: union any-of and
cube, mixture conjunction, neural = outer and score, nautilus = shift then outer-union and any neural) inside Coq.
Tie (b), numeric: the exact quadratic form |B_inv (x - c)|^2 over Q (every double is a dyadic rational) is evaluated
inside Coq on the very matrices the implementation built and compared with Ellipsoid.contains (don't-care band 1e-9
around 1); B_inv B = I and A = (B B^T)^-1 validate the LAPACK oracle; the MVEE rescale/enlarge arithmetic is checked
on the construction points.
Search: direct predicates on the implementation -- contains(sample()) and in-cube for every class, serial and through
a pool, periodic or not; construction points contained after every split; neural / nautilus inside their outer bound."""
import math
import os
import re
import sys
import warnings
from concurrent.futures import ThreadPoolExecutor

import numpy as np

from common import Run, use_repo, coq_eval
import trace as T


def qlit(x):
    x = float(x)
    if x == 0:
        return '(0 # 1)'
    m, e = math.frexp(x)
    m = int(m * 2 ** 53)
    e -= 53
    while m % 2 == 0:
        m //= 2
        e += 1
    if e >= 0:
        return '(%d # 1)' % (m << e)
    return '(%d # %d)' % (m, 1 << (-e))


def bl(row):
    return '[' + ';'.join('true' if b else 'false' for b in row) + ']'


def point_sets(rng, d, tier):
    sets = []
    sets.append(('blob', np.clip(rng.normal(0.5, 0.07, (60 + 10 * d, d)), 1e-9, 1 - 1e-9)))
    sets.append(('two', np.clip(np.vstack([rng.normal(0.3, 0.03, (50 + 5 * d, d)), rng.normal(0.7, 0.03, (50 + 5 * d, d))]), 1e-9, 1 - 1e-9)))
    if d >= 2:
        # elongated, condition number ~1e6
        e = rng.normal(0, 1, (80 + 10 * d, d)) * np.array([0.2] + [2e-7] * (d - 1))
        q, _ = np.linalg.qr(rng.normal(size=(d, d)))
        sets.append(('elongated', np.clip(0.5 + e @ q.T, 1e-9, 1 - 1e-9)))
        t = rng.uniform(0, 2.5, 120 + 10 * d)
        ban = np.column_stack([0.5 + 0.3 * np.cos(t), 0.25 + 0.3 * np.sin(t)] + [rng.normal(0.5, 0.02, len(t)) for _ in range(d - 2)]) + rng.normal(0, 0.01, (len(t), d))
        sets.append(('banana', np.clip(ban, 1e-9, 1 - 1e-9)))
    face = rng.normal(0.5, 0.05, (60 + 10 * d, d))
    face[:, 0] = rng.random(len(face))
    sets.append(('face', np.clip(face, 0.0, np.nextafter(1.0, 0))))
    sets.append(('corner', np.clip(np.abs(rng.normal(0, 0.05, (60 + 10 * d, d))), 0.0, np.nextafter(1.0, 0))))
    if d >= 3:
        # cube dimensions that are not the leading ones (every arrangement of cube / ellipsoid columns must be put back in place)
        fl = rng.normal(0.5, 0.05, (60 + 10 * d, d))
        fl[:, d - 1] = rng.random(len(fl))
        sets.append(('face-last', np.clip(fl, 0.0, np.nextafter(1.0, 0))))
        fm = rng.normal(0.5, 0.05, (60 + 10 * d, d))
        fm[:, 1] = rng.random(len(fm))
        fm[:, d - 1] = rng.random(len(fm))
        sets.append(('face-mid-last', np.clip(fm, 0.0, np.nextafter(1.0, 0))))
    # the smallest point sets an ellipsoid can be built from (d + 1 and d + 2 points)
    small = [('simplex', rng.random((d + 1, d))), ('simplex+1', rng.random((d + 2, d)))]
    if tier == 'quick':
        return (sets[:4] + [x for x in sets[4:] if x[0].startswith('face-')] if d > 3 else sets) + small
    return sets + small


def pointwise(b, probes, lab, fails, stats):
    """membership of a point must not depend on which other points are in the same call"""
    with np.errstate(all='ignore'):
        together = np.asarray(b.contains(probes))
        alone = np.array([bool(np.asarray(b.contains(probes[i:i + 1]))[0]) for i in range(len(probes))])
    stats['pointwise'] = stats.get('pointwise', 0) + len(probes)
    if not np.array_equal(together, alone):
        i = int(np.flatnonzero(together != alone)[0])
        fails.append('%s: contains() of a point depends on the batch it is asked in: together %s, alone %s, point %s' % (
            lab, bool(together[i]), bool(alone[i]), [float(x).hex() for x in probes[i]]))


def check_ellipsoid(e, pts, enlarge, label, fails, cases_q, rng, with_construction=True):
    """numeric checks + cases for the exact quadratic form"""
    d = e.n_dim
    with np.errstate(all='ignore'):
        I = e.B_inv @ e.B
        if not np.allclose(I, np.eye(d), atol=1e-6):
            fails.append('%s: B_inv B differs from the identity by %g' % (label, np.abs(I - np.eye(d)).max()))
        Ainv = e.B @ e.B.T
        # residual of a computed inverse: of the order d * cond * machine epsilon (here with a factor 100), never below 1e-5
        if not np.allclose(e.A @ Ainv, np.eye(d), atol=max(1e-5, 100.0 * d * np.linalg.cond(Ainv) * 2.2e-16)):
            fails.append('%s: A is not the inverse of B B^T (error %g)' % (label, np.abs(e.A @ Ainv - np.eye(d)).max()))
    if with_construction:
        inb = e.contains(pts)
        if not np.all(inb):
            fails.append('%s: %d construction point(s) not contained (enlarge=%g)' % (label, int(np.sum(~inb)), enlarge))
        q = np.einsum('...i,ij,...j', pts - e.c, e.A, pts - e.c)
        tol = min(0.05, 1e-9 + 1e-10 * np.linalg.cond(e.A))     # the rescaling is a float computation: error grows with the conditioning
        if np.max(q) > (1.0 / enlarge ** 2) * (1 + tol) + 1e-12:
            fails.append('%s: largest quadratic form of a construction point is %r, MVEE rescaling promises at most 1/enlarge^2 = %r' % (label, float(np.max(q)), 1 / enlarge ** 2))
    s = e.sample(400)
    if not np.all(e.contains(s)):
        fails.append('%s: %d of 400 sampled points are not contained' % (label, int(np.sum(~e.contains(s)))))
    # exact quadratic form on a few probes: samples, construction points, points pushed to the surface
    probes = [s[:4], pts[:3]]
    surf = e.transform(rng.normal(size=(4, d)) / 1.0, inverse=True)
    u = rng.normal(size=(4, d))
    u /= np.linalg.norm(u, axis=1)[:, None]
    probes.append(e.transform(u * (1 + np.array([1e-3, -1e-3, 1e-7, -1e-7]))[:, None], inverse=True))
    probes = np.vstack(probes)
    bits = e.contains(probes)
    qf = np.sum(e.transform(probes) ** 2, axis=-1)
    for x, b, qv in zip(probes, bits, qf):
        cases_q.append((e.B_inv, e.c, x, bool(b), abs(qv - 1) < 1e-9))


def build_and_check(nb, seed, tier):
    from nautilus.bounds.basic import UnitCubeEllipsoidMixture
    from nautilus.bounds.neural import NeuralBound
    B = nb.bounds
    rng = np.random.default_rng(seed)
    fails, cases_q, cases_s = [], [], []
    stats = dict(bounds=0, samples=0, probes=0, by_class={})
    dims = [1, 2, 3, 5, 8] if tier == 'quick' else [1, 2, 3, 4, 5, 6, 7, 8]
    enl = [1 + 1e-9, 1.1, 2.0, 100.0]

    def count(cls):
        stats['bounds'] += 1
        stats['by_class'][cls] = stats['by_class'].get(cls, 0) + 1
    for d in dims:
        # unit cube
        c = B.UnitCube.compute(d, rng=np.random.default_rng(int(rng.integers(1 << 30))))
        s = c.sample(300)
        count('UnitCube')
        stats['samples'] += 300
        if not (np.all(c.contains(s)) and np.all((s >= 0) & (s < 1))):
            fails.append('UnitCube-%d: sampled point outside the cube' % d)
        for name, pts in point_sets(rng, d, tier):
            for e_ in (enl if name in ('blob', 'elongated') else [1.1]):
                if len(pts) <= d:
                    continue
                lab = 'Ellipsoid-%d-%s-e%g' % (d, name, e_)
                try:
                    with np.errstate(all='ignore'):
                        e = B.Ellipsoid.compute(pts, enlarge_per_dim=e_, rng=np.random.default_rng(int(rng.integers(1 << 30))))
                except Exception as ex:     # noqa
                    if name == 'elongated':
                        continue        # numerically singular input: construction may legitimately fail
                    fails.append('%s: compute raised %s' % (lab, type(ex).__name__))
                    continue
                count('Ellipsoid')
                stats['samples'] += 400
                if not np.all(np.isfinite(e.B)):
                    continue
                check_ellipsoid(e, pts, e_, lab, fails, cases_q, rng, with_construction=(name != 'elongated' or e_ > 1.01))
            if d >= 2 and name in ('face', 'blob', 'corner', 'two', 'face-last', 'face-mid-last'):
                lab = 'Mixture-%d-%s' % (d, name)
                with np.errstate(all='ignore'):
                    m = UnitCubeEllipsoidMixture.compute(pts, rng=np.random.default_rng(int(rng.integers(1 << 30))))
                count('Mixture')
                s = m.sample(400)
                stats['samples'] += 400
                if not np.all(m.contains(s)):
                    fails.append('%s: %d sampled points not contained' % (lab, int(np.sum(~m.contains(s)))))
                inc = np.all((pts >= 0) & (pts < 1), axis=1)
                if not np.all(m.contains(pts[inc])):
                    fails.append('%s: %d construction points (inside the cube) not contained' % (lab, int(np.sum(~m.contains(pts[inc])))))
                probes = np.vstack([s[:20], pts[:20], rng.random((40, d)) * 1.2 - 0.1])
                idx_c = np.arange(d)[m.dim_cube]
                idx_e = np.arange(d)[~m.dim_cube]
                cases_s.append(('mix', None if m.cube is None else m.cube.contains(probes[:, idx_c]), None if m.ellipsoid is None else m.ellipsoid.contains(probes[:, idx_e]), m.contains(probes)))
            if name in ('two', 'banana', 'blob') and len(pts) >= 4 * (d + 3):
                for unit in (True, False):
                    for cls in (B.Ellipsoid, UnitCubeEllipsoidMixture) if d >= 2 else (B.Ellipsoid,):
                        lab = 'Union-%d-%s-%s-%s' % (d, name, 'unit' if unit else 'free', cls.__name__[:3])
                        with np.errstate(all='ignore'):
                            u = B.Union.compute(pts, unit=unit, bound_class=cls, n_points_min=d + 3, rng=np.random.default_rng(int(rng.integers(1 << 30))))
                        count('Union')
                        inc = np.all((pts >= 0) & (pts < 1), axis=1) if unit or cls is UnitCubeEllipsoidMixture else np.ones(len(pts), bool)
                        for k in range(4):
                            if not np.all(u.contains(pts[inc])):
                                fails.append('%s: after %d split(s) %d construction points are no longer contained' % (lab, k, int(np.sum(~u.contains(pts[inc])))))
                                break
                            with np.errstate(all='ignore'):
                                if not u.split():
                                    break
                        s = u.sample(600)
                        stats['samples'] += 600
                        if not np.all(u.contains(s)):
                            fails.append('%s: %d sampled points not contained' % (lab, int(np.sum(~u.contains(s)))))
                        # history sample -> trim -> sample: points cached before a trim must not be handed out afterwards
                        if name == 'two':
                            with np.errstate(all='ignore'):
                                pts2 = np.vstack([pts, np.clip(rng.normal(0.5, 0.25, (d + 6, d)), 1e-9, 1 - 1e-9)])
                                u2 = B.Union.compute(pts2, unit=unit, bound_class=cls, n_points_min=d + 3, rng=np.random.default_rng(int(rng.integers(1 << 30))))
                                _ = u2.log_v
                                for _k in range(3):
                                    u2.split()
                                    _ = u2.log_v
                                u2.sample(40)
                                trimmed = 0
                                for thr in (1e3, 30.0, 3.0, 1.2):
                                    while u2.trim(threshold=thr):
                                        trimmed += 1
                                    if trimmed:
                                        break
                                s2 = u2.sample(500)
                            stats['samples'] += 500
                            stats['trims'] = stats.get('trims', 0) + trimmed
                            if not np.all(u2.contains(s2)):
                                fails.append('%s: after sample, %d trim(s), sample: %d of 500 points are not contained' % (lab, trimmed, int(np.sum(~u2.contains(s2)))))
                        if unit and not np.all((s >= 0) & (s < 1)):
                            fails.append('%s: sampled point outside the unit cube' % lab)
                        probes = np.vstack([s[:30], pts[:30], rng.random((60, d)) * 1.2 - 0.1])
                        cases_s.append(('union', [b.contains(probes) for b in u.bounds], None if u.cube is None else u.cube.contains(probes), u.contains(probes)))
    # neural and nautilus bounds
    nn_kwargs = dict(hidden_layer_sizes=(12, 6), max_iter=150)
    for d in ([2, 3] if tier == 'quick' else [2, 3, 4, 6]):
        for nn in ([0, 1] if tier == 'quick' else [0, 1, 2]):
            pts = rng.random((350, d))
            ll = -np.sum((pts - 0.5) ** 2, axis=1) * 40
            lmin = np.sort(ll)[-110]
            with np.errstate(all='ignore'):
                n = NeuralBound.compute(pts, ll, lmin, n_networks=nn, neural_network_kwargs=nn_kwargs, rng=np.random.default_rng(int(rng.integers(1 << 30))))
            count('NeuralBound')
            probes = np.vstack([rng.random((300, d)), pts[ll >= lmin][:50]])
            with np.errstate(all='ignore'):
                cn, co = n.contains(probes), n.outer_bound.contains(probes)
            if np.any(cn & ~co):
                fails.append('NeuralBound-%d-n%d: contains a point outside its outer ellipsoid' % (d, nn))
            pointwise(n, probes[:60], 'NeuralBound-%d-n%d' % (d, nn), fails, stats)
            if nn:
                with np.errstate(all='ignore'):
                    pt = n.outer_bound.transform(probes)
                    sc = np.zeros(len(probes), bool)
                    sc[co] = n.emulator.predict(pt[co]) > n.score_predict_min - 1e-9
                cases_s.append(('neural', co, sc | ~co, cn))
            else:
                cases_s.append(('neural', co, None, cn))
            for periodic in (None, [0], [0, d - 1]):
                for pool in (None, 3):
                    if tier == 'quick' and pool and (periodic == [0, d - 1] or nn):
                        continue
                    lab = 'NautilusBound-%d-n%d-%s-%s' % (d, nn, 'per%s' % periodic if periodic else 'np', 'pool' if pool else 'serial')
                    pts = rng.random((450, d))
                    cen = 0.5 if periodic is None else 0.03
                    dist = np.abs(pts - cen)
                    if periodic is not None:
                        dist[:, periodic] = np.minimum(dist[:, periodic], 1 - dist[:, periodic])
                    ll = -np.sum(dist ** 2, axis=1) * 40
                    lmin = np.sort(ll)[-130]
                    with np.errstate(all='ignore'):
                        b = B.NautilusBound.compute(pts, ll, lmin, -2.0 * d, n_networks=nn, neural_network_kwargs=nn_kwargs,
                                                    periodic=None if periodic is None else np.array(periodic), n_points_min=d + 10,
                                                    split_threshold=1.0, rng=np.random.default_rng(int(rng.integers(1 << 30))))
                        p = nb.pool.NautilusPool(T.FakePool(pool, 1, pickle_func=True)) if pool else None
                        s = b.sample(700, pool=p)
                        s = np.vstack([s, b.sample(700, pool=p)])
                    count('NautilusBound')
                    stats['samples'] += 1400
                    with np.errstate(all='ignore'):
                        cs = b.contains(s)
                    if not np.all(cs):
                        fails.append('%s: %d of %d sampled points are not contained' % (lab, int(np.sum(~cs)), len(s)))
                    if not np.all((s >= 0) & (s < 1)):
                        bad = s[~np.all((s >= 0) & (s < 1), axis=1)][0]
                        fails.append('%s: sampled point outside the unit cube: %s' % (lab, [float(x).hex() for x in bad]))
                    probes = np.vstack([s[:40], rng.random((160, d)), pts[ll >= lmin][:40]])
                    pointwise(b, probes[:80], lab, fails, stats)
                    with np.errstate(all='ignore'):
                        q = b.shift.transform(probes) if b.shift is not None else probes
                        co = b.outer_bound.contains(q)
                        cn = [n_.contains(q) for n_ in b.neural_bounds]
                        cb = b.contains(probes)
                    if np.any(cb & ~co):
                        fails.append('%s: contains a point outside its outer union' % lab)
                    cases_s.append(('naut', co, cn, cb))
    stats['probes'] = sum(len(c[-1]) for c in cases_s) + len(cases_q)
    return fails, cases_q, cases_s, stats


def coq_numeric(cases):
    rows = []
    for binv, c, x, bit, dc in cases:
        m = '[' + '; '.join('[' + '; '.join(qlit(v) for v in r) + ']' for r in binv) + ']'
        rows.append('(%s, [%s], [%s], %s, %s)' % (m, '; '.join(qlit(v) for v in c), '; '.join(qlit(v) for v in x), 'true' if bit else 'false', 'true' if dc else 'false'))
    return '''From Coq Require Import List QArith Bool. Import ListNotations.
Require Import NV.GeomQ.
Definition cases : list (mat * vec * vec * bool * bool) := [
%s].
Definition bad := map fst (filter (fun it => let '(m, c, x, b, dc) := snd it in negb dc && negb (Bool.eqb (ell_contains m c x) b)) (combine (seq 0 (length cases)) cases)).
Eval vm_compute in (length cases, bad).
''' % ';\n'.join(rows)


def coq_structural(cases):
    defs = []
    checks = []
    for i, c in enumerate(cases):
        kind = c[0]
        n = len(c[-1])
        if kind == 'union':
            rows, cube, exp = c[1], c[2], c[3]
            defs.append('Definition s%d := forallb (fun i => Bool.eqb (union_contains nat (map (fun row i => nth i row false) [%s]) %s i) (nth i %s false)) (seq 0 %d).' % (
                i, '; '.join(bl(r) for r in rows), 'None' if cube is None else '(Some (fun i => nth i %s false))' % bl(cube), bl(exp), n))
        elif kind == 'mix':
            cu, el, exp = c[1], c[2], c[3]
            defs.append('Definition s%d := forallb (fun i => Bool.eqb (mixture_contains nat %s %s i) (nth i %s false)) (seq 0 %d).' % (
                i, 'None' if cu is None else '(Some (fun i => nth i %s false))' % bl(cu), 'None' if el is None else '(Some (fun i => nth i %s false))' % bl(el), bl(exp), n))
        elif kind == 'neural':
            co, sc, exp = c[1], c[2], c[3]
            defs.append('Definition s%d := forallb (fun i => Bool.eqb (neural_contains nat (fun i => nth i %s false) %s i) (nth i %s false)) (seq 0 %d).' % (
                i, bl(co), 'None' if sc is None else '(Some (fun i => nth i %s false))' % bl(sc), bl(exp), n))
        else:
            co, cn, exp = c[1], c[2], c[3]
            defs.append('Definition s%d := forallb (fun i => Bool.eqb (nautilus_contains nat (fun i => i) (fun i => nth i %s false) (map (fun row i => nth i row false) [%s]) i) (nth i %s false)) (seq 0 %d).' % (
                i, bl(co), '; '.join(bl(r) for r in cn), bl(exp), n))
        checks.append('s%d' % i)
    return '''From Coq Require Import List Bool Arith. Import ListNotations.
Require Import NV.GeomQ.
%s
Eval vm_compute in (map fst (filter (fun ib => negb (snd ib)) (combine (seq 0 %d) [%s]))).
''' % ('\n'.join(defs), len(cases), '; '.join(checks))


def main(run: Run, audit):
    nb = use_repo()
    warnings.filterwarnings('ignore')
    import nautilus.bounds     # noqa
    import nautilus.pool       # noqa
    fails, cases_q, cases_s, stats = build_and_check(nb, run.seed % 100000, run.tier)
    jobs = [('num', cases_q[i::6]) for i in range(6)] + [('str', cases_s[i::2]) for i in range(2)]

    def ev(j):
        kind, cs = j
        if not cs:
            return kind, 0, [], None
        rc, out = coq_eval(coq_numeric(cs) if kind == 'num' else coq_structural(cs), 'cases_C07', timeout=900)
        if rc != 0:
            return kind, 0, [], out[-500:]
        flat = out.replace('\n', ' ').replace('%nat', '')
        if kind == 'num':
            m = re.search(r'=\s*\(\s*(\d+)\s*,\s*(\[[^\]]*\]|nil)\s*\)', flat)
            if not m:
                return kind, 0, [], 'unparsable: ' + out[-300:]
            return kind, int(m.group(1)), [int(x) for x in re.findall(r'\d+', m.group(2))], None
        m = re.search(r'=\s*(\[[^\]]*\]|nil)', flat)
        if not m:
            return kind, 0, [], 'unparsable: ' + out[-300:]
        return kind, len(cs), [int(x) for x in re.findall(r'\d+', m.group(1))], None
    with ThreadPoolExecutor(8) as ex:
        res = list(ex.map(ev, jobs))
    mism, broken = [], []
    n_num = n_str = 0
    for (kind, cs), (_, n, bad, err) in zip(jobs, res):
        if err:
            broken.append(err)
            continue
        if kind == 'num':
            n_num += n
            for i in bad:
                binv, c, x, bit, dc = cs[i]
                mism.append('Ellipsoid.contains answers %s but the exact quadratic form |B_inv (x - c)|^2 says otherwise (x=%s)' % (bit, [float(v).hex() for v in x]))
        else:
            n_str += n
            for i in bad:
                mism.append('composite contains() of a %s bound differs from the composition of its members\' answers' % cs[i][0])
    run.cov.update(evaluations=stats['samples'] + stats['probes'], distinct_nontrivial=stats['bounds'],
                   rule='bounds of every class over dimensions 1-8, point sets (blob, two clusters, elongated 1e6, banana, hugging a face, in a corner, wrapped periodic), '
                        'enlargement in {1+1e-9, 1.1, 2, 100}, unit / free, 0-3 splits, 0-2 networks, serial and pooled sampling; non-trivial = every bound built',
                   bounds_by_class=stats['by_class'], sampled_points=stats['samples'], exact_quadratic_form_cases=n_num, structural_cases=n_str,
                   disagreements_checked=len(mism), direct_predicate_failures=len(fails),
                   samples=[dict(kind='numeric', x=[float(v) for v in cases_q[0][2]], contains=cases_q[0][3])] if cases_q else [])
    if fails:
        run.violation('C07 direct predicate fails on the implementation: ' + fails[0], dict(kind='direct', what=fails[0], all=fails[:10], seed=run.seed % 100000, tier=run.tier), True, key='C07:' + fails[0][:30])
    elif mism:
        run.violation('C07: ' + mism[0], dict(kind='direct', what=mism[0], n_failures=len(mism)), True, key='C07:model')
    elif broken:
        run.violation('in-Coq evaluation of the C07 cases failed: ' + broken[0], dict(kind='correspondence', broken='cases_C07.v', log=broken[0]), False)


def replay(path):
    import json
    r = json.load(open(path))
    print(json.dumps(r, indent=1)[:2000])
    nb = use_repo()
    warnings.filterwarnings('ignore')
    import nautilus.bounds     # noqa
    import nautilus.pool       # noqa
    if 'seed' in r:
        fails, _, _, _ = build_and_check(nb, r['seed'], r.get('tier', 'quick'))
        print(fails[:5])
        return 1 if fails else 0
    return 0
