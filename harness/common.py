"""Shared machinery of the nautilus verification checks.

Every check follows one protocol (DESIGN.md section 7):
  1. build the Coq development (full .vo make) and the extracted OCaml evaluators,
  2. audit: forbidden tokens, `Print Assumptions` under every property theorem,
  3. run the correspondence between the Gallina model and the implementation under
     $VERIF_REPO (default /repo) on generated inputs,
  4. on a broken theorem or correspondence: search for a concrete failing input on the
     implementation with the property's direct predicate; report VIOLATION with the replay,
  5. known findings, 6. evidence file.
"""
import fcntl
import hashlib
import json
import os
import re
import shutil
import subprocess
import sys
import tempfile
import time

VERIF = os.path.dirname(os.path.dirname(os.path.abspath(__file__)))
REPO = os.environ.get('VERIF_REPO', '/repo')
COQ = os.path.join(VERIF, 'coq')
OCAML = os.path.join(VERIF, 'ocaml')
BIN = os.path.join(OCAML, 'bin')
PY = '/venv/bin/python'

FORBIDDEN = re.compile(
    r'\b(Admitted|admit|Axiom|Axioms|Parameter|Parameters|Conjecture|Conjectures|'
    r'Admit Obligations|bypass_check|native_compute)\b|Unset\s+Guard|Unset\s+Positivity|'
    r'Unset\s+Universe|type-in-type|impredicative-set')

# Axioms of the standard library / installed libraries that a theorem may depend on
# (DESIGN.md section 8).  Anything else listed by Print Assumptions fails the audit.
STDLIB_AXIOMS = {
    'ClassicalDedekindReals.sig_forall_dec', 'ClassicalDedekindReals.sig_not_dec',
    'FunctionalExtensionality.functional_extensionality_dep', 'Classical_Prop.classic',
    'Eqdep.Eq_rect_eq.eq_rect_eq', 'ProofIrrelevance.proof_irrelevance', 'JMeq.JMeq_eq',
    # primitive floats / ints and the stdlib's specification axioms for them
    'FloatAxioms.add_spec', 'FloatAxioms.sub_spec', 'FloatAxioms.mul_spec', 'FloatAxioms.div_spec',
    'FloatAxioms.ltb_spec', 'FloatAxioms.leb_spec', 'FloatAxioms.eqb_spec', 'FloatAxioms.opp_spec',
    'FloatAxioms.abs_spec', 'FloatAxioms.compare_spec', 'FloatAxioms.sqrt_spec',
    'FloatAxioms.Prim2SF_valid', 'FloatAxioms.SF2Prim_Prim2SF', 'FloatAxioms.Prim2SF_SF2Prim',
    'FloatAxioms.of_uint63_spec', 'FloatAxioms.normfr_mantissa_spec', 'FloatAxioms.frshiftexp_spec',
    'FloatAxioms.ldshiftexp_spec', 'FloatAxioms.next_up_spec', 'FloatAxioms.next_down_spec',
    'FloatAxioms.classify_spec',
}
PRIMITIVE_PREFIXES = ('PrimFloat.', 'PrimInt63.', 'Uint63.', 'Sint63.', 'FloatOps.', 'Int63.')


def env_for_impl():
    e = dict(os.environ)
    e['PYTHONPATH'] = REPO
    e['PYTHONHASHSEED'] = '0'
    e['OMP_NUM_THREADS'] = '1'
    e['OPENBLAS_NUM_THREADS'] = '1'
    e['MKL_NUM_THREADS'] = '1'
    return e


def use_repo():
    """Make `import nautilus` resolve to $VERIF_REPO in this process and its children."""
    os.environ['PYTHONPATH'] = REPO
    os.environ.setdefault('PYTHONHASHSEED', '0')
    for k in ('OMP_NUM_THREADS', 'OPENBLAS_NUM_THREADS', 'MKL_NUM_THREADS'):
        os.environ[k] = '1'
    if sys.path[0] != REPO:
        sys.path.insert(0, REPO)
    for m in [m for m in sys.modules if m == 'nautilus' or m.startswith('nautilus.')]:
        del sys.modules[m]
    import nautilus
    assert os.path.realpath(os.path.dirname(nautilus.__file__)) == os.path.realpath(
        os.path.join(REPO, 'nautilus')), (nautilus.__file__, REPO)
    return nautilus


def sh(cmd, timeout=1800, cwd=None, env=None, check=False, input=None):
    p = subprocess.run(cmd, shell=isinstance(cmd, str), cwd=cwd, env=env, timeout=timeout,
                       stdout=subprocess.PIPE, stderr=subprocess.STDOUT, text=True, input=input)
    if check and p.returncode != 0:
        raise RuntimeError('command failed (%d): %s\n%s' % (p.returncode, cmd, p.stdout[-4000:]))
    return p.returncode, p.stdout


class BuildError(Exception):
    pass


def build(verbose=False):
    """Full .vo build of the Coq development and of the extracted OCaml evaluators.

    Guarded by a file lock so that concurrently launched checks never run make twice at once.
    Returns (ok, log).  A file that fails to compile is reported by name."""
    os.makedirs(BIN, exist_ok=True)
    lock = open(os.path.join(VERIF, '.build.lock'), 'w')
    fcntl.flock(lock, fcntl.LOCK_EX)
    try:
        log = []
        if not os.path.exists(os.path.join(COQ, 'Makefile')) or \
                os.path.getmtime(os.path.join(COQ, 'Makefile')) < os.path.getmtime(os.path.join(COQ, '_CoqProject')):
            rc, out = sh('coq_makefile -f _CoqProject -o Makefile', cwd=COQ, timeout=120)
            log.append(out)
            if rc != 0:
                return False, '\n'.join(log)
        rc, out = sh('timeout 1700 make -j16 -k 2>&1 | grep -v "^COQDEP\\|^make\\[" | tail -n 400', cwd=COQ, timeout=1800)
        log.append(out)
        failed = re.findall(r'File "\./([A-Za-z0-9_]+\.v)", line \d+, characters [\d-]+:\s*\nError', out)
        ok_coq = (rc == 0 and 'Error' not in out and '***' not in out)
        rc2, out2 = sh('timeout 600 make -s -C %s 2>&1 | tail -n 100' % OCAML, timeout=700)
        log.append(out2)
        ok_ml = 'rror' not in out2 and '***' not in out2
        return (ok_coq and ok_ml), '\n'.join(log) + ('\nFAILED FILES: %s' % sorted(set(failed)) if failed else '')
    finally:
        fcntl.flock(lock, fcntl.LOCK_UN)
        lock.close()


def vo_ok(name):
    """True if coq/<name>.vo exists and is newer than its source."""
    v = os.path.join(COQ, name + '.v')
    vo = os.path.join(COQ, name + '.vo')
    return os.path.exists(vo) and os.path.getmtime(vo) >= os.path.getmtime(v)


def forbidden_tokens():
    """Scan every .v file of the development (comments stripped) for forbidden constructs."""
    hits = []
    for fn in sorted(os.listdir(COQ)):
        if not fn.endswith('.v'):
            continue
        src = open(os.path.join(COQ, fn)).read()
        src = strip_comments(src)
        for i, line in enumerate(src.split('\n'), 1):
            m = FORBIDDEN.search(line)
            if m:
                hits.append('%s:%d: %s' % (fn, i, m.group(0)))
            if re.match(r'\s*(Variable|Variables|Hypothesis|Hypotheses|Context)\b', line):
                # must be inside a Section: checked by counting Section/End nesting
                pass
    hits += sectionless_variables()
    return hits


def strip_comments(src):
    out = []
    depth = 0
    i = 0
    while i < len(src):
        if src.startswith('(*', i):
            depth += 1
            i += 2
        elif src.startswith('*)', i) and depth > 0:
            depth -= 1
            i += 2
        else:
            if depth == 0:
                out.append(src[i])
            elif src[i] == '\n':
                out.append('\n')
            i += 1
    return ''.join(out)


def sectionless_variables():
    hits = []
    for fn in sorted(os.listdir(COQ)):
        if not fn.endswith('.v'):
            continue
        src = strip_comments(open(os.path.join(COQ, fn)).read())
        depth = 0
        for i, line in enumerate(src.split('\n'), 1):
            if re.match(r'\s*(Section|Module)\s+\w+', line) and not re.match(r'\s*Module\s+\w+\s*:=', line):
                depth += 1
            elif re.match(r'\s*End\s+\w+\s*\.', line) and depth > 0:
                # `End` also closes modules; modules are not used in this development
                depth -= 1
            elif depth == 0 and re.match(r'\s*(Variable|Variables|Hypothesis|Hypotheses|Context)\b', line):
                hits.append('%s:%d: section-less %s' % (fn, i, line.strip()))
    return hits


def audit_property_file(pfile, required):
    """Compile coq/<pfile>.v afresh, parse every `Print Assumptions` block.

    required: list of theorem names that must be present in the file (each followed by a
    Print Assumptions).  Returns dict(ok, theorems={name: [axioms]}, problems=[...], log)."""
    problems = []
    path = os.path.join(COQ, pfile + '.v')
    if not os.path.exists(path):
        return dict(ok=False, theorems={}, problems=['missing ' + pfile + '.v'], log='')
    src = strip_comments(open(path).read())
    # the property file may contain only Require/Import, Theorem ... exact ..., Print Assumptions, Check
    names = re.findall(r'(?:Theorem|Corollary)\s+([A-Za-z0-9_\']+)', src)
    printed = re.findall(r'Print Assumptions\s+([A-Za-z0-9_\'.]+)\s*\.', src)
    for r in required:
        if r not in names:
            problems.append('theorem %s missing from %s.v' % (r, pfile))
        if r not in printed:
            problems.append('no Print Assumptions for %s in %s.v' % (r, pfile))
    lock = open(os.path.join(VERIF, '.build.lock'), 'w')
    fcntl.flock(lock, fcntl.LOCK_SH)
    try:
        rc, out = sh('timeout 600 coqc -Q . NV %s.v' % pfile, cwd=COQ, timeout=700)
    finally:
        fcntl.flock(lock, fcntl.LOCK_UN)
        lock.close()
    if rc != 0:
        problems.append('%s.v does not compile: %s' % (pfile, out[-1500:]))
        return dict(ok=False, theorems={}, problems=problems, log=out)
    # Parse the output: blocks are either "Closed under the global context" or "Axioms:\n name : type ..."
    blocks = re.split(r'(?m)^(?=Closed under the global context|Axioms:)', out)
    blocks = [b for b in blocks if b.startswith('Closed under') or b.startswith('Axioms:')]
    theorems = {}
    if len(blocks) != len(printed):
        problems.append('%s.v: %d Print Assumptions commands but %d result blocks' % (pfile, len(printed), len(blocks)))
    allowed_last = {a.split('.')[-1] for a in STDLIB_AXIOMS} | PRIM_NAMES
    for name, b in zip(printed, blocks):
        if b.startswith('Closed under'):
            theorems[name] = []
            continue
        axs = re.findall(r'(?m)^([A-Za-z_][A-Za-z0-9_.\']*)', b[len('Axioms:'):])
        theorems[name] = axs
        for a in axs:
            if a.split('.')[-1] not in allowed_last:
                problems.append('%s depends on non-allow-listed assumption %s' % (name, a))
    return dict(ok=not problems, theorems=theorems, problems=problems, log=out)


PRIM_NAMES = {
    'add', 'sub', 'mul', 'div', 'ltb', 'leb', 'eqb', 'abs', 'opp', 'sqrt', 'compare', 'classify',
    'of_uint63', 'normfr_mantissa', 'frshiftexp', 'ldshiftexp', 'next_up', 'next_down', 'float', 'int',
    'lsr', 'lsl', 'lor', 'land', 'lxor', 'addc', 'subc', 'mulc', 'diveucl', 'mod', 'pfloat',
    'add_spec', 'sub_spec', 'mul_spec', 'div_spec', 'ltb_spec', 'leb_spec', 'eqb_spec', 'opp_spec', 'abs_spec',
    'compare_spec', 'sqrt_spec', 'Prim2SF_valid', 'SF2Prim_Prim2SF', 'Prim2SF_SF2Prim', 'of_uint63_spec',
    'normfr_mantissa_spec', 'frshiftexp_spec', 'ldshiftexp_spec', 'next_up_spec', 'next_down_spec', 'classify_spec',
    'head0', 'tail0', 'ltb', 'leb', 'compare', 'addcarryc', 'subcarryc', 'diveucl_21', 'addmuldiv',
}


def load_known_findings():
    p = os.path.join(VERIF, 'known_findings.json')
    if not os.path.exists(p):
        return dict(findings=[], fixed=[])
    return json.load(open(p))


class Run:
    """Bookkeeping of one check run: violations, known findings, evidence."""

    def __init__(self, pid, tier, seed, level='proof'):
        self.pid = pid
        self.tier = tier
        self.seed = seed
        self.level = level
        self.t0 = time.time()
        self.violations = []
        self.known_hits = []
        self.cov = dict(evaluations=0, distinct_nontrivial=0, samples=[])
        self.assumptions = []
        self.known = load_known_findings()
        self.tmp = tempfile.mkdtemp(prefix='nv_%s_' % pid)
        os.makedirs(os.path.join(VERIF, 'replays'), exist_ok=True)
        os.makedirs(os.path.join(VERIF, 'evidence'), exist_ok=True)

    def violation(self, what, replay, found_input, key=None):
        """Register a violation.  `replay` is a JSON-serialisable dict; `found_input` says whether it is a
        concrete failing input on the implementation; `key` identifies it for known_findings.json."""
        for kf in self.known.get('findings', []):
            if kf.get('property') == self.pid and key is not None and kf.get('key') == key:
                line = 'KNOWN-FINDING: property=%s %s' % (self.pid, kf.get('what', what))
                if line not in self.known_hits:
                    self.known_hits.append(line)
                    print(line, flush=True)
                return
        n = len(self.violations)
        path = os.path.join(VERIF, 'replays', '%s-%d-%d.json' % (self.pid, self.seed, n))
        replay = dict(replay)
        replay.setdefault('property', self.pid)
        replay['what'] = what
        replay['failing_input_found'] = bool(found_input)
        with open(path, 'w') as f:
            json.dump(replay, f, indent=1, default=str)
        self.violations.append((what, path, found_input))
        print('VIOLATION property=%s replay=%s%s' % (self.pid, path, '' if found_input else ' no-failing-input-found'),
              flush=True)
        print('  ' + what[:600], flush=True)

    def finish(self, audit=None, extra_assumptions=()):
        cov = dict(self.cov)
        if audit is not None:
            ths = audit.get('theorems', {})
            cov['obligations'] = max(1, len(audit.get('required', ths)))
            cov['discharged'] = len([t for t in audit.get('required', ths) if t in ths]) if audit.get('ok') else \
                max(0, len([t for t in audit.get('required', ths) if t in ths]) - len(audit.get('problems', [])))
            if cov['discharged'] < 1:
                cov['discharged'] = 0
            cov['checker_cmd'] = audit.get('checker_cmd', 'make -C coq (full .vo build, coqc 8.16.1) && coqc -Q . NV %s.v' % audit.get('pfile', '?'))
            cov['theorems'] = {k: v for k, v in ths.items()}
            cov['trusted_base'] = audit.get('trusted_base', [])
        cov.setdefault('samples', [])
        if not cov['samples']:
            cov['samples'] = ['(none)']
        ev = dict(property_id=self.pid, tier=self.tier, seed=int(self.seed), level=self.level, coverage=cov,
                  assumptions=list(self.assumptions) + list(extra_assumptions), wall_s=round(time.time() - self.t0, 2),
                  violations=len(self.violations), known_findings_reported=self.known_hits)
        if cov.get('discharged', 1) == 0 and self.level == 'proof':
            # schema wants discharged >= 1 when obligations is present; fall back to generic keys
            cov.pop('obligations', None)
            cov['discharged_count'] = cov.pop('discharged')
        with open(os.path.join(VERIF, 'evidence', self.pid + '.json'), 'w') as f:
            json.dump(ev, f, indent=1, default=str)
        shutil.rmtree(self.tmp, ignore_errors=True)
        return 1 if self.violations else 0


def digest(b):
    return hashlib.sha1(b).hexdigest()[:16]


def coq_eval(text, name, timeout=900):
    """Evaluate a generated Coq file (cases_*.v) with coqc inside a scratch directory; returns (rc, stdout)."""
    d = tempfile.mkdtemp(prefix='nvcoq_')
    try:
        with open(os.path.join(d, name + '.v'), 'w') as f:
            f.write(text)
        rc, out = sh('timeout %d coqc -Q %s NV %s.v' % (timeout, COQ, name), cwd=d, timeout=timeout + 30)
        return rc, out
    finally:
        shutil.rmtree(d, ignore_errors=True)
