"""C13 -- a union of ellipsoids stays well-formed under any split/trim/sample order.

Tie: every operation sequence up to a bounded length over {split(True), split(False), trim(1e3), trim(1.5),
sample(50)} is executed on real Union objects (as a prefix tree with deepcopy); the oracle data of each operation is
derived from observables only (flags that flipped, the removed ellipsoid, membership of its points in the two new
records, exact volumes) and the sequence is replayed through the extracted model (Union2.ustep); the four records
must be equal after every operation.  Search: the property's direct predicates on the implementation alone."""
import copy
import itertools
import math
import os
import subprocess
import sys
import warnings
from fractions import Fraction
from multiprocessing import Pool

import numpy as np

from common import BIN, Run, use_repo

OPS = [('S', True), ('S', False), ('T', 1e3), ('T', 1.5), ('P', 50)]


def dyadic(x):
    m, e = math.frexp(float(x))
    m = int(m * 2 ** 53)
    e -= 53
    while m and m % 2 == 0:
        m //= 2
        e += 1
    return m, e


def dy_str(x):
    return '%d:%d' % dyadic(x)


def dy_bits(x):
    """binary string num/den as printed by the driver"""
    m, e = dyadic(x)
    if m == 0:
        return '0/1'
    if e >= 0:
        return bin(m << e)[2:] + '/1'
    return bin(m)[2:] + '/' + bin(1 << (-e))[2:]


def pointsets(tier, seed):
    r = np.random.default_rng(seed)

    def clip(a):
        return np.clip(a, 0.001, 0.999)
    sets = [
        ('two-tight+sparse-2d', clip(np.vstack([r.normal(0.2, 0.01, (120, 2)), r.normal(0.8, 0.01, (120, 2)), r.normal([0.2, 0.8], 0.15, (12, 2))])), 5),
        ('three-3d', clip(np.vstack([r.normal(0.2, 0.02, (60, 3)), r.normal(0.5, 0.02, (60, 3)), r.normal(0.8, 0.02, (60, 3))])), 10),
        ('overlapping-2d', clip(np.vstack([r.normal(0.45, 0.05, (100, 2)), r.normal(0.55, 0.05, (100, 2))])), 10),
        ('core+halo-2d-window', clip(np.vstack([r.normal(0.5, 0.01, (14, 2)), r.normal(0.5, 0.2, (9, 2))])), 8),
        ('disc+dense+sparse-2d', clip(np.vstack([np.array([0.2, 0.2]) + 0.05 * (lambda rr, ph: np.column_stack([rr * np.cos(ph), rr * np.sin(ph)]))(np.sqrt(r.random(120)), 2 * np.pi * r.random(120)),
                                                  r.normal([0.8, 0.2], 0.002, (15, 2)), r.normal([0.5, 0.7], 0.2, (14, 2))])), 10),
        # a main blob with fewer than n_points_min stragglers beside it: the smaller mixture component is topped up, and some
        # main-blob points outrank its own members in its density ranking (fixed generators, independent of `seed`)
    ] + [('blob+%dstragglers-2d-g%d' % (ns, g), (lambda q: clip(np.vstack([np.array([0.65, 0.5]) + 0.03 * q.normal(size=(60, 2)), np.array([0.45, 0.5]) + 0.07 * q.normal(size=(ns, 2))]))[q.permutation(60 + ns)])(np.random.default_rng(g)), 8)
         for g, ns in ((1, 4), (4, 5), (27, 3), (10, 6))] + [
        # exactly 2 n_points_min points (the smallest ellipsoid split() will touch) with a few stragglers: after the repair of
        # the labels BOTH halves must still hold n_points_min points
    ] + [(lambda q: (lambda nm: (lambda n: (lambda k: ('edge-2nmin-g%d' % g, clip(np.vstack([np.array([0.6, 0.5]) + 0.03 * q.normal(size=(n - k, 2)),
                                                                                     np.array([0.45, 0.5]) + q.choice([0.03, 0.07, 0.12]) * q.normal(size=(k, 2))]))[q.permutation(n)], nm))(
        int(q.integers(2, nm))))(2 * nm + int(q.integers(0, 4))))(int(q.choice([5, 8]))))(np.random.default_rng(g)) for g in (85, 88, 309)] + [
        ('uniform-ball-3d', clip(0.5 + 0.3 * (lambda x: x / np.linalg.norm(x, axis=1)[:, None] * r.uniform(0, 1, (len(x), 1)) ** (1 / 3))(r.normal(size=(120, 3)))), 6),
    ]
    if tier == 'thorough':
        sets += [
            ('one-4d', clip(r.normal(0.5, 0.05, (150, 4))), 12),
            ('four-2d', clip(np.vstack([r.normal(c, 0.015, (50, 2)) for c in ([0.2, 0.2], [0.2, 0.8], [0.8, 0.2], [0.8, 0.8])])), 6),
            ('banana-2d', clip(np.column_stack([np.cos(t := r.uniform(0, 3, 200)) * 0.3 + 0.5 + r.normal(0, 0.01, 200), np.sin(t) * 0.3 + 0.3 + r.normal(0, 0.01, 200)])), 8),
            ('two-5d', clip(np.vstack([r.normal(0.3, 0.03, (80, 5)), r.normal(0.7, 0.03, (80, 5))])), 10),
            ('small-window-3d', clip(np.vstack([r.normal(0.4, 0.01, (9, 3)), r.normal(0.6, 0.1, (8, 3))])), 6),
            ('three-unequal-2d', clip(np.vstack([r.normal(0.2, 0.01, (200, 2)), r.normal(0.6, 0.05, (40, 2)), r.normal([0.8, 0.2], 0.02, (16, 2))])), 8),
            ('line-3d', clip(np.column_stack([np.linspace(0.1, 0.9, 90), np.linspace(0.1, 0.9, 90) + r.normal(0, 0.005, 90), r.normal(0.5, 0.005, 90)])), 5),
            ('two-sparse-2d', clip(np.vstack([r.normal(0.3, 0.1, (30, 2)), r.normal(0.7, 0.1, (30, 2))])), 4),
        ]
    return sets


class Ids:
    def __init__(self):
        self.d = {}

    def get(self, row):
        k = np.ascontiguousarray(row, dtype=float).tobytes()
        return self.d.setdefault(k, len(self.d) + 1)


def snap(u):
    return dict(b=list(u.bounds), p=[np.array(x) for x in u.points_bounds], v=[float(x) for x in u.log_v_all],
                blk=[bool(x) for x in np.atleast_1d(u.block)])


def direct(pre, post, op, arg, ret, exc, nmin, construction, trimmed, ids):
    """The property's predicates on the implementation alone.  Returns list of failure strings."""
    f = []
    if exc is not None:
        return ['operation %s(%r) raised %s' % (op, arg, exc)]
    n = len(post['b'])
    if not (len(post['p']) == n and len(post['v']) == n and len(post['blk']) == n):
        f.append('records inconsistent: %d bounds, %d point sets, %d volumes, %d flags' % (n, len(post['p']), len(post['v']), len(post['blk'])))
    have = sorted(ids.get(r) for P in post['p'] for r in P)
    want = sorted(i for i in construction if i not in trimmed)
    if have != want:
        f.append('points of the ellipsoids (%d) are not the construction points not yet trimmed (%d)' % (len(have), len(want)))
    # a record stays with its ellipsoid: points, volume and may-split flag of an untouched ellipsoid do not change
    # (split may set the flag of an ellipsoid it tried and could not improve)
    if len(post['p']) == n and len(post['v']) == n and len(post['blk']) == n:
        for i, b in enumerate(pre['b']):
            for j, c in enumerate(post['b']):
                if b is c:
                    if not np.array_equal(pre['p'][i], post['p'][j]) or pre['v'][i] != post['v'][j]:
                        f.append('points or volume of an untouched ellipsoid changed')
                    if pre['blk'][i] != post['blk'][j] and not (op == 'S' and not pre['blk'][i] and post['blk'][j]):
                        f.append('may-split flag of an untouched ellipsoid changed from %s to %s during %s' % (pre['blk'][i], post['blk'][j], {'S': 'split', 'T': 'trim', 'P': 'sample'}[op]))
    same = (len(pre['b']) == len(post['b']) and all(a is b for a, b in zip(pre['b'], post['b']))
            and all(np.array_equal(a, b) for a, b in zip(pre['p'], post['p'])))
    if op == 'S':
        if ret:
            new = [P for b, P in zip(post['b'], post['p']) if all(b is not c for c in pre['b'])]
            for P in new:
                if len(P) < nmin:
                    f.append('split produced an ellipsoid with %d < n_points_min=%d points' % (len(P), nmin))
            if np.logaddexp.reduce(post['v']) > np.logaddexp.reduce(pre['v']) + 1e-12:
                f.append('successful split increased the summed volume: %r -> %r' % (np.logaddexp.reduce(pre['v']), np.logaddexp.reduce(post['v'])))
        elif not same:
            f.append('refused split changed ellipsoids or points')
    elif op == 'T':
        if not ret and not (same and pre['blk'] == post['blk'] and pre['v'] == post['v']):
            f.append('refused trim changed the union')
    elif op == 'P':
        if not (same and pre['blk'] == post['blk'] and pre['v'] == post['v']):
            f.append('sample changed the records')
    return f


def events_for(pre, post, op, arg, ret, ids, bid, rec):
    """Model input lines for one operation, derived from observables only."""
    lines = []
    if op == 'S':
        structural = len(post['b']) != len(pre['b']) or any(a is not b for a, b in zip(pre['b'], post['b']))
        if structural:
            removed = [i for i, b in enumerate(pre['b']) if all(b is not c for c in post['b'])]
            if len(removed) != 1 or len(post['b']) != len(pre['b']) + 1:
                return ['# unrecognised structural change'], False
            idx = removed[0]
            flipped = [i for i in range(len(pre['b'])) if i != idx and not pre['blk'][i] and
                       (i if i < idx else i - 1) < len(post['blk']) and post['blk'][(i if i < idx else i - 1)]]
        else:
            idx = None
            flipped = [i for i in range(min(len(pre['b']), len(post['blk']))) if not pre['blk'][i] and post['blk'][i]]
        for i in sorted(flipped, key=lambda i: (-pre['v'][i], i)):
            lines.append('AB %d' % i)
            rec['blocked'] += 1
        if structural:
            new1 = post['p'][-1]
            set1 = set(ids.get(r) for r in new1)
            labels = ''.join('1' if ids.get(r) in set1 else '0' for r in pre['p'][idx])
            lines.append('AS %d %d %d %s %s %s' % (idx, bid(post['b'][-2]), bid(post['b'][-1]),
                                                    dy_str(math.exp(post['v'][-2])), dy_str(math.exp(post['v'][-1])), labels))
            rec['split_ok'] += 1
        elif ret is False and len(post['blk']) == len(post['b']) and not all(post['blk']):
            cand = [i for i in range(len(post['b'])) if not post['blk'][i]]
            lines.append('AR %d' % max(cand, key=lambda i: (math.exp(post['v'][i]), -i)))
            rec['refused_overlap'] += 1
        elif ret is False:
            rec['all_blocked'] += 1
        lines.append('SPLIT %d' % (1 if arg else 0))
    elif op == 'T':
        if ret:
            removed = [i for i, b in enumerate(pre['b']) if all(b is not c for c in post['b'])]
            lines.append('TRIM %d' % (removed[0] if removed else 0))
            rec['trim_ok'] += 1
        else:
            lines.append('TRIM -1')
    else:
        lines.append('SAMPLE')
    return lines, True


def dump(s, ids, bid):
    return 'U bs=%s vols=%s blk=%s pbs=%s' % (
        ','.join(str(bid(b)) for b in s['b']), ','.join(dy_bits(math.exp(v)) for v in s['v']),
        ''.join('1' if x else '0' for x in s['blk']), '|'.join(','.join(str(ids.get(r)) for r in P) for P in s['p']))


def subtree(args):
    """Worker: all sequences (prefix tree, depth maxlen) below one first operation on one point set."""
    name, pts, nmin, first, maxlen, seed, tmp, wid = args
    use_repo()
    warnings.filterwarnings('ignore')
    from nautilus.bounds import Union
    import nautilus.bounds.union as UM
    # observe the mixture fit of split(): component weights and the two log-density columns (for the label-repair model)
    split_rec = dict(w=[], lp=[])
    if not getattr(UM.GaussianMixture, '_nv_proxy', False):
        _RealGMM, _real_mvn = UM.GaussianMixture, UM.multivariate_normal

        class RecGMM(_RealGMM):
            _nv_proxy = True

            def fit(self, X, y=None):
                r = super().fit(X, y)
                UM._nv_rec['w'].append(np.array(self.weights_))
                return r

        class RecMVN:
            def logpdf(self, *a, **k):
                r = _real_mvn.logpdf(*a, **k)
                UM._nv_rec['lp'].append(np.array(r))
                return r

            def __getattr__(self, n):
                return getattr(_real_mvn, n)
        UM.GaussianMixture, UM.multivariate_normal = RecGMM, RecMVN()
    UM._nv_rec = split_rec
    topup_cases = {}
    rec = dict(ops=0, split_ok=0, trim_ok=0, refused_overlap=0, blocked=0, all_blocked=0, exc=0, sequences=0, sample_ops=0)
    ids = Ids()
    bidmap = {}

    def bid(b):
        return bidmap.setdefault(id(b), len(bidmap) + 1)
    keepalive = []
    u0 = Union.compute(pts, n_points_min=nmin, rng=np.random.default_rng(seed))
    construction = [ids.get(r) for r in pts]
    s0 = snap(u0)
    keepalive.append(s0)
    init_line = 'INIT %d %d %s %s' % (nmin, bid(s0['b'][0]), dy_str(math.exp(s0['v'][0])), ' '.join(str(ids.get(r)) for r in s0['p'][0]))
    model_in, impl_out, ctx, fails = [], [], [], []

    def visit(u, path_lines, path_impl, seq, trimmed, depth, ops):
        for op, arg in ops:
            v = copy.deepcopy(u)
            # deepcopy duplicates the bound objects: map the copies to the ids of the originals
            for a, b in zip(u.bounds, v.bounds):
                bidmap[id(b)] = bid(a)
            keepalive.append(v)
            pre = snap(v)
            split_rec['w'].clear()
            split_rec['lp'].clear()
            try:
                with np.errstate(all='ignore'):
                    if op == 'S':
                        ret = bool(v.split(allow_overlap=arg))
                    elif op == 'T':
                        ret = bool(v.trim(threshold=arg))
                    else:
                        sp = v.sample(arg)
                        ret = True
                        rec['sample_ops'] += 1
                        if len(sp) != arg or not np.all(v.contains(sp)):
                            fails.append((seq + [(op, arg)], 'sample returned %d points, all contained: %s' % (len(sp), bool(np.all(v.contains(sp))))))
                exc = None
            except Exception as e:     # noqa
                ret, exc = None, type(e).__name__ + ': ' + str(e)[:100]
                rec['exc'] += 1
            try:
                post = snap(v)
            except Exception as e:     # noqa
                fails.append((seq + [(op, arg)], 'state unreadable after the operation: %s' % type(e).__name__))
                continue
            keepalive.append(post)
            rec['ops'] += 1
            tr2 = set(trimmed)
            if op == 'T' and ret:
                gone = [P for b, P in zip(pre['b'], pre['p']) if all(b is not c for c in post['b'])]
                for P in gone:
                    tr2 |= set(ids.get(r) for r in P)
            for w in direct(pre, post, op, arg, ret, exc, nmin, construction, tr2, ids):
                fails.append((seq + [(op, arg)], w))
            if exc is not None:
                lines, ok = ['# exception'], False
            else:
                lines, ok = events_for(pre, post, op, arg, ret, ids, bid, rec)
                acc = [l for l in lines if l.startswith('AS ')]
                if op == 'S' and acc and split_rec['w'] and len(split_rec['lp']) >= 2:
                    # label repair of the accepted attempt: the recorded densities give the labels before the repair and
                    # the ranking oracle; the model (TopUp.topup) must give the partition the implementation installed
                    w, lp0, lp1 = split_rec['w'][-1], split_rec['lp'][-2], split_rec['lp'][-1]
                    pm = np.vstack([lp0 + np.log(w[0]), lp1 + np.log(w[1])]).T
                    lab0 = np.argmax(pm, axis=1)
                    observed = acc[-1].split()[-1]
                    if len(lab0) == len(observed):
                        cnt = np.bincount(lab0, minlength=2)
                        sm = int(np.argmin(cnt))
                        other = np.flatnonzero(lab0 != sm)
                        rank = [int(x) for x in other[np.argsort(-pm[other, sm])]]
                        key = (nmin, ''.join(map(str, lab0)), tuple(rank), observed)
                        topup_cases.setdefault(key, seq + [(op, arg)])
                        rec['topup_needed'] = rec.get('topup_needed', 0) + int(cnt.min() < nmin)
            pl = path_lines + lines
            pi = path_impl + [('RET %s ' % ('true' if ret else 'false') + dump(post, ids, bid)) if exc is None else 'EXC ' + str(exc)]
            # emit this node as one sequence for the model
            rec['sequences'] += 1
            model_in.append(init_line)
            model_in.extend(pl)
            impl_out.append('INIT ' + dump(s0, ids, bid))
            impl_out.extend(pi)
            ctx.extend([seq + [(op, arg)]] * (1 + len(pi)))
            if exc is None and depth + 1 < maxlen:
                visit(v, pl, pi, seq + [(op, arg)], tr2, depth + 1, OPS)

    visit(u0, [], [], [], set(), 0, [first])
    path = os.path.join(tmp, 'c13_%d.in' % wid)
    with open(path, 'w') as f:
        f.write('\n'.join(model_in) + '\n')
    out = subprocess.run([os.path.join(BIN, 'union_checker'), path], stdout=subprocess.PIPE, text=True).stdout.split('\n')
    os.unlink(path)
    mism = []
    for i, exp in enumerate(impl_out):
        got = out[i] if i < len(out) else '<missing>'
        if got != exp:
            mism.append((ctx[i], exp[:400], got[:400]))
            if len(mism) > 10:
                break
    return dict(name=name, first=first, rec=rec, fails=fails[:20], n_fails=len(fails), mism=mism[:5], n_cmp=len(impl_out),
                sample=(model_in[:6] if model_in else []), topup=[(k, v) for k, v in topup_cases.items()][:60])


def random_small_sets(seed, n):
    """random point sets sitting on the guards of split(): between 2 n_min and 4 n_min points, a blob plus zero to n_min stragglers"""
    out = []
    for i in range(n):
        r = np.random.default_rng([seed, i])
        d = int(r.integers(2, 5))
        nmin = int(r.integers(d + 1, d + 6))
        npts = 2 * nmin + int(r.integers(0, 2 * nmin + 2))
        k = int(r.integers(0, min(nmin, npts // 2) + 1))
        c1, c2 = r.random(d) * 0.6 + 0.2, r.random(d) * 0.6 + 0.2
        pts = np.clip(np.vstack([c1 + r.choice([0.01, 0.03, 0.1]) * r.normal(size=(npts - k, d)), c2 + r.choice([0.01, 0.05, 0.15]) * r.normal(size=(k, d))]), 1e-6, 1 - 1e-6)
        out.append(('random-%dd-n%d-min%d-k%d-#%d' % (d, npts, nmin, k, i), pts[r.permutation(npts)], nmin))
    return out


def fmt_seq(seq):
    return ['split(allow_overlap=%s)' % a if o == 'S' else ('trim(%g)' % a if o == 'T' else 'sample(%d)' % a) for o, a in seq]


def main(run: Run, audit):
    maxlen = 4 if run.tier == 'quick' else 5
    sets = pointsets(run.tier, 1)
    tasks = []
    for name, pts, nmin in sets:
        for first in OPS:
            tasks.append((name, pts, nmin, first, maxlen, 7 + (run.seed % 1000), run.tmp, len(tasks)))
    rsets = random_small_sets(run.seed, 24 if run.tier == 'quick' else 400)
    for name, pts, nmin in rsets:
        for first in OPS:
            tasks.append((name, pts, nmin, first, 3, 7 + (run.seed % 1000), run.tmp, len(tasks)))
    sets = sets + rsets
    with Pool(16) as pool:
        results = pool.map(subtree, tasks, chunksize=1)
    tot = {}
    for r in results:
        for k, v in r['rec'].items():
            tot[k] = tot.get(k, 0) + v
    fails = [(r['name'], f) for r in results for f in r['fails']]
    mism = [(r['name'], m) for r in results for m in r['mism']]
    n_cmp = sum(r['n_cmp'] for r in results)
    run.cov.update(evaluations=tot.get('sequences', 0), distinct_nontrivial=tot.get('split_ok', 0) + tot.get('trim_ok', 0) + tot.get('refused_overlap', 0) + tot.get('blocked', 0),
                   rule='all sequences of length <= %d over {split(True), split(False), trim(1e3), trim(1.5), sample(50)} on %d point sets, run as a prefix tree; '
                        'non-trivial = operations that changed a record (successful splits, trims, blocked attempts) or were refused for overlap' % (maxlen, len(sets)),
                   exhaustive=True, max_length=maxlen, point_sets=[s[0] for s in sets][:40], n_point_sets=len(sets), random_small_sets=len(rsets), operation_distribution=tot, comparisons=n_cmp,
                   disagreements_checked=len(mism), direct_predicate_failures=sum(r['n_fails'] for r in results),
                   samples=[r['sample'] for r in results[:2]])
    # label-repair model inside Coq: TopUp.topup on the labels before the repair and the ranking oracle = installed partition
    from common import coq_eval
    import re as _re
    tcases = []
    seen_t = set()
    for r in results:
        for (k, sq) in r.get('topup', []):
            if k not in seen_t and len(tcases) < 600:
                seen_t.add(k)
                tcases.append((r['name'], k, sq))
    tbad = []
    if tcases:
        def bl(sx):
            return '[' + '; '.join('true' if c == '1' else 'false' for c in sx) + ']'
        rows = ['(%d, %s, [%s], %s)' % (k[0], bl(k[1]), '; '.join(map(str, k[2])), bl(k[3])) for _, k, _ in tcases]
        body = '''From Coq Require Import List Arith Bool. Import ListNotations.
Require Import NV.TopUp.
Fixpoint beq (a b : list bool) : bool := match a, b with [] , [] => true | x :: a', y :: b' => Bool.eqb x y && beq a' b' | _, _ => false end.
Definition cases : list (nat * list bool * list nat * list bool) := [%s].
Eval vm_compute in (length cases, map fst (filter (fun ic => match snd ic with (n, l0, rk, obs) => negb (beq (topup n rk l0) obs) end) (combine (seq 0 (length cases)) cases))).
''' % ';\n '.join(rows)
        rc, out = coq_eval(body, 'cases_C13_topup', timeout=600)
        m = _re.search(r'=\s*\(\s*(\d+)\s*,\s*(\[[^\]]*\]|nil)\s*\)', out.replace('\n', ' ').replace('%nat', ''))
        if rc != 0 or not m:
            tbad = [('coq', out[-300:])]
        else:
            tbad = [('case', int(x)) for x in _re.findall(r'\d+', m.group(2))]
    run.cov.update(topup_cases=len(tcases), topup_cases_needing_repair=sum(1 for _, k, _ in tcases if min(k[1].count('0'), k[1].count('1')) < k[0]), topup_disagreements=len(tbad))
    if tbad and not fails:
        if tbad[0][0] == 'coq':
            run.violation('in-Coq evaluation of the label-repair cases failed: ' + tbad[0][1], dict(kind='correspondence', broken='cases_C13_topup.v'), False)
        else:
            name, k, sq = tcases[tbad[0][1]]
            run.violation('correspondence Union.split (repair of the cluster labels) ~ TopUp.topup broken (no property predicate fails) after %s on %s: the installed partition is not the one the model gives' % (fmt_seq(sq), name),
                          dict(kind='correspondence', broken='union.py split label repair ~ TopUp.topup', point_set=name, sequence=[[o, a] for o, a in sq], n_points_min=k[0],
                               labels_before=k[1], ranking=list(k[2]), installed=k[3]), False)
    if fails:
        fails.sort(key=lambda x: len(x[1][0]))
        name, (seq, what) = fails[0]
        run.violation('C13 direct predicate fails on the implementation: %s after %s on point set %s' % (what, fmt_seq(seq), name),
                      dict(kind='direct', point_set=name, sequence=[[o, a] for o, a in seq], what=what, seed=7 + (run.seed % 1000), tier=run.tier), True,
                      key='C13:' + what[:30])
    elif mism:
        mism.sort(key=lambda x: len(x[1][0]))
        name, (seq, exp, got) = mism[0]
        run.violation('correspondence Union ~ Union2.ustep broken (no property predicate fails) after %s on %s: implementation %s / model %s' % (fmt_seq(seq), name, exp[:200], got[:200]),
                      dict(kind='correspondence', broken='union.py split/trim ~ Union2.ustep', point_set=name, sequence=[[o, a] for o, a in seq],
                           implementation=exp, model=got, seed=7 + (run.seed % 1000)), False)


def replay(path):
    import json
    use_repo()
    warnings.filterwarnings('ignore')
    from nautilus.bounds import Union
    r = json.load(open(path))
    sets = {s[0]: s for s in pointsets(r.get('tier', 'thorough'), 1)}
    name, pts, nmin = sets[r['point_set']]
    u = Union.compute(pts, n_points_min=nmin, rng=np.random.default_rng(r['seed']))
    ids = Ids()
    construction = [ids.get(x) for x in pts]
    trimmed = set()
    bad = 0
    for op, arg in r['sequence']:
        pre = snap(u)
        try:
            ret = u.split(allow_overlap=arg) if op == 'S' else (u.trim(threshold=arg) if op == 'T' else (u.sample(arg) is not None))
            exc = None
        except Exception as e:     # noqa
            ret, exc = None, type(e).__name__
        post = snap(u)
        if op == 'T' and ret:
            for b, P in zip(pre['b'], pre['p']):
                if all(b is not c for c in post['b']):
                    trimmed |= set(ids.get(x) for x in P)
        f = direct(pre, post, op, arg, ret, exc, nmin, construction, trimmed, ids)
        print(op, arg, '->', ret, exc, 'records', len(post['b']), len(post['p']), len(post['v']), len(post['blk']), f)
        bad += len(f)
    return 1 if bad else 0
