"""C10 -- see shellfam.py (shared traced-run machinery) and coq/P_C10.v (theorems)."""
import shellfam
from common import Run

N_QUICK = 16
N_THOROUGH = 120
EXTRAS = {}
FORCES = [dict(step_mode='mixed'), dict(step_mode='mixed', n_batch=7, n_shell=20), dict(step_mode='mixed', n_batch=1), dict(step_mode='mixed', resumes=2),
          dict(step_mode='mixed', family='periodic', periodic=[0]), dict(step_mode='mixed', n_batch=50, n_shell=60)]


def main(run: Run, audit):
    n = N_QUICK if run.tier == 'quick' else N_THOROUGH
    shellfam.run_family(run, 'C10', n, forces=FORCES, extras=EXTRAS)


def replay(path):
    return shellfam.replay_config(path, 'C10')
