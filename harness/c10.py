"""C10 -- see shellfam.py (shared traced-run machinery) and coq/P_C10.v (theorems)."""
import shellfam
from common import Run

N_QUICK = 16
N_THOROUGH = 120
EXTRAS = {}
FORCES = [dict(step_mode='mixed'), dict(step_mode='mixed', n_batch=7, n_shell=20), dict(step_mode='mixed', n_batch=1), dict(step_mode='mixed', resumes=2),
          dict(step_mode='mixed', family='periodic', periodic=[0]), dict(step_mode='mixed', n_batch=50, n_shell=60),
          # sure to reach the sampling phase with shells far below n_shell (a top-up needs several batches; with the
          # exploration discarded every shell starts from zero)
          dict(step_mode='mixed', family='gauss', n_dim=2, n_live=30, n_networks=0, n_batch=7, n_shell=40, n_eff=100, discard_at_end=True, vectorized=False, pool_l=None, pool_s=None),
          dict(step_mode='mixed', family='twomode', n_dim=2, n_live=40, n_networks=0, n_batch=20, n_shell=50, n_eff=100, discard_at_end=False, resumes=1),
          # targets already met when exploration ends: the call in which it ends must return True
          dict(step_mode='mixed', family='gauss', n_dim=2, n_live=30, n_networks=0, n_batch=7, n_shell=1, n_eff=1, discard_at_end=False, toggles=0, f_live=0.01),
          dict(family='twomode', n_dim=2, n_live=40, n_networks=0, n_batch=10, n_shell=1, n_eff=2, discard_at_end=False, toggles=0, f_live=0.3)]


def main(run: Run, audit):
    n = N_QUICK if run.tier == 'quick' else N_THOROUGH
    shellfam.run_family(run, 'C10', n, forces=FORCES, extras=EXTRAS)


def replay(path):
    return shellfam.replay_config(path, 'C10')
