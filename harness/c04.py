"""C04 -- evidence and posterior are statistically correct on problems with known answers (partial, see P_C04.v).

The theorems reduce unbiasedness to C01 (partition), C02 (estimator identity) and C08 (uniform proposals, calibrated
volumes); their checks carry the proof-side tie.  This check adds the end-to-end statistical support the property asks
for: ensembles of independent seeds on problems with closed-form evidence, with thresholds that keep the false-alarm
probability per test below 1e-6 (|t| > 6.5 with the empirical standard error of >= 32 runs, plus a small absolute
allowance) -- and it is the search for a concrete failing ensemble when C01/C02/C08 break."""
import math
import os
import sys
import warnings
from multiprocessing import Pool

import numpy as np

from common import Run, use_repo
import trace as T

T_THRESH = 6.5


def phi(x):
    return 0.5 * (1 + math.erf(x / math.sqrt(2)))


def g1(c, w):
    """integral of exp(-(x-c)^2/(2 w^2)) over [0,1]"""
    return w * math.sqrt(2 * math.pi) * (phi((1 - c) / w) - phi(-c / w))


def truth(problem, d):
    if problem == 'gauss':
        return d * math.log(g1(0.5, 0.08)), [0.5] * d
    if problem == 'twomode':
        return math.log(g1(0.3, 0.05) ** d + g1(0.7, 0.05) ** d), [0.5] * d
    if problem == 'halfspace':
        ramp = ((0.6 + 1e-3) ** 2 - (1e-3) ** 2) / 2
        m0 = ((0.6 + 1e-3) ** 3 / 3 - (1e-3) ** 3 / 3) / ramp + 0.4 - 1e-3
        return math.log(ramp) + (d - 1) * math.log(g1(0.5, 0.1)), [m0] + [0.5] * (d - 1)
    if problem == 'gaussflat':
        return math.log(g1(0.5, 0.05)), [0.5] * d
    if problem == 'periodic':
        s = 0.05
        return math.log(2 * s * math.sqrt(2 * math.pi) * (phi(0.5 / s) - 0.5)) + (d - 1) * math.log(g1(0.5, 0.1)), [None] + [0.5] * (d - 1)
    raise ValueError(problem)


def one_run(job):
    problem, d, seed, opts = job
    nautilus = use_repo()
    warnings.filterwarnings('ignore')
    cfg = dict(family=problem, n_dim=d, blob='none')
    prob = T.Problem(cfg)
    kw = dict(n_live=opts.get('n_live', 400), n_networks=opts.get('n_networks', 0), seed=seed,
              neural_network_kwargs=dict(hidden_layer_sizes=(20, 10), max_iter=300))
    if problem == 'periodic':
        kw['periodic'] = np.array([0])
    if opts.get('pool_s'):
        kw['pool'] = (None, T.FakePool(opts['pool_s'], seed, pickle_func=True))
    s = nautilus.Sampler(prob.prior_fn, prob.like_scalar, n_dim=d, **kw)
    with np.errstate(all='ignore'):
        s.run(n_eff=opts.get('n_eff', 2000), n_shell=opts.get('n_shell', 1), discard_exploration=opts.get('discard', True))
        pts, lw, ll = s.posterior()
        w = np.exp(lw)
        return dict(seed=seed, log_z=float(s.log_z), n_eff=float(s.n_eff), vsum=float(np.sum(np.exp(s.shell_log_v))), mean=[float(x) for x in np.sum(pts * w[:, None], axis=0)],
                    n_like=int(s.n_like), n_shells=len(s.bounds))


def main(run: Run, audit):
    K = 32 if run.tier == 'quick' else 96
    base = run.seed % 100000 * 1000
    if run.tier == 'quick':
        problems = [('gauss', 2, dict(n_shell=200)), ('halfspace', 2, dict()), ('gauss', 2, dict(discard=False, n_shell=100)), ('gaussflat', 2, dict(n_live=100))]
    else:
        problems = [('gauss', 2, dict(n_shell=200)), ('gauss', 4, dict(n_live=500)), ('twomode', 2, dict(n_live=600, n_shell=100)), ('halfspace', 3, dict()), ('periodic', 2, dict()),
                    ('gauss', 2, dict(discard=False, n_shell=100)), ('gauss', 2, dict(n_networks=1, n_live=300)), ('gauss', 3, dict(pool_s=3)), ('gaussflat', 2, dict(n_live=100)), ('gaussflat', 3, dict(n_live=200))]
    jobs = [(p, d, base + 100 * pi + k, o) for pi, (p, d, o) in enumerate(problems) for k in range(K)]
    with Pool(16) as pool:
        res = pool.map(one_run, jobs, chunksize=2)
    fails = []
    summary = []
    for pi, (p, d, o) in enumerate(problems):
        rs = res[pi * K:(pi + 1) * K]
        lz = np.array([r['log_z'] for r in rs])
        tz, tm = truth(p, d)
        se = np.std(lz, ddof=1) / math.sqrt(K)
        bias = float(np.mean(lz) - tz)
        allow = 0.003 + (0.02 if o.get('discard') is False else 0.0)
        lab = '%s-%dd %s' % (p, d, {k: v for k, v in o.items()})
        rep_err = float(np.mean([1 / math.sqrt(r['n_eff']) for r in rs]))
        vs = np.array([r['vsum'] for r in rs])
        se_v = np.std(vs, ddof=1) / math.sqrt(K)
        summary.append(dict(problem=lab, truth_log_z=tz, mean_log_z=float(np.mean(lz)), bias=bias, se=float(se), scatter=float(np.std(lz, ddof=1)), reported_error=rep_err,
                            volume_sum=float(np.mean(vs)), se_volume=float(se_v), seeds=[rs[0]['seed'], rs[-1]['seed']]))
        if abs(bias) > T_THRESH * se + allow:
            fails.append((lab, 'log Z is biased: mean over %d seeds %.5f, analytic value %.5f, offset %+.5f = %.1f standard errors' % (K, np.mean(lz), tz, bias, abs(bias) / se), rs))
        if np.std(lz, ddof=1) > 2.0 * rep_err:
            fails.append((lab, 'scatter of log Z over seeds %.4f exceeds twice the error the sampler reports (1/sqrt(n_eff) = %.4f)' % (np.std(lz, ddof=1), rep_err), rs))
        if abs(np.mean(vs) - 1) > T_THRESH * se_v + 0.004:
            fails.append((lab, 'shell volumes add up to %.5f on average instead of one (%.1f standard errors)' % (np.mean(vs), abs(np.mean(vs) - 1) / se_v), rs))
        ms = np.array([r['mean'] for r in rs])
        for j, want in enumerate(tm):
            if want is None:
                continue
            sej = np.std(ms[:, j], ddof=1) / math.sqrt(K)
            if abs(np.mean(ms[:, j]) - want) > T_THRESH * sej + 0.002:
                fails.append((lab, 'posterior mean of coordinate %d is %.5f, analytic %.5f (%.1f standard errors)' % (j, np.mean(ms[:, j]), want, abs(np.mean(ms[:, j]) - want) / sej), rs))
    run.cov.update(evaluations=len(jobs), distinct_nontrivial=len(jobs),
                   rule='independent seeds x problems with closed-form evidence (Gaussian, two modes, half-space zero-likelihood plateau with log ramp, periodic wrap peak; '
                        'with/without discarding exploration, networks, sampler pool); every run is one evaluation; tests: pooled bias of log Z, scatter against the reported error, '
                        'sum of shell volumes, posterior means; threshold |t| > %.1f on the empirical standard error plus a small absolute allowance' % T_THRESH,
                   seeds_per_problem=K, problems=summary, statistical_tests=4 * len(problems), direct_predicate_failures=len(fails),
                   explanation='statistical support for a partially proved property: the theorems of P_C04.v reduce unbiasedness to C01, C02 and C08',
                   samples=[summary[0]])
    if fails:
        lab, what, rs = fails[0]
        run.violation('C04 statistical predicate fails on the implementation (%s): %s' % (lab, what),
                      dict(kind='direct', problem=lab, what=what, ensemble=[dict(seed=r['seed'], log_z=r['log_z'], n_eff=r['n_eff'], volume_sum=r['vsum']) for r in rs], n_failures=len(fails)), True,
                      key='C04:' + what[:25])


def replay(path):
    import json
    r = json.load(open(path))
    print(json.dumps({k: v for k, v in r.items() if k != 'ensemble'}, indent=1)[:1500])
    print('ensemble of', len(r.get('ensemble', [])), 'seeds; re-run the check with the same VERIF_SEED to reproduce')
    return 0
