"""C14 -- the equal-weight posterior is an unbiased, order-preserving resampling.

Tie: the sampler's generator is replaced by a recording proxy; posterior(equal_weight=True, equal_weight_boost=b) is
called on the final states of real runs; the recorded uniforms and the relative weights (exact dyadics) are fed to the
Gallina model `multiplicities` evaluated inside Coq, whose output must equal the multiplicities observed in the
returned rows (don't-care when |u - frac r| < 1e-12).  Direct predicates on the implementation: rows are the source rows
in order with likelihoods and blobs attached, weights equal and normalised, no repeats for boost <= 1, the weighted
posterior and every statistic unchanged, exactly one uniform per weighted sample consumed.
Search (statistical, support only): over many redraws the number of extra copies of every sample is tested against
Binomial(K, frac r) exactly (two-sided p < 1e-10 per sample)."""
import math
import os
import re
import sys
import warnings
from concurrent.futures import ThreadPoolExecutor
from multiprocessing import Pool

import numpy as np

from common import Run, use_repo, coq_eval
import trace as T

BOOSTS = [0.1, 0.5, 1.0, 1.5, 3.0, 10.0]      # below one, one, above one


class RecordingRng:
    def __init__(self, real):
        self._r = real
        self.log = []

    def random(self, *a, **k):
        out = self._r.random(*a, **k)
        self.log.append(('random', np.array(out)))
        return out

    def __getattr__(self, n):
        def wrapped(*a, **k):
            self.log.append((n, None))
            return getattr(self._r, n)(*a, **k)
        attr = getattr(self._r, n)
        return wrapped if callable(attr) else attr


def dyadic(x):
    if x == 0:
        return 0, 0
    m, e = math.frexp(float(x))
    m = int(m * 2 ** 53)
    e -= 53
    while m % 2 == 0:
        m //= 2
        e += 1
    return m, e


def qlit(x):
    m, e = dyadic(x)
    if e >= 0:
        return '(%d # 1)' % (m << e)
    return '(%d # %d)' % (m, 1 << (-e))


def run_config(job):
    cfg, seed = job
    nautilus = use_repo()
    warnings.filterwarnings('ignore')
    prob = T.Problem(cfg)
    kw = dict(n_live=cfg['n_live'], n_batch=cfg['n_batch'], n_networks=0, seed=cfg['seed'], n_update=cfg.get('n_update'))
    tmpd = None
    if cfg.get('with_file'):
        # a checkpointed sampler: repeated equal-weight calls must still draw fresh random numbers
        import tempfile
        tmpd = tempfile.mkdtemp(prefix='nvc14_')
        kw['filepath'] = os.path.join(tmpd, 'ck.hdf5')
    s = nautilus.Sampler(prob.prior_fn, prob.like_scalar, n_dim=cfg['n_dim'], **kw)
    with np.errstate(all='ignore'):
        s.run(n_eff=cfg['n_eff'], n_shell=cfg['n_shell'], discard_exploration=cfg.get('discard_at_end', False))
    has_blobs = s.blobs is not None
    fails = []
    cases = []
    stats = dict(rows=0, zero_weight=0, boosts=0, dont_care=0, redraws=0)
    with np.errstate(all='ignore'):
        base = s.posterior(return_blobs=has_blobs)
    P0, LW0, LL0 = base[0], base[1], base[2]
    B0 = base[3] if has_blobs else None
    n0 = len(LW0)
    stat0 = (float(s.log_z).hex(), float(s.n_eff).hex(), int(s.n_like))
    stats['rows'] = n0
    stats['zero_weight'] = int(np.sum(np.isneginf(LW0)))
    real_rng = s.rng
    rs = np.exp(LW0 - np.max(LW0))
    keyof = {}
    for i, p in enumerate(P0):
        keyof.setdefault(np.ascontiguousarray(p).tobytes(), []).append(i)
    if any(len(v) > 1 for v in keyof.values()):
        fails.append('the weighted posterior already contains a point twice')
    for b in BOOSTS:
        proxy = RecordingRng(real_rng)
        s.rng = proxy
        try:
            with np.errstate(all='ignore'):
                res = s.posterior(equal_weight=True, equal_weight_boost=b, return_blobs=has_blobs)
        except Exception as e:     # noqa
            fails.append('posterior(equal_weight=True, boost=%g) raised %s: %s' % (b, type(e).__name__, str(e)[:100]))
            s.rng = real_rng
            continue
        finally:
            s.rng = real_rng
        stats['boosts'] += 1
        P, LW, LL = res[0], res[1], res[2]
        Bb = res[3] if has_blobs else None
        draws = [x for x in proxy.log if x[0] == 'random']
        other = [x[0] for x in proxy.log if x[0] != 'random']
        if len(draws) != 1 or draws[0][1].shape != (n0,) or other:
            fails.append('boost=%g: the generator was used in an unexpected way: %d random() calls, other calls %s' % (b, len(draws), other[:3]))
            continue
        u = draws[0][1]
        # observed multiplicities: rows must be the source rows in order
        m = np.zeros(n0, dtype=int)
        j = 0
        ok = True
        for i in range(n0):
            k = np.ascontiguousarray(P0[i]).tobytes()
            while j < len(P) and np.ascontiguousarray(P[j]).tobytes() == k:
                if LL[j] != LL0[i] and not (np.isnan(LL[j]) and np.isnan(LL0[i])):
                    fails.append('boost=%g: a repeated row carries a different log-likelihood than its source row' % b)
                    ok = False
                if has_blobs and np.asarray(Bb[j]).tobytes() != np.asarray(B0[i]).tobytes():
                    fails.append('boost=%g: a repeated row carries a different blob than its source row' % b)
                    ok = False
                m[i] += 1
                j += 1
        if j != len(P):
            fails.append('boost=%g: the equal-weight rows are not the weighted rows repeated in their original order (%d of %d rows matched)' % (b, j, len(P)))
            continue
        if not ok:
            continue
        r = rs * b
        fl = np.floor(r)
        if np.any((m != fl) & (m != fl + 1)):
            i = int(np.flatnonzero((m != fl) & (m != fl + 1))[0])
            fails.append('boost=%g: sample %d with relative weight x boost r=%r is repeated %d times (neither floor r nor floor r + 1)' % (b, i, float(r[i]), int(m[i])))
        if b <= 1 and np.any(m > 1):
            fails.append('boost=%g <= 1 but a sample is repeated %d times' % (b, int(m.max())))
        n_out = len(P)
        if n_out > 0:
            if not np.allclose(LW, -math.log(n_out), rtol=0, atol=1e-12):
                fails.append('boost=%g: returned weights are not all equal to 1/N (N=%d): min %r max %r' % (b, n_out, float(np.min(LW)), float(np.max(LW))))
            if abs(np.sum(np.exp(LW)) - 1) > 1e-9:
                fails.append('boost=%g: returned weights sum to %r' % (b, float(np.sum(np.exp(LW)))))
        dc = np.abs(u - (r - fl)) < 1e-12
        stats['dont_care'] += int(dc.sum())
        cases.append(dict(boost=b, r=[float(x) for x in r], u=[float(x) for x in u], m=[int(x) for x in m], dc=[bool(x) for x in dc]))
        # purity: the weighted posterior and the statistics are unchanged
        with np.errstate(all='ignore'):
            again = s.posterior(return_blobs=has_blobs)
        if not (np.array_equal(again[0], P0) and np.array_equal(again[1], LW0, equal_nan=True) and np.array_equal(again[2], LL0, equal_nan=True)):
            fails.append('boost=%g: the weighted posterior changed after an equal-weight call' % b)
        if (float(s.log_z).hex(), float(s.n_eff).hex(), int(s.n_like)) != stat0:
            fails.append('boost=%g: log_z / n_eff / n_like changed after an equal-weight call' % b)
    # statistical support: mean multiplicity over many redraws
    K = cfg.get('redraws', 150)
    for b in (0.5, 3.0):
        acc = np.zeros(n0)
        for _ in range(K):
            with np.errstate(all='ignore'):
                Pq = s.posterior(equal_weight=True, equal_weight_boost=b)[0]
            cnt = {}
            for row in Pq:
                kk = np.ascontiguousarray(row).tobytes()
                cnt[kk] = cnt.get(kk, 0) + 1
            acc += np.array([cnt.get(np.ascontiguousarray(p).tobytes(), 0) for p in P0])
        stats['redraws'] += K
        r = rs * b
        fl = np.floor(r)
        fr = r - fl
        # exact binomial test per sample: the number of extra copies over K redraws is Binomial(K, frac r)
        from scipy.stats import binom
        extra = np.rint(acc - K * fl)
        if np.any((extra < 0) | (extra > K)):
            i = int(np.flatnonzero((extra < 0) | (extra > K))[0])
            fails.append('boost=%g: over %d redraws sample %d (r=%.6f) was repeated %d times in total: outside [K floor r, K (floor r + 1)]' % (b, K, i, r[i], int(acc[i])))
        else:
            lo = binom.cdf(extra, K, fr)
            hi = binom.sf(extra - 1, K, fr)
            pval = np.minimum(1.0, 2 * np.minimum(lo, hi))
            bad = pval < 1e-10
            if np.any(bad):
                i = int(np.flatnonzero(bad)[0])
                fails.append('boost=%g: over %d redraws sample %d got %d extra copies, expected Binomial(%d, %.6f) (two-sided p=%.2g)' % (b, K, i, int(extra[i]), K, fr[i], pval[i]))
    if tmpd:
        import shutil
        shutil.rmtree(tmpd, ignore_errors=True)
    return dict(cfg=cfg, fails=fails, cases=cases, stats=stats)


def coq_cases(cases):
    """one Coq file: model multiplicities against the observed ones"""
    defs = []
    for ci, c in enumerate(cases):
        rows = []
        for r, u, m, dc in zip(c['r'], c['u'], c['m'], c['dc']):
            rows.append('(%s, %s, %d%%nat, %s)' % (qlit(r), qlit(u), m, 'true' if dc else 'false'))
        defs.append('Definition c%d : list (Q * Q * nat * bool) := [%s].' % (ci, '; '.join(rows)))
    body = '''From Coq Require Import List ZArith QArith Qround Bool. Import ListNotations.
Require Import NV.EqualWeight.
Open Scope Q_scope.
%s
Definition bad (l : list (Q * Q * nat * bool)) : list nat :=
  map fst (filter (fun it => let '(r, u, m, dc) := snd it in negb dc && negb (Nat.eqb (Z.to_nat (repeats r u)) m)) (combine (seq 0 (length l)) l)).
Eval vm_compute in [%s].
''' % ('\n'.join(defs), '; '.join('(length c%d, bad c%d)' % (i, i) for i in range(len(cases))))
    return body


def configs(tier, seed):
    base = dict(n_dim=2, n_live=60, n_batch=20, n_update=20, seed=3 + seed % 1000, n_shell=5, n_eff=300, blob='none', family='gauss')
    cs = [dict(base, with_file=True), dict(base, family='halfspace', n_dim=3, blob='float', discard_at_end=True), dict(base, family='twomode', blob='two', n_eff=500, with_file=True),
          dict(base, discard_at_end=True, seed=base['seed'] + 1), dict(base, discard_at_end=True, seed=base['seed'] + 2, family='twomode'),
          dict(base, discard_at_end=True, seed=base['seed'] + 3, n_live=100, blob='float'), dict(base, discard_at_end=True, seed=base['seed'] + 4, family='funnel', n_dim=3)]
    if tier == 'thorough':
        cs += [dict(base, family='plateau', blob='int'), dict(base, family='funnel', n_dim=3, blob='vec3', n_live=100), dict(base, family='periodic', n_dim=2, n_eff=1000, redraws=400),
               dict(base, n_live=30, n_batch=7, n_update=5, discard_at_end=True, blob='vec1')]
    return cs


def main(run: Run, audit):
    cfgs = configs(run.tier, run.seed)
    with Pool(min(16, len(cfgs))) as pool:
        outs = pool.map(run_config, [(c, run.seed) for c in cfgs], chunksize=1)
    fails = [(o['cfg'], f) for o in outs for f in o['fails']]
    allcases = [(o['cfg'], c) for o in outs for c in o['cases']]
    shards = [allcases[i::8] for i in range(8)]

    def ev(sh):
        if not sh:
            return []
        rc, out = coq_eval(coq_cases([c for _, c in sh]), 'cases_C14', timeout=900)
        if rc != 0:
            return [('coq', out[-500:])]
        res = []
        for m in re.finditer(r'\(\s*(\d+)\s*,\s*(\[[^\]]*\]|nil)\s*\)', out.replace('\n', ' ').replace('%nat', '')):
            res.append((int(m.group(1)), [int(x) for x in re.findall(r'\d+', m.group(2))]))
        return res
    with ThreadPoolExecutor(8) as ex:
        res = list(ex.map(ev, shards))
    mism, broken, n_cmp = [], [], 0
    for sh, rr in zip(shards, res):
        if rr and rr[0][0] == 'coq':
            broken.append(rr[0][1])
            continue
        if len(rr) != len(sh):
            broken.append('Coq returned %d verdicts for %d cases' % (len(rr), len(sh)))
            continue
        for (cfg, c), (n, bad) in zip(sh, rr):
            n_cmp += n
            for i in bad:
                mism.append((cfg, c['boost'], i, c['r'][i], c['u'][i], c['m'][i]))
    tot = {}
    for o in outs:
        for k, v in o['stats'].items():
            tot[k] = tot.get(k, 0) + v
    run.cov.update(evaluations=n_cmp + tot.get('redraws', 0), distinct_nontrivial=n_cmp,
                   rule='final states of real runs (families with zero-weight samples, blobs, discarded exploration) x boost in %s: every weighted sample is one case '
                        '(relative weight r, recorded uniform u, observed multiplicity) evaluated by the Gallina model inside Coq; plus redraw ensembles for the expectation' % BOOSTS,
                   weighted_rows=tot.get('rows'), zero_weight_rows=tot.get('zero_weight'), boost_calls=tot.get('boosts'), dont_care=tot.get('dont_care'), redraws=tot.get('redraws'),
                   disagreements_checked=len(mism), direct_predicate_failures=len(fails),
                   samples=[dict(boost=allcases[0][1]['boost'], r=allcases[0][1]['r'][:4], u=allcases[0][1]['u'][:4], multiplicity=allcases[0][1]['m'][:4])] if allcases else [])
    if fails:
        cfg, what = fails[0]
        run.violation('C14 direct predicate fails on the implementation: ' + what, dict(kind='direct', config=cfg, what=what, n_failures=len(fails)), True, key='C14:' + what[:30])
    elif mism:
        cfg, b, i, r, u, m = mism[0]
        run.violation('C14: observed multiplicity %d of a sample with r=%r and draw u=%r differs from the model (floor r + [u < frac r])' % (m, r, u),
                      dict(kind='direct', config=cfg, boost=b, sample=i, r=r, u=u, observed=m, n_failures=len(mism)), True, key='C14:multiplicity')
    elif broken:
        run.violation('in-Coq evaluation of the C14 cases failed: ' + broken[0], dict(kind='correspondence', broken='cases_C14.v', log=broken[0]), False)


def replay(path):
    import json
    r = json.load(open(path))
    print(json.dumps(r, indent=1)[:1500])
    if 'config' in r:
        o = run_config((r['config'], 0))
        print(o['fails'][:5])
        return 1 if o['fails'] else 0
    return 0
