"""C08 -- proposals are uniform over the bound and reported volumes are calibrated (partial, see DESIGN.md).

Tie: Union.sample and NautilusBound.sample are replayed from recorded generator draws: the multinomial probabilities
must be the normalised member volumes, the shuffled array a permutation of the in-cube proposals, and -- evaluated by
the Gallina bookkeeping model (UnionSample.v) inside Coq from the recorded multiplicities and uniforms -- the accepted
points, the FIFO cache, the returned points and both counters must equal the implementation's.
Search (statistical, false-alarm level < 1e-9 per check): occupancy of overlap regions against rejection sampling
through contains(); exp(log_v) against the fraction of uniform cube points the bound contains (6.1 sigma); the
closed-form ellipsoid volume against |det B| x unit-ball volume and det(A^-1) = det(B)^2."""
import math
import os
import re
import sys
import warnings
from concurrent.futures import ThreadPoolExecutor
from multiprocessing import Pool

import numpy as np

from common import Run, use_repo, coq_eval
import trace as T

Z = 6.1     # two-sided normal tail 1e-9



class RecPool:
    """wraps the pool handed to NautilusBound.sample and keeps what the workers returned"""

    def __init__(self, inner):
        self.inner = inner
        self.results = []

    @property
    def size(self):
        return self.inner.size

    def map(self, func, iterable):
        res = list(self.inner.map(func, iterable))
        self.results.append(res)
        return res


def counters_of(b):
    return (int(b.n_sample), int(b.n_reject), int(b.outer_bound.n_sample), int(b.outer_bound.n_reject), len(b.points))


def merge_check(b, p, c0, lab, fails, st):
    """pool path (C08_merge): the parent's counters of both levels advance by exactly the sums of the workers' counters and its
    buffer by exactly the workers' points"""
    if p is None or not p.results:
        return
    workers = p.results.pop()
    p.results.clear()
    want = (c0[0] + sum(int(w.n_sample) for w in workers), c0[1] + sum(int(w.n_reject) for w in workers),
            c0[2] + sum(int(w.outer_bound.n_sample) for w in workers), c0[3] + sum(int(w.outer_bound.n_reject) for w in workers))
    got = counters_of(b)
    st['merges'] = st.get('merges', 0) + 1
    names = ('n_sample', 'n_reject', 'outer_bound.n_sample', 'outer_bound.n_reject')
    for k in range(4):
        if got[k] != want[k]:
            fails.append('%s: after sampling through a pool %s is %d, the counters before plus the workers\' counters give %d' % (lab, names[k], got[k], want[k]))
            return

def qlit(x):
    x = float(x)
    if x == 0:
        return '(0 # 1)'
    m, e = math.frexp(x)
    m = int(m * 2 ** 53)
    e -= 53
    while m % 2 == 0:
        m //= 2
        e += 1
    return '(%d # 1)' % (m << e) if e >= 0 else '(%d # %d)' % (m, 1 << (-e))


class RecRng:
    def __init__(self, real):
        self._r = real
        self.log = []

    def multinomial(self, n, p, *a, **k):
        out = self._r.multinomial(n, p, *a, **k)
        self.log.append(('multinomial', n, np.array(p), np.array(out)))
        return out

    def shuffle(self, x, *a, **k):
        before = np.array(x)
        self._r.shuffle(x, *a, **k)
        self.log.append(('shuffle', before, np.array(x)))

    def random(self, *a, **k):
        out = self._r.random(*a, **k)
        self.log.append(('random', np.array(out)))
        return out

    def __getattr__(self, n):
        return getattr(self._r, n)


class Ids:
    def __init__(self):
        self.d = {}

    def get(self, row):
        k = np.ascontiguousarray(row, dtype=float).tobytes()
        return self.d.setdefault(k, len(self.d) + 1)


def make_union(nb, rng, d, kind, unit, cls):
    B = nb.bounds
    r = rng
    if kind == 'overlap':
        pts = np.vstack([r.normal(0.42, 0.06, (120, d)), r.normal(0.58, 0.06, (120, d))])
    elif kind == 'three':
        pts = np.vstack([r.normal(0.3, 0.05, (90, d)), r.normal(0.5, 0.05, (90, d)), r.normal(0.7, 0.05, (90, d))])
    elif kind == 'face':
        pts = np.vstack([r.normal(0.05, 0.06, (120, d)), r.normal(0.5, 0.08, (120, d))])
    else:
        pts = np.vstack([r.normal(0.35, 0.05, (120, d)), r.normal(0.65, 0.05, (120, d)), r.normal(0.5, 0.28, (d + 8, d))])
    pts = np.abs(pts)                       # reflect into the cube (clipping would create degenerate, coplanar points)
    pts = 1 - np.abs(1 - pts)
    pts = np.clip(pts, 0.0, np.nextafter(1.0, 0))
    with np.errstate(all='ignore'):
        u = B.Union.compute(pts, unit=unit, bound_class=cls, n_points_min=d + 5, rng=np.random.default_rng(int(r.integers(1 << 30))))
        _ = u.log_v
        for _k in range(3):
            if not u.split():
                break
            _ = u.log_v
        trims = 0
        if kind == 'outliers':
            for thr in (1e3, 30.0, 3.0):
                while u.trim(threshold=thr):
                    trims += 1
                if trims:
                    break
    return u, pts, trims


def replay_union(nb, u, calls, label):
    """record one Union through several sample() calls; returns (case dict for Coq, python-level failures)"""
    fails = []
    ids = Ids()
    real = u.rng
    proxy = RecRng(real)
    u.rng = proxy
    logs = []
    orig_bounds = list(u.bounds)
    u.bounds = [T.BoundProxy(b, logs) for b in orig_bounds]
    state0 = (list(ids.get(p) for p in u.points), int(u.n_sample), int(u.n_reject))
    sequence = []
    try:
        for n in calls:
            proxy.log.clear()
            del logs[:]
            with np.errstate(all='ignore'):
                out = u.sample(n)
            ev = list(proxy.log)
            nb_batches = sum(1 for e in ev if e[0] == 'multinomial')
            per = len(orig_bounds)
            batches = []
            for bi in range(nb_batches):
                mult_ev = [e for e in ev if e[0] == 'multinomial'][bi]
                shuf_ev = [e for e in ev if e[0] == 'shuffle'][bi]
                rand_ev = [e for e in ev if e[0] == 'random'][bi]
                p = mult_ev[2]
                want = np.exp(np.asarray(u.log_v_all) - np.logaddexp.reduce(np.asarray(u.log_v_all)))
                if mult_ev[1] != 1000 or not np.allclose(p, want, rtol=1e-12, atol=0):
                    fails.append('%s: members are not chosen in proportion to their volumes (multinomial p=%s, normalised volumes %s)' % (label, p[:4], want[:4]))
                props = logs[bi * per:(bi + 1) * per]
                if [len(x) for x in props] != [int(x) for x in mult_ev[3]]:
                    fails.append('%s: members were asked for %s proposals, the multinomial draw was %s' % (label, [len(x) for x in props], list(mult_ev[3])))
                allp = np.vstack(props) if props else np.zeros((0, u.n_dim))
                inc = allp[u.cube.contains(allp)] if u.cube is not None else allp
                before, after = shuf_ev[1], shuf_ev[2]
                if not np.array_equal(before, inc):
                    fails.append('%s: the array handed to shuffle is not the in-cube proposals' % label)
                if sorted(map(bytes, (np.ascontiguousarray(r).tobytes() for r in after))) != sorted(map(bytes, (np.ascontiguousarray(r).tobytes() for r in inc))):
                    fails.append('%s: shuffle is not a permutation of the in-cube proposals' % label)
                m = np.sum([b.contains(after) for b in orig_bounds], axis=0) if len(after) else np.zeros(0, int)
                uu = rand_ev[1]
                if len(uu) != len(after):
                    fails.append('%s: %d uniforms for %d proposals' % (label, len(uu), len(after)))
                    continue
                batches.append((1000, [(ids.get(r), int(mm), float(x)) for r, mm, x in zip(after, m, uu)]))
            sequence.append(dict(n=n, batches=batches, out=[ids.get(r) for r in out], cache=[ids.get(r) for r in u.points],
                                 n_sample=int(u.n_sample), n_reject=int(u.n_reject)))
    finally:
        u.rng = real
        u.bounds = orig_bounds
    return dict(label=label, s0=state0, seq=sequence), fails


def replay_nautilus(nb, b, calls, label):
    fails = []
    ids = Ids()
    logs = []
    real_outer = b.outer_bound
    b.outer_bound = T.BoundProxy(real_outer, logs)
    state0 = ([ids.get(p) for p in b.points], int(b.n_sample), int(b.n_reject))
    sequence = []
    try:
        for n in calls:
            del logs[:]
            with np.errstate(all='ignore'):
                out = b.sample(n)
                if b.shift is not None:
                    out = b.shift.transform(out)
            batches = []
            for props in logs:
                with np.errstate(all='ignore'):
                    keep = np.any([nn.contains(props) for nn in b.neural_bounds], axis=0)
                if len(props) != 1000:
                    fails.append('%s: the outer bound was asked for %d points, not 1000' % (label, len(props)))
                batches.append((1000, [(ids.get(r), 1 if k else 0, 1.0) for r, k in zip(props, keep)]))
            # cache and outputs live in the shifted frame; map outputs back for comparison by id
            sequence.append(dict(n=n, batches=batches, out=[ids.get(r) for r in out] if b.shift is None else None,
                                 cache=[ids.get(r) for r in b.points], n_sample=int(b.n_sample), n_reject=int(b.n_reject)))
    finally:
        b.outer_bound = real_outer
    return dict(label=label, s0=state0, seq=sequence), fails


def coq_case(i, case):
    def pl(l):
        return '[' + '; '.join('%d%%positive' % x for x in l) + ']'
    lines = ['Definition s%d_0 := mkSS %s %d %d.' % (i, pl(case['s0'][0]), case['s0'][1], case['s0'][2])]
    checks = []
    for k, st in enumerate(case['seq']):
        bt = '[' + '; '.join('(%d%%nat, [%s])' % (n, '; '.join('mkProp %d%%positive %d %s' % (pid, m, qlit(x)) for pid, m, x in props)) for n, props in st['batches']) + ']'
        lines.append('Definition r%d_%d := sample %d %s s%d_%d.' % (i, k, st['n'], bt, i, k))
        lines.append('Definition s%d_%d := match r%d_%d with Some (_, s) => s | None => s%d_%d end.' % (i, k + 1, i, k, i, k))
        exp_out = 'true' if st['out'] is None else 'pl_eqb o %s' % pl(st['out'])
        checks.append('match r%d_%d with Some (o, s) => %s && pl_eqb (s_cache s) %s && Nat.eqb (s_nsample s) %d && Nat.eqb (s_nreject s) %d | None => false end' % (
            i, k, exp_out, pl(st['cache']), st['n_sample'], st['n_reject']))
    lines.append('Definition chk%d := [%s].' % (i, '; '.join(checks)))
    return '\n'.join(lines)


PRELUDE = '''From Coq Require Import List PArith QArith Bool Arith. Import ListNotations.
Require Import NV.UnionSample.
Fixpoint pl_eqb (a b : list positive) : bool := match a, b with [], [] => true | x :: a', y :: b' => Pos.eqb x y && pl_eqb a' b' | _, _ => false end.
'''


def statistical(nb, seed, tier):
    """returns failures and counters"""
    B = nb.bounds
    from nautilus.bounds.basic import UnitCubeEllipsoidMixture
    rng = np.random.default_rng(seed)
    fails = []
    st = dict(draws=0, ref=0, tests=0)
    N = 100000 if tier == 'quick' else 400000
    NREF = 300000 if tier == 'quick' else 1200000
    for d in ([2, 3] if tier == 'quick' else [2, 3, 4]):
        ref = rng.random((NREF, d))
        for kind in ('overlap', 'three', 'face', 'outliers'):
            for cls in (B.Ellipsoid, UnitCubeEllipsoidMixture):
                if tier == 'quick' and cls is UnitCubeEllipsoidMixture and kind in ('three',):
                    continue
                u, pts, trims = make_union(nb, rng, d, kind, True, cls)
                rt = ''
                if kind in ('overlap', 'outliers') and cls is B.Ellipsoid:
                    # "... or after a checkpoint round trip": continue with the object read back from an HDF5 group
                    import h5py
                    u.sample(137)
                    with h5py.File('c08rt_%d.h5' % os.getpid(), 'w', driver='core', backing_store=False) as f:
                        g = f.create_group('u')
                        u.write(g)
                        r2 = np.random.default_rng()
                        r2.bit_generator.state = u.rng.bit_generator.state
                        u = B.Union.read(g, rng=r2)
                    rt = ', after a checkpoint round trip'
                    st['round_trips'] = st.get('round_trips', 0) + 1
                lab = 'Union-%d-%s-%s (members %d, trims %d%s)' % (d, kind, cls.__name__[:3], len(u.bounds), trims, rt)
                with np.errstate(all='ignore'):
                    s = u.sample(N)
                    inside = u.contains(s)
                st['draws'] += N
                if not np.all(inside):
                    fails.append('%s: %d of %d proposals lie outside what contains() accepts' % (lab, int(np.sum(~inside)), N))
                    continue
                ms = np.sum([b.contains(s) for b in u.bounds], axis=0)
                cr = u.contains(ref)
                st['ref'] += NREF
                reg = ref[cr]
                mr = np.sum([b.contains(reg) for b in u.bounds], axis=0)
                # (a) occupancy of the overlap region
                k1, n1, k2, n2 = int(np.sum(ms >= 2)), len(s), int(np.sum(mr >= 2)), len(reg)
                if n2 > 1000 and k2 > 50 and k1 + k2 > 200:
                    p = (k1 + k2) / (n1 + n2)
                    se = math.sqrt(p * (1 - p) * (1 / n1 + 1 / n2))
                    st['tests'] += 1
                    if abs(k1 / n1 - k2 / n2) > Z * se:
                        fails.append('%s: %.4f of the proposals fall where ellipsoids overlap, %.4f of a uniform sample of the region does (%.1f sigma)' % (lab, k1 / n1, k2 / n2, abs(k1 / n1 - k2 / n2) / se))
                # (b) volume calibration
                with np.errstate(all='ignore'):
                    vhat = math.exp(u.log_v)
                    svol = math.exp(np.logaddexp.reduce(np.asarray(u.log_v_all)))
                a = 1 - u.n_reject / u.n_sample
                se_a = svol * math.sqrt(max(a * (1 - a), 1e-12) / u.n_sample)
                vref = len(reg) / NREF
                se_r = math.sqrt(max(vref * (1 - vref), 1e-12) / NREF)
                st['tests'] += 1
                if abs(vhat - vref) > Z * math.sqrt(se_a ** 2 + se_r ** 2) + 1e-12:
                    fails.append('%s: reported volume %.6g, measure of the region contains() accepts %.6g (%.1f sigma)' % (lab, vhat, vref, abs(vhat - vref) / math.sqrt(se_a ** 2 + se_r ** 2)))
        # nautilus bounds with and without networks, serial and pooled
        for nn in ([0, 1] if tier == 'quick' else [0, 1, 2]):
            for pool in (None, 3):
                if tier == 'quick' and pool and nn:
                    continue
                for centre in (0.5, 0.06):        # in the middle; in a corner (the outer union then rejects proposals outside the cube)
                    pts = rng.random((500, d))
                    ll = -np.sum((pts - centre) ** 2, axis=1) * 30
                    lmin = np.sort(ll)[-150]
                    with np.errstate(all='ignore'):
                        b = B.NautilusBound.compute(pts, ll, lmin, -1.0 * d, n_networks=nn, neural_network_kwargs=dict(hidden_layer_sizes=(12, 6), max_iter=150),
                                                    n_points_min=d + 10, split_threshold=1.0, rng=np.random.default_rng(int(rng.integers(1 << 30))))
                        p = RecPool(nb.pool.NautilusPool(T.FakePool(pool, 2, pickle_func=True))) if pool else None
                        c0 = counters_of(b)
                        s = b.sample(N // 4, pool=p)
                        merge_check(b, p, c0, 'NautilusBound-%d-n%d-pool' % (d, nn), fails, st)
                        while b.n_sample < 200000:
                            c0 = counters_of(b)
                            b.sample(20000, pool=p)
                            merge_check(b, p, c0, 'NautilusBound-%d-n%d-pool' % (d, nn), fails, st)
                        vhat = math.exp(b.log_v)
                        cr = b.contains(ref)
                    st['draws'] += N // 4
                    lab = 'NautilusBound-%d-n%d-%s-%s' % (d, nn, 'pool' if pool else 'serial', 'centre' if centre == 0.5 else 'corner')
                    vref = float(np.mean(cr))
                    a = 1 - b.n_reject / b.n_sample
                    ao = 1 - b.outer_bound.n_reject / max(1, b.outer_bound.n_sample)
                    rel = math.sqrt(max(a * (1 - a), 1e-12) / b.n_sample) / max(a, 1e-9) + math.sqrt(max(ao * (1 - ao), 1e-12) / max(1, b.outer_bound.n_sample)) / max(ao, 1e-9)
                    se = math.sqrt((vhat * rel) ** 2 + max(vref * (1 - vref), 1e-12) / NREF)
                    st['tests'] += 1
                    if abs(vhat - vref) > Z * se + 1e-12:
                        fails.append('%s: reported volume %.6g, measure of the region contains() accepts %.6g (%.1f sigma)' % (lab, vhat, vref, abs(vhat - vref) / se))
                    with np.errstate(all='ignore'):
                        if not np.all(b.contains(s)):
                            fails.append('%s: proposals outside contains()' % lab)
    # closed-form ellipsoid volume
    for d in range(1, 9):
        pts = np.clip(rng.normal(0.5, 0.04, (60 + 10 * d, d)), 0, 1)
        e = B.Ellipsoid.compute(pts, rng=np.random.default_rng(1))
        want = np.linalg.slogdet(e.B)[1] + (d / 2) * math.log(math.pi) - math.lgamma(d / 2 + 1)
        st['tests'] += 1
        if abs(e.log_v - want) > 1e-10:
            fails.append('Ellipsoid-%d: log_v=%r but log(|det B| pi^(d/2)/Gamma(d/2+1))=%r' % (d, float(e.log_v), float(want)))
        if abs(np.linalg.slogdet(np.linalg.inv(e.A))[1] - 2 * np.linalg.slogdet(e.B)[1]) > 1e-6:
            fails.append('Ellipsoid-%d: det(A^-1) != det(B)^2: the volume formula and contains() refer to different ellipsoids' % d)
        if d <= 4:
            refd = rng.random((NREF // 2, d))
            frac = float(np.mean(e.contains(refd)))
            se = math.sqrt(max(frac * (1 - frac), 1e-12) / len(refd))
            if np.all(e.contains(np.clip(e.sample(2000), 0, 1))) and abs(math.exp(e.log_v) - frac) > Z * se + 1e-12 and np.all((e.sample(5000) >= 0) & (e.sample(5000) < 1)):
                fails.append('Ellipsoid-%d: volume %.6g, fraction of the cube contained %.6g' % (d, math.exp(e.log_v), frac))
    return fails, st


def main(run: Run, audit):
    nb = use_repo()
    warnings.filterwarnings('ignore')
    import nautilus.bounds     # noqa
    import nautilus.pool       # noqa
    from nautilus.bounds.basic import UnitCubeEllipsoidMixture
    B = nb.bounds
    rng = np.random.default_rng(run.seed % 100000)
    cases, fails = [], []
    for d in ([2, 3] if run.tier == 'quick' else [2, 3, 5]):
        for kind in ('overlap', 'face', 'outliers', 'three'):
            for cls in (B.Ellipsoid, UnitCubeEllipsoidMixture):
                for unit in (True, False):
                    if run.tier == 'quick' and (not unit) and kind != 'overlap':
                        continue
                    u, pts, trims = make_union(nb, rng, d, kind, unit, cls)
                    c, f = replay_union(nb, u, [1, 50, 990, 1400, 3], 'Union-%d-%s-%s-%s' % (d, kind, cls.__name__[:3], 'unit' if unit else 'free'))
                    cases.append(c)
                    fails += f
        for nn in (0, 1):
            for periodic in (None, [0]):
                pts = rng.random((400, d))
                ll = -np.sum((pts - 0.5) ** 2, axis=1) * 30
                lmin = np.sort(ll)[-120]
                with np.errstate(all='ignore'):
                    b = B.NautilusBound.compute(pts, ll, lmin, -1.0 * d, n_networks=nn, neural_network_kwargs=dict(hidden_layer_sizes=(12, 6), max_iter=150),
                                                periodic=None if periodic is None else np.array(periodic), n_points_min=d + 10, split_threshold=1.0,
                                                rng=np.random.default_rng(int(rng.integers(1 << 30))))
                c, f = replay_nautilus(nb, b, [1, 200, 1500, 7], 'NautilusBound-%d-n%d-%s' % (d, nn, 'per' if periodic else 'np'))
                cases.append(c)
                fails += f
    shards = [list(enumerate(cases))[i::8] for i in range(8)]

    def ev(sh):
        if not sh:
            return []
        body = PRELUDE + '\n'.join(coq_case(i, c) for i, c in sh) + '\nEval vm_compute in [%s].\n' % '; '.join('(%d%%nat, chk%d)' % (i, i) for i, _ in sh)
        rc, out = coq_eval(body, 'cases_C08', timeout=900)
        if rc != 0:
            return [('coq', out[-500:])]
        res = []
        for m in re.finditer(r'\(\s*(\d+)\s*,\s*\[([^\]]*)\]\s*\)', out.replace('\n', ' ').replace('%nat', '')):
            res.append((int(m.group(1)), [x.strip() == 'true' for x in m.group(2).split(';')]))
        return res
    with ThreadPoolExecutor(8) as ex:
        res = list(ex.map(ev, shards))
    mism, broken, n_calls = [], [], 0
    seen = set()
    for r in res:
        for item in r:
            if item[0] == 'coq':
                broken.append(item[1])
                continue
            i, bits = item
            seen.add(i)
            n_calls += len(bits)
            if not all(bits):
                k = bits.index(False)
                mism.append('%s: sample(%d) (call %d): returned points / cache / counters differ from the bookkeeping model replayed on the recorded draws' % (cases[i]['label'], cases[i]['seq'][k]['n'], k))
    if len(seen) != len(cases) and not broken:
        broken.append('no verdict for %d cases' % (len(cases) - len(seen)))
    sfails, st = statistical(nb, run.seed % 100000 + 1, run.tier)
    fails += sfails
    n_props = sum(len(p) for c in cases for s in c['seq'] for _, p in s['batches'])
    run.cov.update(evaluations=n_props + st['draws'] + st['ref'], distinct_nontrivial=n_calls,
                   rule='replayed sample() calls on unions (overlapping, three clusters, cut by a face, with trimmed outliers; ellipsoid and mixture members; unit and free) and nautilus bounds '
                        '(0/1 networks, periodic or not): every proposal with its multiplicity and uniform draw goes through the Gallina model; statistical tests on %d+ draws per bound' % 100000,
                   replayed_calls=n_calls, replayed_proposals=n_props, statistical_draws=st['draws'], reference_points=st['ref'], statistical_tests=st['tests'], pool_merges_checked=st.get('merges', 0),
                   disagreements_checked=len(mism), direct_predicate_failures=len(fails),
                   samples=[dict(label=cases[0]['label'], first_call=dict(n=cases[0]['seq'][0]['n'], batches=len(cases[0]['seq'][0]['batches']), proposals=cases[0]['seq'][0]['batches'][0][1][:3] if cases[0]['seq'][0]['batches'] else []))])
    if fails:
        run.violation('C08 direct predicate fails on the implementation: ' + fails[0], dict(kind='direct', what=fails[0], all=fails[:10], seed=run.seed % 100000, tier=run.tier), True, key='C08:' + fails[0][:30])
    elif mism:
        run.violation('C08: ' + mism[0], dict(kind='correspondence', broken='Union.sample / NautilusBound.sample ~ UnionSample.sample', what=mism[:10]), False)
    elif broken:
        run.violation('in-Coq evaluation of the C08 cases failed: ' + broken[0], dict(kind='correspondence', broken='cases_C08.v', log=broken[0]), False)


def replay(path):
    import json
    r = json.load(open(path))
    print(json.dumps(r, indent=1)[:2000])
    return 0
