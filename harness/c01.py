"""C01 -- see shellfam.py (shared traced-run machinery) and coq/P_C01.v (theorems)."""
import shellfam
from common import Run

N_QUICK = 16
N_THOROUGH = 160
EXTRAS = {}
FORCES = [dict(vectorized=True, prior_inplace=True, prior_object=False, pool_l=None), dict(vectorized=False, prior_inplace=True, prior_object=False, early_posterior=True, pool_l=None), dict(n_live=8, n_update=1, n_batch=3, n_networks=0, family='twomode', n_dim=2, seed=22, discard_at_end=False, n_shell=5, n_eff=60, blob='none', toggles=0, resumes=2, pool_s=None, pool_l=None, vectorized=False, prior_object=False, prior_inplace=False, periodic=None, n_points_min=None, split_threshold=100, n_like_new_bound=None, direct_every=True), dict(n_live=8, n_update=1, n_batch=3, n_networks=0, family='funnel', n_dim=2, seed=3, discard_at_end=True, n_shell=5, n_eff=60, blob='none', toggles=0, resumes=1, pool_s=None, pool_l=None, vectorized=False, prior_object=False, prior_inplace=False, periodic=None, n_points_min=None, split_threshold=100, n_like_new_bound=None, direct_every=True), dict(n_live=10, n_update=1, n_batch=2, n_networks=0, family='gauss', n_dim=2, discard_at_end=True, n_shell=5, n_eff=150, blob='float', toggles=1, resumes=1, pool_s=None, pool_l=None, vectorized=False, prior_object=False, periodic=None, direct_every=True), dict(n_live=10, n_update=1, n_batch=2, n_networks=0, family='twomode', n_dim=2, discard_at_end=False, n_shell=5, n_eff=150, blob='two', toggles=2, resumes=0, pool_s=None, pool_l=None, vectorized=False, prior_object=False, periodic=None, direct_every=True),
          dict(n_shell=30, n_eff=600), dict(family='funnel', n_networks=0, n_shell=30, n_eff=800, n_batch=20, n_live=100, n_dim=2),
          dict(n_live=30, n_update=5, n_batch=7, n_shell=10), dict(n_networks=1, n_live=80, n_batch=20, n_shell=30),
          dict(family='funnel', n_networks=0, n_shell=50, n_eff=1000, n_batch=50, n_live=100, n_dim=2, resumes=1),
          dict(family='periodic', periodic=[0], n_shell=30), dict(pool_s=3, n_networks=0, n_shell=20), dict(family='halfspace', n_shell=20)]


def main(run: Run, audit):
    n = N_QUICK if run.tier == 'quick' else N_THOROUGH
    shellfam.run_family(run, 'C01', n, forces=FORCES, extras=EXTRAS)


def replay(path):
    return shellfam.replay_config(path, 'C01')
