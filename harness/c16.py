"""C16 -- the periodic phase shift is a bijection of the unit cube.

Tie (a): on inputs that are multiples of 2^-20 every float operation of PhaseShift is exact, so transform, its
inverse and compute must equal the exact grid model (PhaseGrid.v) exactly; evaluated inside Coq by vm_compute.
Tie (b): boundary-directed binary64 inputs, bit-exact against the PrimFloat model (PhaseFloat.v), inside Coq.
Search: direct predicates on the implementation (range, untouched columns, inverse error, gap placement)."""
import os
import re
import sys
from concurrent.futures import ThreadPoolExecutor

import numpy as np

from common import Run, use_repo, coq_eval

K = 20
TWO_N = 2 ** (K + 1)         # grid positions; inputs are even positions (multiples of 2^-20)
N = 2 ** K


def ulps(x, k):
    for _ in range(abs(k)):
        x = np.nextafter(x, 2.0 if k > 0 else -1.0)
    return float(x)


def make_shift(nb, periodic, centers):
    ps = nb.bounds.periodic.PhaseShift()
    ps.periodic = np.array(periodic, dtype=int)
    ps.centers = np.array(centers, dtype=float)
    return ps


def grid_cases(rng, n, nb):
    """(per, cs, inv, pt) with all values on the grid; returns cases and implementation outputs."""
    out = []
    for _ in range(n):
        d = int(rng.integers(1, 7))
        npr = int(rng.integers(0, d + 1))
        per = list(rng.permutation(d)[:npr])
        mode = rng.integers(0, 4)
        if mode == 0:
            cs = [int(rng.integers(0, N)) * 2 for _ in per]
        elif mode == 1:
            cs = [int(rng.choice([0, N, N - 2, N + 2, TWO_N - 2, 2])) for _ in per]
        else:
            cs = [int(rng.integers(0, TWO_N)) for _ in per]        # odd positions too (multiples of 2^-21)
        pt = []
        for j in range(d):
            m = rng.integers(0, 4)
            if m == 0 and j in per:
                c = cs[per.index(j)]
                # the wrap position of the forward / inverse transform and its neighbours
                pt.append(int((c + N + int(rng.integers(-2, 3))) % TWO_N))
            elif m == 1:
                pt.append(int(rng.choice([0, 1, 2, TWO_N - 1, TWO_N - 2, N])))
            else:
                pt.append(int(rng.integers(0, TWO_N)))
        inv = bool(rng.integers(0, 2))
        ps = make_shift(nb, per, [c / TWO_N for c in cs])
        x = np.array([pt], dtype=float) / TWO_N
        r = ps.transform(x, inverse=inv)[0] * TWO_N
        out.append((per, cs, inv, pt, r))
    return out


def compute_cases(rng, n, nb):
    out = []
    for _ in range(n):
        npts = int(rng.integers(1, 40))
        mode = rng.integers(0, 5)
        if mode == 0:      # one cluster wrapping around the boundary
            w = int(rng.integers(1, N // 2))
            vals = [int((TWO_N - w + 2 * int(rng.integers(0, w))) % TWO_N) for _ in range(npts)]
        elif mode == 1:    # two clusters
            a, b = int(rng.integers(0, N)) * 2, int(rng.integers(0, N)) * 2
            vals = [int((rng.choice([a, b]) + 2 * int(rng.integers(0, 1000))) % TWO_N) for _ in range(npts)]
        elif mode == 2:    # ties between gaps: equally spaced
            k = int(rng.integers(1, 9))
            vals = [int((i * (TWO_N // k) // 2 * 2 + 2 * int(rng.integers(0, 2)) * 0) % TWO_N) for i in range(k)]
        elif mode == 3:    # duplicates and extremes
            vals = [int(rng.choice([0, 2, TWO_N - 2, N, N + 2])) for _ in range(npts)]
        else:
            vals = [int(rng.integers(0, N)) * 2 for _ in range(npts)]
        vals = [v - (v % 2) for v in vals]
        pts = np.array([[v / TWO_N, 0.25] for v in vals])
        ps = nb.bounds.periodic.PhaseShift.compute(pts, np.array([0]))
        out.append((vals, float(ps.centers[0]) * TWO_N))
    return out


def zl(l):
    return '[' + '; '.join(str(int(x)) for x in l) + ']'


def grid_file(cases, ccases):
    body = []
    for per, cs, inv, pt, r in cases:
        if not all(float(v).is_integer() for v in r):
            exp = '[-1]'
        else:
            exp = zl(r)
        body.append('(%s, %s, %s, %s, %s)' % ('[' + '; '.join('%d%%nat' % p for p in per) + ']', zl(cs), 'true' if inv else 'false', zl(pt), exp))
    cbody = []
    for vals, c in ccases:
        cbody.append('(%s, %s)' % (zl(vals), str(int(c)) if float(c).is_integer() else '-1'))
    return '''From Coq Require Import ZArith List Bool. Import ListNotations.
Require Import NV.PhaseGrid.
Open Scope Z_scope.
Definition zl_eqb (a b : list Z) : bool := (Nat.eqb (length a) (length b)) && forallb (fun p => Z.eqb (fst p) (snd p)) (combine a b).
Definition cases : list (list nat * list Z * bool * list Z * list Z) := [
%s].
Definition ccases : list (list Z * Z) := [
%s].
Definition ok (t : list nat * list Z * bool * list Z * list Z) : bool :=
  let '(per, cs, inv, pt, e) := t in zl_eqb (transform %d per cs inv pt) e && zl_eqb (transform %d per cs (negb inv) e) pt.
Definition cok (t : list Z * Z) : bool := Z.eqb (compute_centre %d (fst t)) (snd t).
Definition bad := map fst (filter (fun ic => negb (ok (snd ic))) (combine (seq 0 (length cases)) cases)).
Definition cbad := map fst (filter (fun ic => negb (cok (snd ic))) (combine (seq 0 (length ccases)) ccases)).
Eval vm_compute in (length cases, bad, length ccases, cbad).
''' % (';\n'.join(body), ';\n'.join(cbody), N, N, N)


def float_cases(rng, n_centres, nb):
    cs = [0.0, 0.5, 0.8, 0.25, 2.0 ** -30, 1 - 2.0 ** -53, 0.3, 0.7, 0.1, 2.0 ** -1074, 0.5 - 2.0 ** -54, 0.5 + 2.0 ** -53]
    cs += list(rng.random(n_centres))
    cases = []
    for c in cs:
        w = (c - 0.5) % 1.0
        xs = [0.0, 2.0 ** -1074, 2.0 ** -54, 2.0 ** -53, 0.5, 1 - 2.0 ** -53, 1 - 2.0 ** -52]
        for base in [w, (0.5 - c) % 1.0, abs(c - 0.5), c]:
            for k in range(-6, 7):
                x = ulps(base, k)
                if 0 <= x < 1:
                    xs.append(x)
        xs += list(rng.random(12))
        ps = make_shift(nb, [0], [c])
        arr = np.array([[x, 0.123] for x in xs])
        for inv in (False, True):
            r = ps.transform(arr, inverse=inv)
            for x, row in zip(xs, r):
                cases.append((float(c), float(x), inv, float(row[0]), float(row[1])))
    return cases


def float_file(cases):
    return '''From Coq Require Import List PrimFloat Bool. Import ListNotations.
Require Import NV.PhaseFloat.
Open Scope float_scope.
Definition same (a b : float) : bool := (a =? b) && Bool.eqb (get_sign a) (get_sign b).
Definition cases : list (float * float * bool * float) := [
%s].
Definition ok (t : float * float * bool * float) : bool := let '(c, x, inv, e) := t in same (if inv then unshift c x else shift c x) e.
Definition bad := map fst (filter (fun ic => negb (ok (snd ic))) (combine (seq 0 (length cases)) cases)).
Eval vm_compute in (length cases, bad).
''' % ';\n'.join('(%s, %s, %s, %s)' % (c.hex(), x.hex(), 'true' if inv else 'false', r.hex()) for c, x, inv, r, _ in cases)


def parse_bad(out, k):
    """parse `= (n, [i; j], m, [..])`-like output: returns list of ints/lists in order"""
    m = re.search(r'=\s*\((.*)\)\s*:', out, re.S)
    if not m:
        return None
    txt = m.group(1).replace('%nat', '').replace('\n', ' ')
    parts = re.findall(r'\[[^\]]*\]|nil|\d+', txt)
    res = []
    for p in parts:
        if p == 'nil' or p.startswith('['):
            res.append([int(x) for x in re.findall(r'\d+', p)])
        else:
            res.append(int(p))
    return res if len(res) == k else None


def direct_predicates(rng, nb, n):
    """Property predicates on the implementation alone; returns list of (what, replay dict)."""
    fails = []
    PhaseShift = nb.bounds.periodic.PhaseShift
    stats = dict(points=0, gap_sets=0)
    for it in range(n):
        d = int(rng.integers(2, 7))
        npr = int(rng.integers(1, d + 1))
        per = rng.permutation(d)[:npr]
        if it % 5 < 3:
            per = np.sort(per)       # the caller may list the periodic dimensions in any order
        npts = int(rng.integers(2, 60))
        pts = rng.random((npts, d))
        mode = it % 4
        if mode == 1:      # cluster wrapping the boundary
            pts[:, per] = (rng.normal(0.0, 0.05, size=(npts, len(per)))) % 1.0
            pts[pts >= 1] = 0.0
        elif mode == 2:    # exact extremes present
            pts[0, per] = 0.0
            pts[1, per] = np.nextafter(1.0, 0.0)
        ps = PhaseShift.compute(pts, per)
        probes = np.vstack([pts, rng.random((50, d))])
        # probes adjacent to the wrap position
        for i, dim in enumerate(per):
            w = (ps.centers[i] - 0.5) % 1.0
            extra = rng.random((13, d))
            extra[:, dim] = [min(max(ulps(w, k), 0.0), np.nextafter(1.0, 0.0)) for k in range(-6, 7)]
            probes = np.vstack([probes, extra])
        for inv in (False, True):
            t = ps.transform(probes, inverse=inv)
            stats['points'] += len(probes)
            if t.shape != probes.shape:
                fails.append(('transform changed the shape', dict(per=per.tolist(), centers=ps.centers.tolist())))
                continue
            bad = ~((t >= 0) & (t < 1))
            if np.any(bad):
                r, c = np.argwhere(bad)[0]
                fails.append(('transform output %r outside [0,1) for input %r (centre %r, inverse=%s)' % (
                    float(t[r, c]).hex(), float(probes[r, c]).hex(), float(ps.centers[list(per).index(c)]).hex() if c in per else None, inv),
                    dict(per=per.tolist(), centers=[float(x).hex() for x in ps.centers], point=[float(x).hex() for x in probes[r]], inverse=inv)))
            others = [j for j in range(d) if j not in per]
            if others and not np.array_equal(t[:, others].view(np.uint64), probes[:, others].view(np.uint64)):
                fails.append(('a non-periodic coordinate was changed', dict(per=per.tolist(), inverse=inv)))
            back = ps.transform(t, inverse=not inv)
            err = np.abs(back - probes)
            err = np.minimum(err, 1 - err)
            if np.any(err[:, per] > 2.0 ** -51):
                r = int(np.argmax(err[:, per].max(axis=1)))
                fails.append(('inverse does not undo the transform: error %g' % err[:, per].max(),
                              dict(per=per.tolist(), centers=[float(x).hex() for x in ps.centers], point=[float(x).hex() for x in probes[r]], inverse=inv)))
        # gap placement: after the shift no construction point within gap/2 of the boundary
        t = ps.transform(pts)
        stats['gap_sets'] += 1
        for i, dim in enumerate(per):
            x = np.sort(pts[:, dim])
            dx = np.append(np.diff(x), x[0] - (x[-1] - 1))
            g = float(np.max(dx))
            dist = np.minimum(t[:, dim], 1 - t[:, dim])
            if np.any(dist < g / 2 - 1e-12):
                fails.append(('largest gap %g not across the boundary: a construction point is %g from it' % (g, dist.min()),
                              dict(per=per.tolist(), dim=int(dim), values=[float(v).hex() for v in pts[:, dim]])))
    return fails, stats


def main(run: Run, audit):
    nb = use_repo()
    import nautilus.bounds.periodic     # noqa
    rng = np.random.default_rng(run.seed)
    quick = run.tier == 'quick'
    n_grid_files = 8 if quick else 48
    n_float_files = 8 if quick else 48
    jobs = []
    gcs, ccs, fcs = [], [], []
    for i in range(n_grid_files):
        g = grid_cases(rng, 2500, nb)
        c = compute_cases(rng, 600, nb)
        gcs.append(g)
        ccs.append(c)
        jobs.append(('grid', i, grid_file(g, c)))
    for i in range(n_float_files):
        f = float_cases(rng, 30, nb)
        fcs.append(f)
        jobs.append(('float', i, float_file(f)))

    def runjob(j):
        kind, i, text = j
        rc, out = coq_eval(text, 'cases_C16_%s_%d' % (kind, i), timeout=600)
        return kind, i, rc, out
    with ThreadPoolExecutor(16) as ex:
        results = list(ex.map(runjob, jobs))
    n_grid = n_comp = n_float = 0
    grid_bad, comp_bad, float_bad, broken = [], [], [], []
    for kind, i, rc, out in results:
        if kind == 'grid':
            r = parse_bad(out, 4) if rc == 0 else None
            if r is None:
                broken.append('cases_C16_grid_%d.v: %s' % (i, out[-400:]))
                continue
            n_grid += r[0]
            n_comp += r[2]
            grid_bad += [gcs[i][k] for k in r[1]]
            comp_bad += [ccs[i][k] for k in r[3]]
        else:
            r = parse_bad(out, 2) if rc == 0 else None
            if r is None:
                broken.append('cases_C16_float_%d.v: %s' % (i, out[-400:]))
                continue
            n_float += r[0]
            float_bad += [fcs[i][k] for k in r[1]]
    fails, stats = direct_predicates(rng, nb, 300 if quick else 3000)
    # direct predicates on the very cases of the ties
    n_out = 0
    for f in fcs:
        for c, x, inv, r, other in f:
            if not (0 <= r < 1):
                n_out += 1
                if n_out <= 3:
                    fails.append(('transform(%s) of x=%s with centre %s returns %s, outside [0,1)' % ('inverse' if inv else 'forward', x.hex(), c.hex(), r.hex()),
                                  dict(centre=c.hex(), x=x.hex(), inverse=inv, result=r.hex())))
            if other != 0.123:
                fails.append(('non-periodic coordinate changed', dict(centre=c.hex(), x=x.hex())))
    distinct = len({(c, x, inv) for f in fcs for c, x, inv, _, _ in f}) + len({(tuple(p), tuple(c), i, tuple(t)) for g in gcs for p, c, i, t, _ in g})
    wraps = sum(1 for f in fcs for c, x, inv, r, _ in f if r < 2.0 ** -40 or r > 1 - 2.0 ** -40)
    run.cov.update(evaluations=n_grid + n_comp + n_float + stats['points'], distinct_nontrivial=distinct,
                   rule='grid cases: random dims 1-6, periodic subsets, centres and points on the 2^-21 grid incl. wrap position +-2 steps; '
                        'compute cases: wrapped clusters, ties, duplicates, extremes; float cases: boundary-directed (0, 2^-1074, 2^-54, 1-2^-53, '
                        '+-6 ulps around the wrap position and around 0.5-c) for %d centres per file; distinct = distinct (centre, input, direction) tuples' % 42,
                   grid_transform_cases=n_grid, grid_compute_cases=n_comp, float_cases=n_float, float_results_within_2e40_of_boundary=wraps,
                   direct_points=stats['points'], direct_gap_sets=stats['gap_sets'], disagreements_checked=len(grid_bad) + len(comp_bad) + len(float_bad),
                   samples=[dict(kind='float', centre=fcs[0][5][0].hex(), x=fcs[0][5][1].hex(), inverse=fcs[0][5][2], result=fcs[0][5][3].hex()),
                            dict(kind='grid', periodic=[int(p) for p in gcs[0][0][0]], centres=gcs[0][0][1], inverse=gcs[0][0][2], point=gcs[0][0][3], result=[float(v) for v in gcs[0][0][4]]),
                            dict(kind='compute', values=ccs[0][0][0][:8], centre=ccs[0][0][1])])
    if fails:
        what, rep = fails[0]
        rep = dict(rep)
        rep['kind'] = 'direct'
        rep['n_failures'] = len(fails)
        run.violation('C16 direct predicate fails on the implementation: ' + what, rep, True, key='C16:' + what[:30])
    elif grid_bad or comp_bad or float_bad or broken:
        if float_bad:
            c, x, inv, r, _ = float_bad[0]
            rep = dict(kind='correspondence', broken='PhaseShift.transform ~ PhaseFloat.shift/unshift (binary64, bit-exact)', centre=c.hex(), x=x.hex(), inverse=inv, implementation=r.hex())
        elif grid_bad:
            per, cs, inv, pt, r = grid_bad[0]
            rep = dict(kind='correspondence', broken='PhaseShift.transform ~ PhaseGrid.transform (exact grid)', periodic=[int(p) for p in per], centres=cs, inverse=inv, point=pt, implementation=[float(v) for v in r], grid=TWO_N)
        elif comp_bad:
            vals, c = comp_bad[0]
            rep = dict(kind='correspondence', broken='PhaseShift.compute ~ PhaseGrid.compute_centre (exact grid)', values=vals, implementation=c, grid=TWO_N)
        else:
            rep = dict(kind='correspondence', broken=broken[0])
        run.violation('correspondence of the phase-shift model with the implementation broken, no property predicate fails: %s' % rep['broken'], rep, False)


def replay(path):
    import json
    nb = use_repo()
    r = json.load(open(path))
    print(json.dumps(r, indent=1))
    if 'centre' in r and 'x' in r:
        ps = make_shift(nb, [0], [float.fromhex(r['centre'])])
        out = ps.transform(np.array([[float.fromhex(r['x']), 0.5]]), inverse=r.get('inverse', False))
        print('transform ->', float(out[0, 0]).hex(), 'in [0,1):', bool(0 <= out[0, 0] < 1))
        return 0 if 0 <= out[0, 0] < 1 else 1
    return 0
