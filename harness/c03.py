"""C03 -- see shellfam.py (shared traced-run machinery) and coq/P_C03.v (theorems)."""
import shellfam
from common import Run

N_QUICK = 24
N_THOROUGH = 200
EXTRAS = {}
FORCES = [dict(n_live=8, n_update=1, n_batch=3, n_networks=0, family='twomode', n_dim=2, seed=22, discard_at_end=False, n_shell=5, n_eff=60, blob='two', toggles=0, resumes=2, pool_s=None, pool_l=None, vectorized=False, prior_object=False, prior_inplace=False, periodic=None, n_points_min=None, split_threshold=100, n_like_new_bound=None, direct_every=False), dict(n_live=8, n_update=1, n_batch=3, n_networks=0, family='funnel', n_dim=2, seed=3, discard_at_end=True, n_shell=5, n_eff=60, blob='none', toggles=0, resumes=1, pool_s=None, pool_l=None, vectorized=False, prior_object=False, prior_inplace=False, periodic=None, n_points_min=None, split_threshold=100, n_like_new_bound=None, direct_every=False), dict(n_live=10, n_update=1, n_batch=2, n_networks=0, family='gauss', n_dim=2, discard_at_end=True, n_shell=5, n_eff=150, blob='float', toggles=1, resumes=1, pool_s=None, pool_l=None, vectorized=False, prior_object=False, periodic=None, direct_every=False), dict(n_live=10, n_update=1, n_batch=2, n_networks=0, family='twomode', n_dim=2, discard_at_end=False, n_shell=5, n_eff=150, blob='two', toggles=2, resumes=0, pool_s=None, pool_l=None, vectorized=False, prior_object=False, periodic=None, direct_every=False)] + [dict(blob=b, vectorized=v, prior_object=po, prior_inplace=pi, early_posterior=pi, n_batch=nb, pool_l=pl, n_live=40, n_networks=0, n_eff=150, family='gauss', n_dim=2)
          for (b, v, po, pi, nb, pl) in [('float', False, False, True, 1, None), ('int', True, False, False, 2, None), ('vec1', False, True, False, 7, None),
                                         ('vec3', True, True, False, 7, None), ('two', False, False, True, 20, 2), ('none', False, False, False, 1, None),
                                         ('float', True, False, True, 7, None), ('two', True, True, False, 2, None), ('vec3', False, False, False, 1, 2),
                                         ('int', False, True, False, 20, 'executor'), ('vec1', True, False, True, 1, None), ('float', False, False, False, 7, 2), ('two', False, False, False, 20, 'executor')]]


def main(run: Run, audit):
    n = N_QUICK if run.tier == 'quick' else N_THOROUGH
    shellfam.run_family(run, 'C03', n, forces=FORCES, extras=EXTRAS)
    # an integer likelihood pool: the sampler creates a real multiprocessing pool and caches the likelihood in its workers (this
    # cannot run inside a daemonic worker, so it runs here), with likelihood_kwargs overriding a keyword that has a default
    import numpy as np
    import trace as T
    rng = np.random.default_rng(run.seed + 77)
    cfg = T.make_config(rng, 0, run.tier, dict(family='gauss', n_dim=2, n_live=40, n_batch=8, n_update=None, n_networks=0, blob='float', vectorized=False, prior_object=False,
                                                prior_inplace=False, pool_l='real', pool_s=None, lik_tilt=0.6, resumes=0, toggles=0, max_batches=120, max_seconds=60,
                                                periodic=None, n_points_min=None, split_threshold=100, n_like_new_bound=None, n_eff=100, n_shell=1, discard_at_end=False))
    r = shellfam.worker((cfg, 'C03', dict(tmp=run.tmp)))
    run.cov['real_pool_run'] = dict(events=r.get('events'), posterior_rows_checked=r.get('n_rows'), crashed=bool(r.get('crashed')))
    if r.get('crashed'):
        run.violation('traced run with a real likelihood pool crashed in the harness (fail closed): ' + r['crashed'][-400:], dict(kind='harness', config=cfg, broken='trace harness'), False)
    else:
        direct = r['fails'].get('C03', []) + r['fails'].get('ANY', [])
        if direct:
            run.violation('C03 direct predicate fails on the implementation (integer likelihood pool with likelihood_kwargs): %s' % direct[0][0],
                          dict(kind='direct', config=cfg, what=direct[0][0], detail=direct[0][1]), True, key='C03:' + direct[0][0][:30])
        elif not r['model_ok']:
            run.violation('correspondence sampler ~ Shell2.step broken for the fields relevant to C03 with an integer likelihood pool: %s' % (r['model_diff'][:1],),
                          dict(kind='correspondence', broken='sampler.py evaluate_likelihood (pool path) ~ Shell2.step oracle tables', config=cfg, difference=r['model_diff']), False)


def replay(path):
    return shellfam.replay_config(path, 'C03')
